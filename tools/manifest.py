#!/venv/bin/python
"""Regenerates MANIFEST.json from the table below (single source of truth for the registered checks)."""
import json
import sys
from pathlib import Path

ROOT = Path(__file__).resolve().parent.parent

CHECKS = {
    'C20': dict(
        category='proof', design_ref='DESIGN.md section 7/C20',
        text='Lean 4 theorems over an executable model of EventHandler (every finite history of '
             'connect/disconnect/emit: exactly the connected listeners are called, by descending priority with ties '
             'in connection order; disconnect removes exactly the named listener). The model is tied to '
             'tenpy/tools/events.py on every run by running identical generated histories through the real class '
             'and the Lean model and diffing the outputs; an independent list-based oracle classifies failures.',
        note='Trusted: Lean kernel, standard axioms only (audited with #print axioms on every run), the JSON '
             'line-protocol driver and harness. Callbacks are abstracted to identities. Cache/thread part of C20: '
             'in progress.',
        technique='Lean 4 proof (invariant + refinement to a list spec) + differential correspondence'),
}

ALL = ['C%02d' % i for i in range(1, 21)]


def main():
    checks = []
    for pid, c in sorted(CHECKS.items()):
        checks.append(dict(
            property_id=pid, quick_cmd=f'./check {pid} --tier quick', thorough_cmd=f'./check {pid} --tier thorough',
            evidence_file=f'evidence/{pid}.json', replay_cmd_template=f'./check {pid} --replay {{path}}',
            engine='lean4-model+correspondence',
            level_claimed=dict(category=c['category'], text=c['text'], design_ref=c['design_ref']),
            level_note=c['note'], technique=c['technique']))
    na = [dict(property_id=p, reason='check not built yet in this round (planned: see DESIGN.md section 7); '
               'not claimed until its model, theorems and correspondence run exist')
          for p in ALL if p not in CHECKS]
    man = dict(
        version=1,
        setup_cmd='./setup.sh',
        hooks=dict(guard='TENPY_VERIF', enable='no source hooks: crash points, schedules and tracing are injected '
                   'from the harness by monkeypatching', baseline_off_cmd='cd /repo && /venv/bin/python -m pytest -ra -q '
                   '-p no:cacheprovider --timeout=900 --continue-on-collection-errors', source_commits=[], add_only=True),
        engines=[dict(name='lean4-model+correspondence', path='check', serves_properties=sorted(CHECKS),
                      kind_free_text='Lean 4 library lean/TenpyModel (models, proofs, Props theorems), line-protocol '
                      'drivers lean/drivers/*.lean, Python harness harness/*.py running the real tenpy code')],
        checks=checks, not_applicable=na,
        notes='All checks: ./check <id> --tier quick|thorough; VERIF_SEED honoured; VERIF_REPO overrides the tree under test.')
    (ROOT / 'MANIFEST.json').write_text(json.dumps(man, indent=1))
    try:
        import jsonschema
        jsonschema.validate(man, json.loads(Path('/root/.vp/MANIFEST.schema.json').read_text()))
        print('MANIFEST.json valid,', len(checks), 'checks')
    except FileNotFoundError:
        pass


if __name__ == '__main__':
    main()
