#!/venv/bin/python
"""Regenerates MANIFEST.json from the table below (single source of truth for the registered checks)."""
import json
import sys
from pathlib import Path

ROOT = Path(__file__).resolve().parent.parent

CHECKS = {}
for f in sorted((ROOT / 'harness').glob('C*.manifest.json')):
    CHECKS[f.name.split('.')[0]] = json.loads(f.read_text())

ALL = ['C%02d' % i for i in range(1, 21)]


def main():
    checks = []
    for pid, c in sorted(CHECKS.items()):
        checks.append(dict(
            property_id=pid, quick_cmd=f'./check {pid} --tier quick', thorough_cmd=f'./check {pid} --tier thorough',
            evidence_file=f'evidence/{pid}.json', replay_cmd_template=f'./check {pid} --replay {{path}}',
            engine='lean4-model+correspondence',
            level_claimed=dict(category=c['category'], text=c['text'], design_ref=c['design_ref']),
            level_note=c['note'], technique=c['technique']))
    na = [dict(property_id=p, reason='check not built yet in this round (planned: see DESIGN.md section 7); '
               'not claimed until its model, theorems and correspondence run exist')
          for p in ALL if p not in CHECKS]
    man = dict(
        version=1,
        setup_cmd='./setup.sh',
        hooks=dict(guard='TENPY_VERIF', enable='no source hooks: crash points, schedules and tracing are injected '
                   'from the harness by monkeypatching', baseline_off_cmd='cd /repo && /venv/bin/python -m pytest -ra -q '
                   '-p no:cacheprovider --timeout=900 --continue-on-collection-errors', source_commits=[], add_only=True),
        engines=[dict(name='lean4-model+correspondence', path='check', serves_properties=sorted(CHECKS),
                      kind_free_text='Lean 4 library lean/TenpyModel (models, proofs, Props theorems), line-protocol '
                      'drivers lean/drivers/*.lean, Python harness harness/*.py running the real tenpy code')],
        checks=checks, not_applicable=na,
        notes='All checks: ./check <id> --tier quick|thorough; VERIF_SEED honoured; VERIF_REPO overrides the tree under test.')
    (ROOT / 'MANIFEST.json').write_text(json.dumps(man, indent=1))
    try:
        import jsonschema
        jsonschema.validate(man, json.loads(Path('/root/.vp/MANIFEST.schema.json').read_text()))
        print('MANIFEST.json valid,', len(checks), 'checks')
    except FileNotFoundError:
        pass


if __name__ == '__main__':
    main()
