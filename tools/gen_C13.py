#!/venv/bin/python
"""Regenerate lean/TenpyModel/Gen/C13Schedule.lean from the AST of `Sweep.get_sweep_schedule`
(tenpy/algorithms/mps_common.py).

Only the shapes the function has today are accepted: an `if self.finite / elif n == 2 / elif n == 1` chain whose
branches assign `i0s`, `move_right`, `update_LP_RP` from `list(range(..))`, `[x] * k`, `+`, names `L`, `n`, integer
literals, `True/False`, and two-element lists of booleans; the function must end in `return zip(i0s, move_right,
update_LP_RP)`.  Anything else is reported (never a silent fallback to a stale table).
"""
import ast
import sys
from pathlib import Path


class Unsupported(Exception):
    pass


def arith(e):
    if isinstance(e, ast.Name) and e.id in ('L', 'n'):
        return e.id
    if isinstance(e, ast.Constant) and isinstance(e.value, int) and not isinstance(e.value, bool):
        if e.value < 0:
            raise Unsupported('negative literal')
        return str(e.value)
    if isinstance(e, ast.BinOp) and isinstance(e.op, (ast.Add, ast.Sub, ast.Mult)):
        op = {ast.Add: '+', ast.Sub: '-', ast.Mult: '*'}[type(e.op)]
        return f'({arith(e.left)} {op} {arith(e.right)})'
    raise Unsupported('arithmetic: ' + ast.dump(e))


def elem(e):
    if isinstance(e, ast.Constant) and isinstance(e.value, bool):
        return 'true' if e.value else 'false'
    if isinstance(e, ast.List) and len(e.elts) == 2:
        return f'({elem(e.elts[0])}, {elem(e.elts[1])})'
    raise Unsupported('list element: ' + ast.dump(e))


def lst(e):
    if isinstance(e, ast.BinOp) and isinstance(e.op, ast.Add):
        return f'({lst(e.left)} ++ {lst(e.right)})'
    if isinstance(e, ast.BinOp) and isinstance(e.op, ast.Mult) and isinstance(e.left, ast.List) and len(e.left.elts) == 1:
        return f'List.replicate {arith(e.right)} {elem(e.left.elts[0])}'
    if isinstance(e, ast.List) and len(e.elts) == 1:
        return f'[{elem(e.elts[0])}]'
    if isinstance(e, ast.Call) and isinstance(e.func, ast.Name) and e.func.id == 'list' and len(e.args) == 1:
        r = e.args[0]
        if isinstance(r, ast.Call) and isinstance(r.func, ast.Name) and r.func.id == 'range':
            if len(r.args) == 2:
                return f'pyRange {arith(r.args[0])} {arith(r.args[1])}'
            if len(r.args) == 3 and isinstance(r.args[2], ast.UnaryOp) and isinstance(r.args[2].op, ast.USub) \
                    and isinstance(r.args[2].operand, ast.Constant) and r.args[2].operand.value == 1:
                return f'pyRangeDown {arith(r.args[0])} {arith(r.args[1])}'
    raise Unsupported('list expression: ' + ast.dump(e))


def branch(body):
    out = {}
    for st in body:
        if isinstance(st, ast.Assert):
            continue
        if isinstance(st, ast.Assign) and len(st.targets) == 1 and isinstance(st.targets[0], ast.Name):
            out[st.targets[0].id] = lst(st.value)
        else:
            raise Unsupported('statement: ' + ast.dump(st)[:200])
    if set(out) != {'i0s', 'move_right', 'update_LP_RP'}:
        raise Unsupported(f'branch assigns {sorted(out)}')
    return out


def cond_kind(test):
    src = ast.unparse(test)
    if src == 'self.finite':
        return 'finite'
    if src == 'n == 2':
        return 'n2'
    if src == 'n == 1':
        return 'n1'
    raise Unsupported('condition: ' + src)


def generate(repo):
    src = (Path(repo) / 'tenpy/algorithms/mps_common.py').read_text()
    tree = ast.parse(src)
    fn = None
    for node in ast.walk(tree):
        if isinstance(node, ast.ClassDef) and node.name == 'Sweep':
            for b in node.body:
                if isinstance(b, ast.FunctionDef) and b.name == 'get_sweep_schedule':
                    fn = b
    if fn is None:
        raise Unsupported('Sweep.get_sweep_schedule not found')
    body = [s for s in fn.body if not (isinstance(s, ast.Expr) and isinstance(s.value, ast.Constant))]
    # L = self.psi.L ; n = self.EffectiveH.length ; if … ; return zip(i0s, move_right, update_LP_RP)
    if [ast.unparse(s) for s in body[:2]] != ['L = self.psi.L', 'n = self.EffectiveH.length']:
        raise Unsupported('prologue changed: ' + repr([ast.unparse(s) for s in body[:2]]))
    if ast.unparse(body[-1]) != 'return zip(i0s, move_right, update_LP_RP)':
        raise Unsupported('epilogue changed: ' + ast.unparse(body[-1]))
    if len(body) != 4 or not isinstance(body[2], ast.If):
        raise Unsupported('body shape changed')
    branches = {}
    node = body[2]
    while True:
        branches[cond_kind(node.test)] = branch(node.body)
        if len(node.orelse) == 1 and isinstance(node.orelse[0], ast.If):
            node = node.orelse[0]
        else:
            # final else: `assert False, …`
            if not (len(node.orelse) == 1 and isinstance(node.orelse[0], ast.Assert)):
                raise Unsupported('final else changed')
            break
    if set(branches) != {'finite', 'n2', 'n1'}:
        raise Unsupported(f'branches {sorted(branches)}')
    lines = ['import TenpyModel.C13.PyList',
             '/-! GENERATED by tools/gen_C13.py from tenpy/algorithms/mps_common.py :: Sweep.get_sweep_schedule.',
             '    Do not edit; regenerated on every check run. -/',
             'set_option linter.unusedVariables false', 'namespace TenpyModel.C13.Gen', 'open TenpyModel.C13', '']
    for key, name in (('finite', 'Finite'), ('n2', 'InfiniteTwo'), ('n1', 'InfiniteOne')):
        b = branches[key]
        lines += [f'def i0s{name} (L n : Nat) : List Nat := {b["i0s"]}',
                  f'def moveRight{name} (L n : Nat) : List Bool := {b["move_right"]}',
                  f'def updateLPRP{name} (L n : Nat) : List (Bool × Bool) := {b["update_LP_RP"]}', '']
    lines += ['/-- `Sweep.get_sweep_schedule` (the `if self.finite / elif n == 2 / elif n == 1` chain) -/',
              'def schedule (finite : Bool) (L n : Nat) : List (Nat × Bool × (Bool × Bool)) :=',
              '  if finite then zip3 (i0sFinite L n) (moveRightFinite L n) (updateLPRPFinite L n)',
              '  else if n = 2 then zip3 (i0sInfiniteTwo L n) (moveRightInfiniteTwo L n) (updateLPRPInfiniteTwo L n)',
              '  else if n = 1 then zip3 (i0sInfiniteOne L n) (moveRightInfiniteOne L n) (updateLPRPInfiniteOne L n)',
              '  else []', '', 'end TenpyModel.C13.Gen', '']
    return '\n'.join(lines)


def main():
    repo = sys.argv[1] if len(sys.argv) > 1 else '/repo'
    out = Path(__file__).resolve().parent.parent / 'lean/TenpyModel/Gen/C13Schedule.lean'
    try:
        text = generate(repo)
    except Unsupported as e:
        print('UNSUPPORTED:', e)
        return 1
    if not out.exists() or out.read_text() != text:
        out.write_text(text)
    return 0


if __name__ == '__main__':
    sys.exit(main())
