#!/venv/bin/python
"""tools/keep_seed.py <seedout-dir> <property> <caught:yes|no|partial> "<what the check reported>" — store a confirmed seeded change under seeded/<id>/"""
import json, shutil, sys
from pathlib import Path
ROOT = Path(__file__).resolve().parent.parent
src, prop, caught, note = Path(sys.argv[1]), sys.argv[2], sys.argv[3], sys.argv[4]
dst = ROOT / 'seeded' / src.name
dst.mkdir(parents=True, exist_ok=True)
for f in ['patch.diff', 'demo.py']:
    shutil.copy(src / f, dst / f)
meta = json.loads((src / 'meta.json').read_text()) if (src / 'meta.json').exists() else {}
meta.update(property=prop, caught_by_check=caught, check_report=note,
            confirmed=dict(how='tools/try_seed.sh: scratch worktree of /repo HEAD + patch; demo.py run on patched tree (fails) and on '
                               '/repo (passes); ./check with VERIF_REPO=<patched tree>; full test suite on the patched tree: see tests_confirmed',
                           ))
(dst / 'meta.json').write_text(json.dumps(meta, indent=1))
print('kept', dst)
