#!/venv/bin/python
"""Translator for C14: Python AST of the tree under test  ->  lean/TenpyModel/Gen/C14Trotter.lean

What is translated (and nothing else is trusted to be "as it was last time"):

* `TEBDEngine.suzuki_trotter_time_steps(order)`   per order the list of coefficient expressions, as exact
  expressions: decimal literals become exact rationals taken from the *source text* of the literal, local
  assignments are inlined, an irrational sub-expression (`4.0 ** (1 / 3.0)`: a power with a non-integer exponent
  of symbol-free operands) becomes an opaque symbol `sym i` whose source text and float value are recorded.
* `TEBDEngine.suzuki_trotter_decomposition(order, N_steps)`   the early exit `if N_steps == 0: return []` and per
  order the returned list expression as a concatenation of segments `[steps] * count`,
  `count in {k, N_steps + k, N_steps - k}`.
* which of `TimeEvolutionAlgorithm.evolve / run_evolution`, `TimeDependentHAlgorithm.run_evolution`,
  `TDVPEngine.evolve`, `TEBDEngine.evolve` contain the statement `self.trunc_err = self.trunc_err + <name>`
  (`Variant` of the accounting model).

Only the AST shapes listed above are accepted.  Anything else is returned as a *problem* (the check then treats the
tie between model and source as broken and searches for a failing input); the Gen file then contains what could be
translated and an empty table for what could not -- never a stale table.

Usage from the harness:  problems, meta = regenerate(repo_path, lean_dir)
Stand-alone:              tools/gen_C14.py [repo]      (prints problems, rewrites the Gen file if it changed)
"""
import ast
import json
import re
import sys
from fractions import Fraction
from pathlib import Path

GEN_REL = 'TenpyModel/Gen/C14Trotter.lean'


class Unsupported(Exception):
    pass


# ---------------------------------------------------------------------------------------------------------------
# coefficient expressions


class Sym:
    """Table of opaque symbols (source text -> index)."""

    def __init__(self):
        self.texts = []
        self.values = []

    def get(self, text, value):
        if text in self.texts:
            return self.texts.index(text)
        self.texts.append(text)
        self.values.append(value)
        return len(self.texts) - 1


def seg(src, node):
    s = ast.get_source_segment(src, node)
    if s is None:
        raise Unsupported('no source segment for ' + ast.dump(node))
    return s


def lit_fraction(src, node):
    """Exact value of a numeric literal as written (not the rounded float)."""
    v = node.value
    if isinstance(v, bool) or not isinstance(v, (int, float)):
        raise Unsupported(f'literal {v!r} is not a real number')
    text = seg(src, node).replace('_', '')
    try:
        return Fraction(text)
    except ValueError:
        raise Unsupported(f'cannot read literal {text!r} exactly')


def has_sym(e):
    if e[0] == 'sym':
        return True
    return any(has_sym(x) for x in e[1:] if isinstance(x, tuple))


def const_value(e):
    """Exact rational value of a symbol-free expression tree, or None."""
    t = e[0]
    if t == 'lit':
        return e[1]
    if t == 'sym':
        return None
    if t == 'neg':
        a = const_value(e[1])
        return None if a is None else -a
    a, b = const_value(e[1]), const_value(e[2])
    if a is None or b is None:
        return None
    if t == 'add':
        return a + b
    if t == 'sub':
        return a - b
    if t == 'mul':
        return a * b
    if t == 'div':
        return None if b == 0 else a / b
    return None


def cexpr(src, node, env, syms):
    """AST expression -> tuple tree ('lit', Fraction) | ('sym', i) | (op, a, b) | ('neg', a)."""
    if isinstance(node, ast.Constant):
        return ('lit', lit_fraction(src, node))
    if isinstance(node, ast.Name):
        if node.id not in env:
            raise Unsupported(f'unknown name {node.id!r} in coefficient expression')
        return env[node.id]
    if isinstance(node, ast.UnaryOp):
        if isinstance(node.op, ast.USub):
            return ('neg', cexpr(src, node.operand, env, syms))
        if isinstance(node.op, ast.UAdd):
            return cexpr(src, node.operand, env, syms)
        raise Unsupported('unary operator ' + type(node.op).__name__)
    if isinstance(node, ast.BinOp):
        ops = {ast.Add: 'add', ast.Sub: 'sub', ast.Mult: 'mul', ast.Div: 'div'}
        if type(node.op) in ops:
            return (ops[type(node.op)], cexpr(src, node.left, env, syms), cexpr(src, node.right, env, syms))
        if isinstance(node.op, ast.Pow):
            base = cexpr(src, node.left, env, syms)
            expo = cexpr(src, node.right, env, syms)
            ev = const_value(expo)
            if ev is not None and ev.denominator == 1 and 0 <= ev <= 8:
                out = ('lit', Fraction(1))
                for _ in range(int(ev)):
                    out = ('mul', out, base)
                return out
            if has_sym(base) or has_sym(expo) or const_value(base) is None or ev is None:
                raise Unsupported('power with non-constant operands: ' + seg(src, node))
            # irrational constant: opaque symbol, value computed by Python from the same sub-expression
            text = seg(src, node)
            names = {n.id for n in ast.walk(node) if isinstance(n, ast.Name)}
            if names:
                raise Unsupported('opaque power refers to local names: ' + text)
            value = eval(compile(ast.Expression(body=node), '<c14>', 'eval'), {'__builtins__': {}}, {})
            if isinstance(value, complex) or value != value:
                raise Unsupported('opaque power is not a real number: ' + text)
            return ('sym', syms.get(text, float(value)))
        raise Unsupported('binary operator ' + type(node.op).__name__)
    raise Unsupported('expression ' + type(node).__name__ + ': ' + seg(src, node))


def lean_cexpr(e):
    t = e[0]
    if t == 'lit':
        f = e[1]
        if f < 0:
            return f'(neg (lit {-f.numerator} {f.denominator}))'
        return f'(lit {f.numerator} {f.denominator})'
    if t == 'sym':
        return f'(sym {e[1]})'
    if t == 'neg':
        return f'(neg {lean_cexpr(e[1])})'
    return f'({t} {lean_cexpr(e[1])} {lean_cexpr(e[2])})'


# ---------------------------------------------------------------------------------------------------------------
# walking the `if order == …: … elif …` dispatch


def strip_doc(body):
    if body and isinstance(body[0], ast.Expr) and isinstance(body[0].value, ast.Constant) \
            and isinstance(body[0].value.value, str):
        return body[1:]
    return body


def order_key(test, argname):
    """`order == <const>` -> the constant."""
    if (isinstance(test, ast.Compare) and len(test.ops) == 1 and isinstance(test.ops[0], ast.Eq)
            and isinstance(test.left, ast.Name) and test.left.id == argname
            and isinstance(test.comparators[0], ast.Constant)
            and isinstance(test.comparators[0].value, (int, str)) and not isinstance(test.comparators[0].value, bool)):
        return test.comparators[0].value
    raise Unsupported('dispatch test is not `order == <constant>`: ' + ast.unparse(test))


def dispatch(stmts, argname):
    """stmts = [If(order == a, body, orelse=[If(...)...]), Raise] -> [(key, body)]."""
    out = []
    rest = list(stmts)
    while rest:
        st = rest.pop(0)
        if isinstance(st, ast.If):
            out.append((order_key(st.test, argname), st.body))
            if st.orelse:
                rest = list(st.orelse) + rest
        elif isinstance(st, ast.Raise):
            if rest:
                raise Unsupported('statements after the final raise')
        else:
            raise Unsupported('statement in order dispatch: ' + type(st).__name__)
    keys = [k for k, _ in out]
    if len(set(map(repr, keys))) != len(keys):
        raise Unsupported('an order appears twice in the dispatch')
    return out


def translate_time_steps(src, fn, syms):
    args = [a.arg for a in fn.args.args]
    if args != ['order']:
        raise Unsupported(f'suzuki_trotter_time_steps signature {args}')
    res = {}
    for key, body in dispatch(strip_doc(fn.body), 'order'):
        env = {}
        ret = None
        for st in body:
            if ret is not None:
                raise Unsupported(f'order {key!r}: statement after return')
            if isinstance(st, ast.Assign) and len(st.targets) == 1 and isinstance(st.targets[0], ast.Name):
                env[st.targets[0].id] = cexpr(src, st.value, env, syms)
            elif isinstance(st, ast.Return) and isinstance(st.value, ast.List):
                ret = [cexpr(src, el, env, syms) for el in st.value.elts]
            else:
                raise Unsupported(f'order {key!r}: unsupported statement {type(st).__name__} '
                                  f'({ast.unparse(st)[:60]})')
        if ret is None:
            raise Unsupported(f'order {key!r}: no return of a list display')
        res[key] = ret
    return res


# ---------------------------------------------------------------------------------------------------------------
# list expressions of the decomposition


def count_expr(node, nname):
    """-> ('const', k) | ('nPlus', k) | ('nMinus', k)"""
    if isinstance(node, ast.Constant) and isinstance(node.value, int) and not isinstance(node.value, bool) \
            and node.value >= 0:
        return ('const', node.value)
    if isinstance(node, ast.Name) and node.id == nname:
        return ('nPlus', 0)
    if (isinstance(node, ast.BinOp) and isinstance(node.left, ast.Name) and node.left.id == nname
            and isinstance(node.right, ast.Constant) and isinstance(node.right.value, int)
            and not isinstance(node.right.value, bool) and node.right.value >= 0):
        if isinstance(node.op, ast.Sub):
            return ('nMinus', node.right.value)
        if isinstance(node.op, ast.Add):
            return ('nPlus', node.right.value)
    raise Unsupported('repetition count ' + ast.unparse(node))


def step_value(node, env):
    if isinstance(node, ast.Name):
        v = env.get(node.id)
        if not (isinstance(v, tuple) and v and v[0] == 'step'):
            raise Unsupported(f'{node.id!r} is not a step')
        return v[1]
    if isinstance(node, ast.Tuple) and len(node.elts) == 2:
        j, k = node.elts
        if not (isinstance(j, ast.Constant) and isinstance(j.value, int) and not isinstance(j.value, bool)
                and j.value >= 0):
            raise Unsupported('step index ' + ast.unparse(j))
        if isinstance(k, ast.Name) and isinstance(env.get(k.id), tuple) and env[k.id][0] == 'parity':
            par = env[k.id][1]
        elif isinstance(k, ast.Constant) and k.value in (0, 1) and not isinstance(k.value, bool):
            par = k.value
        else:
            raise Unsupported('step parity ' + ast.unparse(k))
        return (j.value, par)
    raise Unsupported('step ' + ast.unparse(node))


def list_expr(node, env, nname):
    """-> list of segments (steps, rep)."""
    if isinstance(node, ast.List):
        return [([step_value(el, env) for el in node.elts], ('const', 1))] if node.elts else []
    if isinstance(node, ast.Name):
        v = env.get(node.id)
        if not (isinstance(v, tuple) and v and v[0] == 'list'):
            raise Unsupported(f'{node.id!r} is not a list of steps')
        return list(v[1])
    if isinstance(node, ast.BinOp) and isinstance(node.op, ast.Add):
        return list_expr(node.left, env, nname) + list_expr(node.right, env, nname)
    if isinstance(node, ast.BinOp) and isinstance(node.op, ast.Mult):
        for lst, cnt in ((node.left, node.right), (node.right, node.left)):
            try:
                segs = list_expr(lst, env, nname)
            except Unsupported:
                continue
            rep = count_expr(cnt, nname)
            if len(segs) == 0:
                return []
            if len(segs) != 1 or segs[0][1] != ('const', 1):
                raise Unsupported('repetition of a list that is itself repeated/concatenated: ' + ast.unparse(node))
            return [(segs[0][0], rep)]
        raise Unsupported('list repetition ' + ast.unparse(node))
    raise Unsupported('list expression ' + ast.unparse(node))


def translate_decomposition(src, fn):
    args = [a.arg for a in fn.args.args]
    if len(args) != 2 or args[0] != 'order':
        raise Unsupported(f'suzuki_trotter_decomposition signature {args}')
    nname = args[1]
    body = strip_doc(fn.body)
    genv = {}
    zero_guard = False
    i = 0
    while i < len(body) and not (isinstance(body[i], ast.If) and _is_order_test(body[i].test)):
        st = body[i]
        if (isinstance(st, ast.Assign) and len(st.targets) == 1 and isinstance(st.targets[0], ast.Tuple)
                and isinstance(st.value, ast.Tuple) and len(st.targets[0].elts) == len(st.value.elts)):
            for t, v in zip(st.targets[0].elts, st.value.elts):
                if not (isinstance(t, ast.Name) and isinstance(v, ast.Constant) and v.value in (0, 1)
                        and not isinstance(v.value, bool)):
                    raise Unsupported('parity definition ' + ast.unparse(st))
                genv[t.id] = ('parity', v.value)
        elif (isinstance(st, ast.Assign) and len(st.targets) == 1 and isinstance(st.targets[0], ast.Name)
              and isinstance(st.value, ast.Constant) and st.value.value in (0, 1)):
            genv[st.targets[0].id] = ('parity', st.value.value)
        elif (isinstance(st, ast.If) and not st.orelse and len(st.body) == 1 and isinstance(st.body[0], ast.Return)
              and isinstance(st.body[0].value, ast.List) and not st.body[0].value.elts
              and isinstance(st.test, ast.Compare) and len(st.test.ops) == 1 and isinstance(st.test.ops[0], ast.Eq)
              and isinstance(st.test.left, ast.Name) and st.test.left.id == nname
              and isinstance(st.test.comparators[0], ast.Constant) and st.test.comparators[0].value == 0
              and not isinstance(st.test.comparators[0].value, bool)):
            zero_guard = True
        else:
            raise Unsupported('statement before the order dispatch: ' + ast.unparse(st)[:80])
        i += 1
    # parity names must mean what the engine assumes: `odd` = 1, `even` = 0
    for nm, want in (('even', 0), ('odd', 1)):
        if nm in genv and genv[nm] != ('parity', want):
            raise Unsupported(f'`{nm}` is defined as {genv[nm][1]}')
    res = {}
    for key, stmts in dispatch(body[i:], 'order'):
        env = dict(genv)
        ret = None
        for st in stmts:
            if ret is not None:
                raise Unsupported(f'order {key!r}: statement after return')
            if isinstance(st, ast.Assign) and len(st.targets) == 1 and isinstance(st.targets[0], ast.Name):
                name = st.targets[0].id
                if isinstance(st.value, ast.Tuple):
                    env[name] = ('step', step_value(st.value, env))
                else:
                    env[name] = ('list', list_expr(st.value, env, nname))
            elif isinstance(st, ast.Return) and st.value is not None:
                ret = list_expr(st.value, env, nname)
            else:
                raise Unsupported(f'order {key!r}: unsupported statement {type(st).__name__} '
                                  f'({ast.unparse(st)[:60]})')
        if ret is None:
            raise Unsupported(f'order {key!r}: no return')
        res[key] = ret
    return zero_guard, res


def _is_order_test(test):
    try:
        order_key(test, 'order')
        return True
    except Unsupported:
        return False


# ---------------------------------------------------------------------------------------------------------------
# accumulation points of self.trunc_err


def _is_self_attr(node, attr):
    return (isinstance(node, ast.Attribute) and node.attr == attr and isinstance(node.value, ast.Name)
            and node.value.id == 'self')


def accumulates(fn):
    """Does the method body contain `self.trunc_err = self.trunc_err + <name>` (or `+=`) exactly once, as a top-level
    statement?  Any other write to self.trunc_err is an unknown shape."""
    top = 0
    for st in fn.body:
        if (isinstance(st, ast.Assign) and len(st.targets) == 1 and _is_self_attr(st.targets[0], 'trunc_err')):
            v = st.value
            if (isinstance(v, ast.BinOp) and isinstance(v.op, ast.Add) and isinstance(v.right, ast.Name)
                    and _is_self_attr(v.left, 'trunc_err')) or \
               (isinstance(v, ast.BinOp) and isinstance(v.op, ast.Add) and isinstance(v.left, ast.Name)
                    and _is_self_attr(v.right, 'trunc_err')):
                top += 1
            else:
                raise Unsupported(f'{fn.name}: assignment to self.trunc_err of unknown shape: {ast.unparse(st)}')
        elif isinstance(st, ast.AugAssign) and _is_self_attr(st.target, 'trunc_err'):
            if isinstance(st.op, ast.Add) and isinstance(st.value, ast.Name):
                top += 1
            else:
                raise Unsupported(f'{fn.name}: augmented assignment to self.trunc_err of unknown shape')
    total = 0
    for n in ast.walk(fn):
        if isinstance(n, (ast.Assign, ast.AugAssign, ast.AnnAssign)):
            tg = n.targets if isinstance(n, ast.Assign) else [n.target]
            total += sum(1 for t in tg if _is_self_attr(t, 'trunc_err'))
    if total != top:
        raise Unsupported(f'{fn.name}: self.trunc_err is written inside a nested block')
    if top > 1:
        raise Unsupported(f'{fn.name}: self.trunc_err is accumulated {top} times')
    return top == 1


def find_method(tree, cls, meth):
    for n in tree.body:
        if isinstance(n, ast.ClassDef) and n.name == cls:
            for m in n.body:
                if isinstance(m, ast.FunctionDef) and m.name == meth:
                    return m
            return None
    raise Unsupported(f'class {cls} not found')


ACC_POINTS = [
    # (field of Variant, file, class, method)
    ('baseEvolveAdds', 'tenpy/algorithms/algorithm.py', 'TimeEvolutionAlgorithm', 'evolve'),
    ('tdvpEvolveAdds', 'tenpy/algorithms/tdvp.py', 'TDVPEngine', 'evolve'),
    ('tebdEvolveAdds', 'tenpy/algorithms/tebd.py', 'TEBDEngine', 'evolve'),
    ('runEvolutionAdds', 'tenpy/algorithms/algorithm.py', 'TimeEvolutionAlgorithm', 'run_evolution'),
    ('tdRunEvolutionAdds', 'tenpy/algorithms/algorithm.py', 'TimeDependentHAlgorithm', 'run_evolution'),
]


# ---------------------------------------------------------------------------------------------------------------


def lean_ident(key):
    return re.sub(r'[^0-9A-Za-z]', '', str(key))


def lean_str(s):
    return '"' + s.replace('\\', '\\\\').replace('"', '\\"').replace('\n', ' ') + '"'


def lean_seg(steps, rep):
    st = ', '.join(f'({j}, {k})' for j, k in steps)
    return f'⟨[{st}], .{rep[0]} {rep[1]}⟩'


def generate(repo):
    """-> (lean text, problems, meta)"""
    repo = Path(repo)
    problems = []
    syms = Sym()
    ts, dec, zero_guard = {}, {}, False
    try:
        src = (repo / 'tenpy/algorithms/tebd.py').read_text()
        tree = ast.parse(src)
        f_ts = find_method(tree, 'TEBDEngine', 'suzuki_trotter_time_steps')
        f_dec = find_method(tree, 'TEBDEngine', 'suzuki_trotter_decomposition')
        if f_ts is None or f_dec is None:
            raise Unsupported('suzuki_trotter_time_steps / suzuki_trotter_decomposition not found in TEBDEngine')
        try:
            ts = translate_time_steps(src, f_ts, syms)
        except Unsupported as e:
            problems.append(f'table suzuki_trotter_time_steps: {e}')
        try:
            zero_guard, dec = translate_decomposition(src, f_dec)
        except Unsupported as e:
            problems.append(f'table suzuki_trotter_decomposition: {e}')
    except (OSError, SyntaxError, Unsupported) as e:
        problems.append(f'tebd.py: {e}')
    if ts and dec and list(map(repr, ts)) != list(map(repr, dec)):
        problems.append(f'orders of time_steps {list(ts)} and decomposition {list(dec)} differ')
    orders = [k for k in ts if k in dec]

    variant = {}
    trees = {}
    for field, fname, cls, meth in ACC_POINTS:
        try:
            if fname not in trees:
                trees[fname] = ast.parse((repo / fname).read_text())
            fn = find_method(trees[fname], cls, meth)
            if fn is None:
                raise Unsupported(f'{cls}.{meth} not found')
            variant[field] = accumulates(fn)
        except (OSError, SyntaxError, Unsupported) as e:
            problems.append(f'accumulation point {cls}.{meth}: {e}')
            variant[field] = None

    out = []
    out.append('/- AUTOGENERATED by tools/gen_C14.py from tenpy/algorithms/{tebd,tdvp,algorithm}.py of the tree under test.')
    out.append('   Regenerated on every run of `./check C14`; do not edit. -/')
    out.append('import TenpyModel.C14.Accounting')
    out.append('namespace TenpyModel.Gen.C14')
    out.append('open TenpyModel.C14 TenpyModel.C14.CExpr')
    out.append('')
    out.append('/-- source text of the opaque (irrational) sub-expressions: `sym i` stands for `symbolSources[i]` -/')
    out.append('def symbolSources : List String := [' + ', '.join(lean_str(t) for t in syms.texts) + ']')
    out.append('')
    out.append('/-- `if N_steps == 0: return []` in front of the order dispatch -/')
    out.append(f'def zeroGuard : Bool := {"true" if zero_guard else "false"}')
    out.append('')
    names = []
    for key in orders:
        ident = lean_ident(key)
        names.append(ident)
        out.append(f'/-- `suzuki_trotter_time_steps({key!r})` -/')
        out.append(f'def timeSteps_{ident} : List CExpr := [')
        out.append(',\n'.join('  ' + lean_cexpr(e)[1:-1] if lean_cexpr(e).startswith('(') else '  ' + lean_cexpr(e)
                              for e in ts[key]))
        out.append(']')
        out.append(f'/-- `suzuki_trotter_decomposition({key!r}, N_steps)` -/')
        out.append(f'def segs_{ident} : List Seg := [')
        out.append(',\n'.join('  ' + lean_seg(st, rep) for st, rep in dec[key]))
        out.append(']')
        out.append(f'def table_{ident} : OrderTable := ⟨{lean_str(str(key))}, timeSteps_{ident}, zeroGuard, segs_{ident}⟩')
        out.append('')
    out.append('/-- all orders the two methods know -/')
    out.append('def tables : List OrderTable := [' + ', '.join('table_' + n for n in names) + ']')
    out.append('')
    out.append('/-- which methods contain `self.trunc_err = self.trunc_err + trunc_err` -/')
    out.append('def variant : Variant := {')
    for field, _f, cls, meth in ACC_POINTS:
        v = variant.get(field)
        # an untranslatable accumulation point is written as `false` *and* reported as a problem
        out.append(f'  {field} := {"true" if v else "false"}   -- {cls}.{meth}')
    out.append('}')
    out.append('')
    out.append('end TenpyModel.Gen.C14')
    text = '\n'.join(out) + '\n'
    meta = dict(orders=[str(k) for k in orders], order_keys=orders, idents=names, symbols=syms.texts,
                symbol_values=syms.values, zero_guard=zero_guard, variant=variant,
                n_time_steps={str(k): len(ts[k]) for k in orders})
    return text, problems, meta


def regenerate(repo, lean_dir):
    """Rewrite the Gen file if (and only if) its content changed.  -> (problems, meta)"""
    text, problems, meta = generate(repo)
    path = Path(lean_dir) / GEN_REL
    path.parent.mkdir(parents=True, exist_ok=True)
    old = path.read_text() if path.exists() else None
    if old != text:
        path.write_text(text)
        meta['rewritten'] = True
    else:
        meta['rewritten'] = False
    return problems, meta


if __name__ == '__main__':
    repo = sys.argv[1] if len(sys.argv) > 1 else '/repo'
    here = Path(__file__).resolve().parent.parent
    probs, meta = regenerate(repo, here / 'lean')
    print(json.dumps({k: v for k, v in meta.items() if k != 'order_keys'}, indent=1, default=str))
    for p in probs:
        print('PROBLEM:', p)
