#!/venv/bin/python
"""Move known-finding entries whose repair has been committed to /repo (pending_fixes/applied/INDEX.json) from 'findings' to 'fixed'."""
import json, re, glob
from pathlib import Path
ROOT = Path(__file__).resolve().parent.parent
H = json.loads((ROOT / 'pending_fixes/applied/INDEX.json').read_text())
for f in sorted(glob.glob(str(ROOT / 'known_findings/C*.json'))):
    d = json.load(open(f)); prop = Path(f).name[:3]; fixed = d.setdefault('fixed', []); keep = []; ch = False
    for e in d.get('findings', []):
        m = [x for x in re.findall(r'pending_fixes/([\w.-]+)\.diff', json.dumps(e)) if x in H]
        if m and e.get('status', 'open') == 'open':
            fixed.append(f"fixed: property={prop} {H[m[0]]} {e['what']} (signature {e['signature']})"); ch = True
        else:
            keep.append(e)
    d['findings'] = keep
    pf = d.pop('pending_fixes', None)
    if isinstance(pf, list):
        for l in pf:
            t = l if isinstance(l, str) else json.dumps(l)
            m = re.search(r'pending_fixes/([\w.-]+)\.diff', t); h = H.get(m.group(1), '?') if m else '?'
            what = l if isinstance(l, str) else l.get('what', t)
            fixed.append(f"fixed: property={prop} {h} " + re.sub(r'pending_fixes/[\w.-]+\.diff:?\s*', '', what)); ch = True
    fixed[:] = [x if isinstance(x, str) else ('fixed: property=%s ' % prop + json.dumps(x)) for x in fixed]
    new = [re.sub(r'pending_fixes/([\w.-]+)\.diff', lambda mm: H.get(mm.group(1), mm.group(0)), re.sub(r'^pending[^:]*:', 'fixed:', x)) for x in fixed]
    if new != fixed or ch:
        d['fixed'] = new; json.dump(d, open(f, 'w'), indent=1); print(Path(f).name, len(keep), 'open,', len(new), 'fixed')
