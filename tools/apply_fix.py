#!/venv/bin/python
"""tools/apply_fix.py <diff-name> "<title>"  — apply a reviewed pending fix to /repo as one `fix:` commit,
record the commit hash in known_findings/*.json and move the diff to pending_fixes/applied/."""
import json, re, subprocess, sys, textwrap
from pathlib import Path
ROOT = Path(__file__).resolve().parent.parent
name, title = sys.argv[1], sys.argv[2]
diff = ROOT / 'pending_fixes' / name
body = ''
for kf in sorted((ROOT / 'known_findings').glob('*.json')):
    for line in json.loads(kf.read_text()).get('fixed', []):
        if name in line:
            body = re.sub(r'^(pending|fixed)[^:]*:\s*', '', line)
            body = body.replace(f'pending_fixes/{name}', '').strip()
r = subprocess.run(['git', '-C', '/repo', 'apply', '--check', str(diff)], capture_output=True, text=True)
if r.returncode:
    print('DOES NOT APPLY:', name, r.stderr[:500]); sys.exit(1)
subprocess.run(['git', '-C', '/repo', 'apply', str(diff)], check=True)
msg = f'fix: {title}\n\n' + '\n'.join(textwrap.wrap(body, 92))
subprocess.run(['git', '-C', '/repo', '-c', 'user.name=builder', '-c', 'user.email=builder@example.com', 'commit', '-qam', msg], check=True)
h = subprocess.run(['git', '-C', '/repo', 'rev-parse', '--short', 'HEAD'], capture_output=True, text=True).stdout.strip()
for kf in sorted((ROOT / 'known_findings').glob('*.json')):
    s = kf.read_text()
    if name in s:
        d = json.loads(s)
        d['fixed'] = [(re.sub(r'^(pending|fixed)[^:]*:', 'fixed:', l).replace(f'pending_fixes/{name}', f'{h}') if name in l else l)
                      for l in d.get('fixed', [])]
        kf.write_text(json.dumps(d, indent=1))
(ROOT / 'pending_fixes' / 'applied').mkdir(exist_ok=True)
idx = ROOT / 'pending_fixes' / 'applied' / 'INDEX.json'
I = json.loads(idx.read_text()) if idx.exists() else {}
I[name[:-5]] = h
idx.write_text(json.dumps(I, indent=1))
diff.rename(ROOT / 'pending_fixes' / 'applied' / name)
print(h, title)
