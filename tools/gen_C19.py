#!/venv/bin/python
"""Translator for C19: regenerates lean/TenpyModel/Gen/C19Pairs.lean from the AST of tenpy/models/lattice.py.

For Chain, Ladder, Square, Triangular, Honeycomb, Kagome it extracts from `__init__`
  * `basis`, unit-cell positions (closed arithmetic over Q(sqrt 3): numbers, + - * /, np.sqrt(3), 3**0.5,
    np.array displays, scalar*vector, vector/scalar, -vector, subscripts),
  * the `pairs` tables `kwargs['pairs'].setdefault(key, <list of (u1, u2, np.array([...]))>)`,
and writes them as integer data `(a + b*sqrt3)/den`.  Only the AST shapes listed here are accepted; anything else is
reported as a problem (never a silent fallback to a stale table).

usage: gen_C19.py [--repo /repo] [--out path] [--check]   (exit 1 and a list of problems if the source is not understood)
"""
import argparse
import ast
import math
import sys
from fractions import Fraction
from pathlib import Path

ROOT = Path(__file__).resolve().parent.parent
CLASSES = {'Chain': 1, 'Ladder': 1, 'Square': 2, 'Triangular': 2, 'Honeycomb': 2, 'Kagome': 2}
LU = {'Chain': 1, 'Ladder': 2, 'Square': 1, 'Triangular': 1, 'Honeycomb': 2, 'Kagome': 3}


class Q3:
    """a + b*sqrt(3), a, b rational"""

    def __init__(self, a=0, b=0):
        self.a, self.b = Fraction(a), Fraction(b)

    def __add__(self, o):
        o = q3(o)
        return Q3(self.a + o.a, self.b + o.b)

    def __sub__(self, o):
        o = q3(o)
        return Q3(self.a - o.a, self.b - o.b)

    def __neg__(self):
        return Q3(-self.a, -self.b)

    def __mul__(self, o):
        o = q3(o)
        return Q3(self.a * o.a + 3 * self.b * o.b, self.a * o.b + self.b * o.a)

    def inv(self):
        n = self.a * self.a - 3 * self.b * self.b
        if n == 0:
            raise Untranslatable('division by zero')
        return Q3(self.a / n, -self.b / n)

    def __truediv__(self, o):
        return self * q3(o).inv()

    def __eq__(self, o):
        o = q3(o)
        return self.a == o.a and self.b == o.b


def q3(x):
    return x if isinstance(x, Q3) else Q3(x)


class Untranslatable(Exception):
    pass


def num(v):
    if isinstance(v, bool) or not isinstance(v, (int, float)):
        raise Untranslatable(f'constant {v!r}')
    return Q3(Fraction(v))  # floats like 0.5 are exact binary fractions


def is_np_call(node, name):
    return (isinstance(node, ast.Call) and isinstance(node.func, ast.Attribute) and node.func.attr == name
            and isinstance(node.func.value, ast.Name) and node.func.value.id == 'np')


def ev(node, env):
    """value = Q3 scalar | list (vector / matrix, nested)"""
    if isinstance(node, ast.Constant):
        return num(node.value)
    if isinstance(node, ast.Name):
        if node.id not in env:
            raise Untranslatable(f'unknown name {node.id}')
        return env[node.id]
    if isinstance(node, (ast.List, ast.Tuple)):
        return [ev(e, env) for e in node.elts]
    if is_np_call(node, 'array') and len(node.args) == 1 and not node.keywords:
        return ev(node.args[0], env)
    if is_np_call(node, 'sqrt') and len(node.args) == 1:
        v = ev(node.args[0], env)
        if isinstance(v, Q3) and v == Q3(3):
            return Q3(0, 1)
        raise Untranslatable('np.sqrt of something else than 3')
    if isinstance(node, ast.UnaryOp) and isinstance(node.op, ast.USub):
        return vmap(lambda x: -x, ev(node.operand, env))
    if isinstance(node, ast.BinOp):
        l, r = ev(node.left, env), ev(node.right, env)
        if isinstance(node.op, ast.Pow):
            if isinstance(l, Q3) and isinstance(r, Q3) and l == Q3(3) and r == Q3(Fraction(1, 2)):
                return Q3(0, 1)
            raise Untranslatable('power other than 3**0.5')
        op = {ast.Add: lambda a, b: a + b, ast.Sub: lambda a, b: a - b, ast.Mult: lambda a, b: a * b,
              ast.Div: lambda a, b: a / b}.get(type(node.op))
        if op is None:
            raise Untranslatable(f'operator {type(node.op).__name__}')
        if isinstance(l, Q3) and isinstance(r, Q3):
            return op(l, r)
        if isinstance(l, list) and isinstance(r, Q3) and isinstance(node.op, (ast.Mult, ast.Div)):
            return vmap(lambda x: op(x, r), l)
        if isinstance(l, Q3) and isinstance(r, list) and isinstance(node.op, ast.Mult):
            return vmap(lambda x: op(l, x), r)
        if isinstance(l, list) and isinstance(r, list) and isinstance(node.op, (ast.Add, ast.Sub)):
            return vzip(op, l, r)
        raise Untranslatable('array arithmetic shape')
    if isinstance(node, ast.Subscript) and isinstance(node.slice, ast.Constant) and isinstance(node.slice.value, int):
        v = ev(node.value, env)
        if not isinstance(v, list):
            raise Untranslatable('subscript of scalar')
        return v[node.slice.value]
    raise Untranslatable(f'expression {ast.dump(node)[:80]}')


def vmap(f, v):
    return [vmap(f, x) for x in v] if isinstance(v, list) else f(v)


def vzip(f, a, b):
    if isinstance(a, list) != isinstance(b, list) or (isinstance(a, list) and len(a) != len(b)):
        raise Untranslatable('shape mismatch')
    return [vzip(f, x, y) for x, y in zip(a, b)] if isinstance(a, list) else f(a, b)


def pair_list(node, env):
    """list display of (u1, u2, np.array([ints])) -> [(u1, u2, [ints])]"""
    if isinstance(node, ast.Name):
        v = env.get(node.id)
        if not (isinstance(v, tuple) and v and v[0] == 'pairs'):
            raise Untranslatable(f'{node.id} is not a pair list')
        return v[1]
    if not isinstance(node, ast.List):
        raise Untranslatable('pair list display expected')
    out = []
    for e in node.elts:
        if not (isinstance(e, ast.Tuple) and len(e.elts) == 3):
            raise Untranslatable('pair tuple expected')
        u1, u2, dx = e.elts
        vals = []
        for x in (u1, u2):
            if not (isinstance(x, ast.Constant) and isinstance(x.value, int)):
                raise Untranslatable('u1/u2 literal expected')
            vals.append(x.value)
        d = ev(dx, {})
        if not (isinstance(d, list) and all(isinstance(x, Q3) and x.b == 0 and x.a.denominator == 1 for x in d)):
            raise Untranslatable('integer dx expected')
        out.append((vals[0], vals[1], [int(x.a) for x in d]))
    return out


def is_pairs_setdefault(call):
    """kwargs['pairs'].setdefault(key, value)"""
    f = call.func
    return (isinstance(f, ast.Attribute) and f.attr == 'setdefault' and isinstance(f.value, ast.Subscript)
            and isinstance(f.value.value, ast.Name) and f.value.value.id == 'kwargs'
            and isinstance(f.value.slice, ast.Constant) and f.value.slice.value == 'pairs')


def is_kwargs_setdefault(call):
    f = call.func
    return (isinstance(f, ast.Attribute) and f.attr == 'setdefault' and isinstance(f.value, ast.Name)
            and f.value.id == 'kwargs')


def translate_class(cdef, dim):
    init = next((n for n in cdef.body if isinstance(n, ast.FunctionDef) and n.name == '__init__'), None)
    if init is None:
        raise Untranslatable('no __init__')
    env, pairs, basis, pos = {}, [], None, None
    for st in init.body:
        if isinstance(st, ast.Expr) and isinstance(st.value, ast.Constant):
            continue  # docstring
        if isinstance(st, ast.Assign) and len(st.targets) == 1 and isinstance(st.targets[0], ast.Name):
            name = st.targets[0].id
            if isinstance(st.value, ast.Call) and isinstance(st.value.func, ast.Name) \
                    and st.value.func.id == '_parse_sites':
                continue
            if isinstance(st.value, ast.List) and st.value.elts and isinstance(st.value.elts[0], ast.Tuple) \
                    and len(st.value.elts[0].elts) == 3 and is_np_call(st.value.elts[0].elts[2], 'array'):
                env[name] = ('pairs', pair_list(st.value, env))
            else:
                env[name] = ev(st.value, env)
            continue
        if isinstance(st, ast.Expr) and isinstance(st.value, ast.Call):
            call = st.value
            if is_pairs_setdefault(call):
                key, val = call.args
                if not (isinstance(key, ast.Constant) and isinstance(key.value, str)):
                    raise Untranslatable('pairs key')
                pairs.append((key.value, pair_list(val, env)))
                continue
            if is_kwargs_setdefault(call):
                key, val = call.args
                if key.value == 'pairs':
                    continue
                if key.value == 'basis':
                    basis = ev(val, env)
                    continue
                if key.value == 'positions':
                    pos = ev(val, env)
                    continue
                raise Untranslatable(f'kwargs.setdefault({key.value!r})')
            f = call.func
            if isinstance(f, ast.Attribute) and f.attr == '__init__':
                continue  # SimpleLattice.__init__ / Lattice.__init__
        if isinstance(st, ast.Assign) and len(st.targets) == 1 and isinstance(st.targets[0], ast.Attribute) \
                and isinstance(st.targets[0].value, ast.Name) and st.targets[0].value.id == 'self' \
                and st.targets[0].attr in ('_reciprocal_basis', '_BZ'):
            continue  # plotting helpers of Ladder
        raise Untranslatable(f'statement at line {st.lineno}: {ast.dump(st)[:100]}')
    lu = LU[cdef.name]
    if basis is None:  # Lattice default: np.eye(dim)
        basis = [[Q3(1 if i == j else 0) for j in range(dim)] for i in range(dim)]
    Dim = len(basis[0])
    if pos is None:  # Lattice default: zeros((Lu, dim))
        pos = [[Q3(0)] * Dim for _ in range(lu)]
    if len(basis) != dim or len(pos) != lu or any(len(r) != Dim for r in list(basis) + list(pos)):
        raise Untranslatable('basis / positions shape')
    return dict(name=cdef.name, dim=dim, basis=basis, pos=pos, pairs=pairs)


def lean_int(i):
    return f'({i})' if i < 0 else str(i)


def emit(tables, digest):
    out = ['/- GENERATED by tools/gen_C19.py from tenpy/models/lattice.py — do not edit. -/',
           'import TenpyModel.C19.Pairs',
           'namespace TenpyModel.Gen.C19Pairs', 'open TenpyModel.C19.Pairs', '']
    for t in tables:
        dens = [x.a.denominator for r in t['basis'] + t['pos'] for x in r] + \
               [x.b.denominator for r in t['basis'] + t['pos'] for x in r]
        den = 1
        for d in dens:
            den = den * d // math.gcd(den, d)

        def z3(x):
            return f'⟨{lean_int(int(x.a * den))}, {lean_int(int(x.b * den))}⟩'

        def rows(m):
            return '[' + ', '.join('[' + ', '.join(z3(x) for x in r) + ']' for r in m) + ']'

        def plist(ps):
            return '[' + ', '.join(f'({u1}, {u2}, [{", ".join(lean_int(d) for d in dx)}])' for u1, u2, dx in ps) + ']'

        out.append(f'/-- `{t["name"]}`: entries are `(a + b√3)/{den}` -/')
        out.append(f'def {t["name"].lower()} : Table :=')
        out.append(f'  {{ dim := {t["dim"]}, den := {den},')
        out.append(f'    basis := {rows(t["basis"])},')
        out.append(f'    pos := {rows(t["pos"])},')
        out.append('    pairs := [' + ',\n      '.join(f'("{k}", {plist(v)})' for k, v in t['pairs']) + '] }')
        out.append('')
    out.append('end TenpyModel.Gen.C19Pairs')
    return '\n'.join(out) + '\n'


def generate(repo):
    """-> (lean source or None, problems)"""
    src = Path(repo) / 'tenpy' / 'models' / 'lattice.py'
    problems, tables = [], []
    try:
        tree = ast.parse(src.read_text())
    except Exception as e:  # noqa: BLE001
        return None, [f'cannot parse {src}: {e}']
    classes = {n.name: n for n in tree.body if isinstance(n, ast.ClassDef)}
    for name, dim in CLASSES.items():
        if name not in classes:
            problems.append(f'class {name} not found')
            continue
        try:
            tables.append(translate_class(classes[name], dim))
        except Untranslatable as e:
            problems.append(f'pairs/positions table of {name}: {e}')
        except Exception as e:  # noqa: BLE001
            problems.append(f'pairs/positions table of {name}: {type(e).__name__} {e}')
    if problems:
        return None, problems
    return emit(tables, ''), []


def main():
    ap = argparse.ArgumentParser()
    ap.add_argument('--repo', default='/repo')
    ap.add_argument('--out', default=str(ROOT / 'lean' / 'TenpyModel' / 'Gen' / 'C19Pairs.lean'))
    ap.add_argument('--check', action='store_true', help='do not write, only report whether the file is up to date')
    a = ap.parse_args()
    text, problems = generate(a.repo)
    if problems:
        print('\n'.join(problems))
        return 1
    out = Path(a.out)
    if a.check:
        ok = out.exists() and out.read_text() == text
        print('up to date' if ok else 'STALE')
        return 0 if ok else 1
    out.parent.mkdir(parents=True, exist_ok=True)
    if not out.exists() or out.read_text() != text:
        out.write_text(text)
        print('written', out)
    else:
        print('unchanged', out)
    return 0


if __name__ == '__main__':
    sys.exit(main())
