#!/bin/bash
# tools/try_seed.sh <seed-output-dir> <property> [tier]
# Confirms a seeded change (demo fails with it / passes without) and runs the property's check against it.
S=$1; P=$2; T=${3:-quick}
W=/tmp/try-$(basename $S)-$$
git -C /repo worktree add -q --detach $W HEAD || exit 2
trap 'git -C /repo worktree remove --force $W; git -C /repo worktree prune' EXIT
if ! git -C $W apply --check $S/patch.diff 2>/dev/null; then echo "PATCH DOES NOT APPLY to HEAD"; git -C $W apply --3way $S/patch.diff 2>&1 | tail -2 || exit 3; else git -C $W apply $S/patch.diff; fi
git -C $W diff --stat | tail -1
if grep -q "_npc_helper.pyx" $S/patch.diff; then
  SO=$(cd "$(dirname "$0")/.." && VERIF_REPO=$W /venv/bin/python -m vlib.cybuild | sed -n 's/^built: //p'); echo "fresh compiled module for the patched .pyx: $SO"; cp $SO $W/tenpy/linalg/
else cp /repo/tenpy/linalg/_npc_helper*.so $W/tenpy/linalg/ 2>/dev/null; fi
echo "--- demo on patched:"; (cd $S && PYTHONPATH=$W timeout 900 /venv/bin/python demo.py 2>&1 | tail -2; echo "exit=${PIPESTATUS[0]}")
echo "--- demo on clean:";   (cd $S && PYTHONPATH=/repo timeout 900 /venv/bin/python demo.py 2>&1 | tail -2; echo "exit=${PIPESTATUS[0]}")
rm -f $W/tenpy/linalg/_npc_helper*.so
echo "--- check $P against patched tree:"
cd "$(dirname "$0")/.."
cp evidence/$P.json /tmp/evid-$P-$$.json 2>/dev/null
git stash list >/dev/null
VERIF_REPO=$W ./check $P --tier $T 2>&1 | grep -E "^\[|VIOLATION|KNOWN|problem" | cut -c1-300
# evidence and regenerated Lean tables must describe /repo, not the trial tree
cp /tmp/evid-$P-$$.json evidence/$P.json 2>/dev/null; rm -f /tmp/evid-$P-$$.json
git checkout -- lean/TenpyModel/Gen 2>/dev/null
