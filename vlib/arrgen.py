"""Pure-data generators for block-sparse tensors (no tenpy import: usable in the parent process).

Builds on npcgen (charge structures and legs). A *tensor description* (see vlib/arrio.py) is produced from plain
legs; pipes arise through `combine_legs` steps of a program. All random choices come from the `random.Random`
passed in.
"""
import itertools

from . import npcgen

DTYPES = ['int64', 'float64', 'complex128', 'float32', 'complex64']
LABEL_POOL = ['a', 'b', 'c', 'd', 'p', 'q', 'vL', 'vR', 'a*', 'b*', 'p*', 'vL*', '(a.b)', '(p.p*)', '(a.(b.c*))', 'x1']


def conj_leg(leg):
    return dict(leg, qconj=-leg['qconj'])


def block_charge(mods, legs, q):
    tot = [0] * len(mods)
    for l, qi in zip(legs, q):
        for k, c in enumerate(l['charges'][qi]):
            tot[k] += l['qconj'] * c
    return npcgen.valid(mods, tot)


def all_blocks(legs):
    """All block-index tuples in lexsorted order (first leg fastest), as `Array._iter_all_blocks`."""
    ranges = [range(len(l['charges'])) for l in reversed(legs)]
    for t in itertools.product(*ranges):
        yield list(reversed(t))


def block_shape(legs, q):
    return [l['slices'][qi + 1] - l['slices'][qi] for l, qi in zip(legs, q)]


def size_of(shape):
    n = 1
    for s in shape:
        n *= s
    return n


def gen_value(rng, cplx, lo=-3, hi=3):
    if cplx:
        re, im = rng.randint(lo, hi), rng.randint(lo, hi)
        return re if im == 0 else [re, im]
    return rng.randint(lo, hi)


def gen_labels(rng, rank, pool=None, p_none=0.25, prefer=None):
    """Unique labels (or None) for `rank` legs; `prefer` = labels of another tensor to provoke collisions."""
    pool = list(pool or LABEL_POOL)
    out = []
    for _ in range(rank):
        r = rng.random()
        if r < p_none:
            out.append(None)
            continue
        cand = [l for l in (prefer if (prefer and rng.random() < 0.5) else pool) if l is not None and l not in out]
        out.append(rng.choice(cand) if cand else None)
    return out


def gen_tensor(rng, mods, legs, dtype=None, labels=None, p_store=0.7, p_zero=0.05, qtotal=None, shuffle=None):
    """Tensor description over the given plain leg descriptions."""
    dtype = dtype or rng.choice(DTYPES)
    cplx = dtype.startswith('complex')
    if p_store == 0.7:      # default: vary the filling between tensors (sparse ... all admissible blocks stored)
        p_store = rng.choice([0.4, 0.7, 0.7, 0.7, 1.0])
    blocks_all = list(all_blocks(legs))
    if qtotal is None:
        reach = []
        for q in blocks_all:
            c = block_charge(mods, legs, q)
            if c not in reach:
                reach.append(c)
        if reach and rng.random() < 0.9:
            qtotal = rng.choice(reach)
        else:
            qtotal = npcgen.gen_charge(rng, mods)
    adm = [q for q in blocks_all if block_charge(mods, legs, q) == qtotal]
    blocks = []
    n_missing = 0
    for q in adm:
        if rng.random() >= p_store:
            n_missing += 1
            continue
        n = size_of(block_shape(legs, q))
        if rng.random() < p_zero:
            vals = [0] * n
        else:
            vals = [gen_value(rng, cplx) for _ in range(n)]
        blocks.append(dict(q=q, vals=vals))
    shuffle = (rng.random() < 0.3) if shuffle is None else shuffle
    if shuffle:
        rng.shuffle(blocks)
    srt = None if rng.random() < 0.7 else False
    return dict(legs=[dict(l) for l in legs], qtotal=list(qtotal), labels=labels, dtype=dtype, blocks=blocks,
                sorted=srt, _stats=dict(admissible=len(adm), missing=n_missing))


def gen_leg_pool(rng, mods, n=4, max_blocks=4, max_size=3, p_zero_block=None):
    """Pool of plain legs; `p_zero_block` = probability that a leg gets one block of size 0 (default 0.05, or the
    environment variable VERIF_P_ZERO_BLOCK for stress runs)."""
    import os
    if p_zero_block is None:
        p_zero_block = float(os.environ.get('VERIF_P_ZERO_BLOCK', '0.05'))
    pool = []
    for _ in range(n):
        leg = npcgen.gen_leg(rng, mods, max_blocks=max_blocks, max_size=max_size, allow_empty=rng.random() < 0.25)
        if len(leg['charges']) >= 2 and rng.random() < p_zero_block:
            k = rng.randrange(len(leg['charges']))
            sizes = [b - a for a, b in zip(leg['slices'][:-1], leg['slices'][1:])]
            sizes[k] = 0
            sl = [0]
            for s_ in sizes:
                sl.append(sl[-1] + s_)
            leg['slices'] = sl
        pool.append(leg)
    return pool


def pick_legs(rng, pool, rank, max_total=400, partner=None):
    """Choose `rank` legs from the pool (or conjugates; with `partner` legs preferred conjugated so that
    contractions are possible) keeping the dense size bounded."""
    legs = []
    total = 1
    for _ in range(rank):
        for _try in range(6):
            if partner and rng.random() < 0.6:
                l = conj_leg(rng.choice(partner))
            else:
                l = rng.choice(pool)
                if rng.random() < 0.4:
                    l = conj_leg(l)
            n = max(1, npcgen.leg_len(l))
            if total * n <= max_total:
                legs.append(dict(l))
                total *= n
                break
    if not legs:
        legs = [dict(rng.choice(pool))]
    return legs


def leg_stats(leg):
    """('unsorted'|'sorted', 'dup'|'nodup', 'empty'|'nonempty') classification of a plain leg description."""
    ch = [tuple(reversed(c)) for c in leg['charges']]
    sizes = [b - a for a, b in zip(leg['slices'][:-1], leg['slices'][1:])]
    return dict(unsorted=ch != sorted(ch), dup=len(set(ch)) != len(ch),
                empty=(len(ch) == 0 or any(s == 0 for s in sizes)))
