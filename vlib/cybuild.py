"""Fresh build of tenpy's compiled kernels from the *current* .pyx of the tree under test.

The in-tree prebuilt .so is never used by the checks: an edit of `_npc_helper.pyx` must be seen.
The built module is cached under <verif>/.cache/cy/<sha256 of pyx+pxd+setup.py>/ (re-creatable), the
build itself happens in a scratch copy outside /repo and /verif which is removed afterwards.

overlay(config) creates a scratch package tree (copy of <repo>/tenpy python files + the fresh .so) for the
'cy' configuration; the 'py' configuration uses the tree under test directly with TENPY_NO_CYTHON=1.
"""
import hashlib
import os
import shutil
import subprocess
import sys
import tempfile
from pathlib import Path

from . import core

PY = '/venv/bin/python'


def source_hash(repo=None):
    repo = Path(repo or core.REPO)
    h = hashlib.sha256()
    for rel in ['tenpy/linalg/_npc_helper.pyx', 'tenpy/linalg/_cblas_mkl.pxd', 'setup.py']:
        f = repo / rel
        h.update(rel.encode())
        h.update(f.read_bytes() if f.exists() else b'<missing>')
    return h.hexdigest()[:20]


def built_so(repo=None, build=True):
    """Path of the fresh compiled module for the current sources (building it if needed), or None."""
    repo = Path(repo or core.REPO)
    d = core.CACHE_DIR / 'cy' / source_hash(repo)
    sos = sorted(d.glob('_npc_helper*.so')) if d.exists() else []
    if sos:
        return sos[0]
    if (d / 'FAILED').exists() or not build:
        return None
    d.mkdir(parents=True, exist_ok=True)
    scratch = Path(tempfile.mkdtemp(prefix='verif-cybuild-'))
    try:
        (scratch / 'tenpy' / 'linalg').mkdir(parents=True)
        for rel in ['setup.py', 'pyproject.toml', 'README.rst', 'MANIFEST.in', 'LICENSE',
                    'tenpy/linalg/_npc_helper.pyx', 'tenpy/linalg/_cblas_mkl.pxd']:
            if (repo / rel).exists():
                shutil.copy(repo / rel, scratch / rel)
        # the package's python files are needed for metadata discovery by setuptools
        for f in (repo / 'tenpy').rglob('*.py'):
            dst = scratch / f.relative_to(repo)
            dst.parent.mkdir(parents=True, exist_ok=True)
            shutil.copy(f, dst)
        env = dict(os.environ)
        env.pop('TENPY_OPTIMIZE', None)
        env['PIP_NO_INDEX'] = '1'
        p = subprocess.run([PY, 'setup.py', 'build_ext', '--inplace', '-j', '4'], cwd=scratch, env=env,
                           capture_output=True, text=True, timeout=1800)
        sos = sorted((scratch / 'tenpy' / 'linalg').glob('_npc_helper*.so'))
        if p.returncode != 0 or not sos:
            (d / 'FAILED').write_text((p.stdout + p.stderr)[-8000:])
            return None
        shutil.copy(sos[0], d / sos[0].name)
        return d / sos[0].name
    finally:
        shutil.rmtree(scratch, ignore_errors=True)


def build_log(repo=None):
    d = core.CACHE_DIR / 'cy' / source_hash(repo)
    f = d / 'FAILED'
    return f.read_text() if f.exists() else ''


class Overlay:
    """Context manager: scratch copy of <repo>/tenpy with the fresh compiled module inside."""

    def __init__(self, repo=None):
        self.repo = Path(repo or core.REPO)
        self.dir = None

    def __enter__(self):
        so = built_so(self.repo)
        if so is None:
            raise RuntimeError('compiled kernels do not build from the current sources:\n' + build_log(self.repo)[-2000:])
        self.dir = Path(tempfile.mkdtemp(prefix='verif-overlay-'))
        shutil.copytree(self.repo / 'tenpy', self.dir / 'tenpy',
                        ignore=shutil.ignore_patterns('*.so', '__pycache__', '*.cpp', '*.c'))
        shutil.copy(so, self.dir / 'tenpy' / 'linalg' / so.name)
        return self

    def env(self, extra=None):
        env = core.repo_env(extra)
        env['PYTHONPATH'] = str(self.dir) + os.pathsep + str(core.ROOT) + os.pathsep + os.environ.get('PYTHONPATH', '')
        env.pop('TENPY_NO_CYTHON', None)
        env.pop('TENPY_OPTIMIZE', None)
        return env

    def __exit__(self, *a):
        if self.dir:
            shutil.rmtree(self.dir, ignore_errors=True)


def py_env(extra=None):
    env = core.repo_env(extra)
    env['TENPY_NO_CYTHON'] = '1'
    env.pop('TENPY_OPTIMIZE', None)
    return env


if __name__ == '__main__':
    core.use_repo()
    so = built_so()
    print('built:', so)
    if so is None:
        print(build_log()[-3000:])
        sys.exit(1)
