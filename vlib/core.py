"""Shared machinery of the /verif checks.

One run of `./check Cxx` =
  regenerate (translator) -> lake build of the property's Lean modules -> axiom audit of the
  property theorems -> correspondence of the executable Lean model with /repo's code ->
  decision -> evidence file.

Nothing here hard-codes /verif: all paths are relative to this file.
"""
import hashlib
import json
import os
import random
import re
import subprocess
import sys
import time
from pathlib import Path

ROOT = Path(__file__).resolve().parent.parent
LEAN_DIR = ROOT / 'lean'
EVID_DIR = ROOT / 'evidence'
REPLAY_DIR = ROOT / 'replays'
CORPUS_DIR = ROOT / 'corpus'
CACHE_DIR = ROOT / '.cache'
REPO = Path(os.environ.get('VERIF_REPO', '/repo')).resolve()
SCHEMA_DIR = Path('/root/.vp')

ALLOWED_AXIOMS = {'propext', 'Classical.choice', 'Quot.sound'}
FORBIDDEN_RE = re.compile(
    r'\bsorry\b|\badmit\b|^\s*axiom\s|native_decide|bv_decide|implemented_by|\bunsafe\s|maxHeartbeats\s+0\b'
)


def use_repo():
    """Make `import tenpy` resolve to the checked tree (VERIF_REPO, default /repo)."""
    p = str(REPO)
    if p in sys.path:
        sys.path.remove(p)
    sys.path.insert(0, p)
    os.environ.setdefault('OMP_NUM_THREADS', '1')
    os.environ.setdefault('MKL_NUM_THREADS', '1')
    os.environ.setdefault('OPENBLAS_NUM_THREADS', '1')


def repo_env(extra=None):
    """Environment for child interpreters importing tenpy from the checked tree."""
    env = dict(os.environ)
    env['PYTHONPATH'] = str(REPO) + os.pathsep + str(ROOT) + os.pathsep + env.get('PYTHONPATH', '')
    env.setdefault('OMP_NUM_THREADS', '1')
    env.setdefault('MKL_NUM_THREADS', '1')
    env.setdefault('OPENBLAS_NUM_THREADS', '1')
    env['PYTHONWARNINGS'] = 'ignore'
    if extra:
        env.update(extra)
    return env


# --------------------------------------------------------------------------------------------
# Lean side


def _strip_comments(src):
    """Remove Lean comments (nested block comments and line comments) for the forbidden-word grep."""
    out = []
    i, n, depth = 0, len(src), 0
    while i < n:
        if src.startswith('/-', i):
            depth += 1
            i += 2
        elif depth and src.startswith('-/', i):
            depth -= 1
            i += 2
        elif depth:
            if src[i] == '\n':
                out.append('\n')
            i += 1
        elif src.startswith('--', i):
            while i < n and src[i] != '\n':
                i += 1
        elif src[i] == '"':
            j = i + 1
            while j < n and src[j] != '"':
                j += 2 if src[j] == '\\' else 1
            out.append('""')
            i = j + 1
        else:
            out.append(src[i])
            i += 1
    return ''.join(out)


def lake_build(targets, timeout=3000):
    """Build the given module targets. Returns (ok, log)."""
    cmd = ['lake', 'build'] + list(targets)
    t0 = time.time()
    try:
        p = subprocess.run(cmd, cwd=LEAN_DIR, capture_output=True, text=True, timeout=timeout)
    except subprocess.TimeoutExpired:
        return False, 'lake build timed out'
    log = (p.stdout or '') + (p.stderr or '')
    return p.returncode == 0, log + f'\n[lake build {" ".join(targets)}: {time.time() - t0:.1f}s rc={p.returncode}]'


def module_files(modules):
    return [LEAN_DIR / (m.replace('.', '/') + '.lean') for m in modules]


def transitive_modules(modules):
    """All TenpyModel.* modules reachable through `import` lines from the given modules."""
    seen, todo = [], list(modules)
    while todo:
        m = todo.pop()
        if m in seen:
            continue
        f = LEAN_DIR / (m.replace('.', '/') + '.lean')
        if not f.exists():
            continue
        seen.append(m)
        for line in f.read_text().splitlines():
            mm = re.match(r'\s*(?:public\s+)?import\s+(TenpyModel[\w.]*)', line)
            if mm:
                todo.append(mm.group(1))
    return sorted(seen)


def forbidden_scan(modules):
    hits = []
    for f in module_files(modules):
        if not f.exists():
            continue
        for ln, line in enumerate(_strip_comments(f.read_text()).splitlines(), 1):
            if FORBIDDEN_RE.search(line):
                hits.append(f'{f.relative_to(ROOT)}:{ln}: {line.strip()}')
    return hits


def theorem_names(props_modules, prefix):
    if isinstance(props_modules, str):
        props_modules = [props_modules]
    names = []
    for f in module_files(props_modules):
        if f.exists():
            for line in _strip_comments(f.read_text()).splitlines():
                m = re.match(r'\s*theorem\s+(' + re.escape(prefix) + r'_[\w\']+)', line)
                if m and m.group(1) not in names:
                    names.append(m.group(1))
    return names


def audit(props_modules, prefix):
    """`#print axioms` for every property theorem. Returns dict name -> list of axioms | None (missing)."""
    if isinstance(props_modules, str):
        props_modules = [props_modules]
    names = theorem_names(props_modules, prefix)
    adir = LEAN_DIR / '.audit'
    adir.mkdir(exist_ok=True)
    f = adir / f'{prefix}.lean'
    f.write_text(''.join(f'import {m}\n' for m in props_modules) + ''.join(f'#print axioms {n}\n' for n in names))
    p = subprocess.run(['lake', 'env', 'lean', str(f)], cwd=LEAN_DIR, capture_output=True, text=True,
                       timeout=1200)
    out = p.stdout + p.stderr
    res = {n: None for n in names}
    flat = re.sub(r'\s+', ' ', out)
    for n in names:
        m = re.search(r"'" + re.escape(n) + r"' depends on axioms: \[([^\]]*)\]", flat)
        if m:
            res[n] = [a.strip() for a in m.group(1).split(',') if a.strip()]
        elif re.search(r"'" + re.escape(n) + r"' does not depend on any axioms", flat):
            res[n] = []
    return res, out


def leanchecker(modules, timeout=3000, tries=3):
    """Independent re-check of the compiled modules. Returns (ok, output).

    ok is True (accepted), False (leanchecker rejected something: non-zero exit WITH a diagnostic) or None
    (leanchecker could not run to completion: killed by a signal / out of memory / timed out / no output at
    all - a resource problem of the machine, not a verdict; retried `tries` times with a pause)."""
    out = ''
    for attempt in range(tries):
        try:
            p = subprocess.run(['lake', 'env', 'leanchecker'] + list(modules), cwd=LEAN_DIR,
                               capture_output=True, text=True, timeout=timeout)
        except subprocess.TimeoutExpired:
            out = 'leanchecker timed out'
            continue
        out = (p.stdout + p.stderr)[-4000:]
        if p.returncode == 0:
            return True, out
        if p.returncode > 0 and p.returncode not in (137, 139, 143) and out.strip():
            return False, out
        out = f'leanchecker did not complete (rc={p.returncode}, output {out.strip()[:200]!r})'
        time.sleep(20 * (attempt + 1))
    return None, out


def run_driver(name, lines, timeout=3000):
    """Pipe JSON lines through `lake env lean --run drivers/<name>.lean`; one output line per input line."""
    payload = '\n'.join(json.dumps(l, separators=(',', ':')) if not isinstance(l, str) else l
                        for l in lines) + '\n'
    p = subprocess.run(['lake', 'env', 'lean', '--run', f'drivers/{name}.lean'], cwd=LEAN_DIR,
                       input=payload, capture_output=True, text=True, timeout=timeout)
    outs = [l for l in p.stdout.split('\n') if l != '']
    if p.returncode != 0 or len(outs) != len(lines):
        raise DriverError(f'driver {name}: rc={p.returncode} got {len(outs)} lines for {len(lines)} inputs\n'
                          + p.stderr[-3000:] + '\n' + '\n'.join(outs[-3:]))
    res = []
    for o in outs:
        try:
            res.append(json.loads(o))
        except json.JSONDecodeError:
            res.append({'_raw': o})
    return res


class DriverError(Exception):
    pass


# --------------------------------------------------------------------------------------------
# results, findings, evidence


class Failure:
    """One failing case.

    kind = 'property'        the independent oracle shows the property violated by the real code on `case`
           'correspondence'  executable model and implementation disagree on `case` (oracle ok or n/a)
    signature = stable name of *what* fails (call site + predicate), used to match known findings
    """

    def __init__(self, kind, signature, detail, case):
        self.kind, self.signature, self.detail, self.case = kind, signature, detail, case

    def to_json(self):
        return dict(kind=self.kind, signature=self.signature, detail=self.detail, case=self.case)


class Result:
    def __init__(self):
        self.evaluations = 0
        self.nontrivial = set()
        self.rule = ''
        self.samples = []
        self.failures = []
        self.traces_validated = 0
        self.extra = {}
        self.hist = {}

    def count(self, key, n=1):
        self.hist[key] = self.hist.get(key, 0) + n

    def note_case(self, case, nontrivial=True):
        self.evaluations += 1
        if nontrivial:
            self.nontrivial.add(hashlib.sha1(json.dumps(case, sort_keys=True, default=str).encode()).hexdigest())
        if len(self.samples) < 3:
            self.samples.append(case)

    def fail(self, kind, signature, detail, case):
        self.failures.append(Failure(kind, signature, detail, case))

    def merge(self, other):
        self.evaluations += other.evaluations
        self.nontrivial |= other.nontrivial
        self.samples = (self.samples + other.samples)[:6]
        self.failures += other.failures
        self.traces_validated += other.traces_validated
        for k, v in other.hist.items():
            self.count(k, v)
        self.extra.update(other.extra)


def load_known_findings():
    """known_findings/<id>.json: {"findings": [{property, signature, what, witness, status}], "fixed": [...]}.
    Committed; never written at run time."""
    out = []
    for f in sorted((ROOT / 'known_findings').glob('*.json')):
        out += json.loads(f.read_text()).get('findings', [])
    return out


def write_replay(prop, payload):
    REPLAY_DIR.mkdir(exist_ok=True)
    blob = json.dumps(payload, indent=1, sort_keys=True, default=str)
    h = hashlib.sha1(blob.encode()).hexdigest()[:10]
    path = REPLAY_DIR / f'{prop}-{h}.json'
    path.write_text(blob)
    return path


def validate_evidence(ev):
    try:
        import jsonschema
        schema = json.loads((SCHEMA_DIR / 'EVIDENCE.schema.json').read_text())
        jsonschema.validate(ev, schema)
    except ImportError:
        pass
    except FileNotFoundError:
        pass


def write_evidence(prop, ev):
    EVID_DIR.mkdir(exist_ok=True)
    validate_evidence(ev)
    (EVID_DIR / f'{prop}.json').write_text(json.dumps(ev, indent=1, sort_keys=True, default=str))


class Ctx:
    def __init__(self, prop, tier, seed, budget_s):
        self.prop, self.tier, self.seed, self.budget_s = prop, tier, seed, budget_s
        self.rng = random.Random(f'{prop}:{seed}')
        self.t0 = time.time()
        self.repo = REPO
        self.replay = None

    @property
    def quick(self):
        return self.tier == 'quick'

    def elapsed(self):
        return time.time() - self.t0

    def sub_rng(self, tag):
        return random.Random(f'{self.prop}:{self.seed}:{tag}')
