"""Worker-side helpers (import tenpy) for tensors: build real `npc.Array`s from pure-data descriptions and dump
real arrays (legs with nested pipes, block structure, flags, dense form) to JSON-able data.

Shared by the C01/C04 harness and meant for C02/C03/C05. Formats (all integers; a scalar is an int, or
``[re, im]`` when the imaginary part is non-zero):

leg description (input)   plain: npcgen leg dict {"mods","slices","charges","qconj","ctor"[,"sorted","bunched"]}
                          pipe : {"pipe": {"legs": [leg description…], "qconj": ±1, "sort": bool, "bunch": bool}}
leg dump (output)         plain: {"mods","slices","charges","qconj","sorted","bunched"}
                          pipe : the same keys for the outgoing leg + "legs" (dumps of the incoming legs, nested),
                                 "q_map","q_map_slices","perm","strides"
tensor description        {"legs": [...], "qtotal": [...]|None, "labels": [...]|None, "dtype": "float64"|…, ["names": charge names,]
                           "blocks": [{"q": [qindices], "vals": [row-major scalars]}], "sorted": bool|None}
                          blocks are stored in the given order; "sorted": None = set `_qdata_sorted` truthfully,
                          False = conservative False.
tensor dump               {"mods","legs","qtotal","labels","qdata","blocks":[{"shape","vals"}],"sorted","dense",
                           "dtype"} — blocks in *stored* order (see `canon` for the canonical order).
"""
import numpy as np

from . import npcio

DTYPES = ['int64', 'float64', 'complex128', 'float32', 'complex64']


def enc(x):
    """numpy scalar -> exact JSON scalar. Raises ValueError when the value is not a (Gaussian) integer."""
    if isinstance(x, (complex, np.complexfloating)):
        re, im = float(x.real), float(x.imag)
        if re != int(re) or im != int(im):
            raise ValueError(f'non-integer value {x!r}')
        return int(re) if im == 0 else [int(re), int(im)]
    xf = float(x)
    if xf != int(xf):
        raise ValueError(f'non-integer value {x!r}')
    return int(xf)


def enc_flat(arr):
    """ndarray -> list of exact scalars in C order."""
    a = np.asarray(arr)
    flat = a.reshape(-1)
    if a.dtype.kind == 'c':
        re, im = flat.real, flat.imag
        if np.any(re != np.round(re)) or np.any(im != np.round(im)) or not np.all(np.isfinite(re)):
            raise ValueError('non-integer complex values')
        return [int(r) if i == 0 else [int(r), int(i)] for r, i in zip(re.tolist(), im.tolist())]
    if a.dtype.kind in 'iub':
        return [int(x) for x in flat.tolist()]
    if np.any(flat != np.round(flat)) or not np.all(np.isfinite(flat)):
        raise ValueError('non-integer float values')
    return [int(x) for x in flat.tolist()]


def dec(v):
    return complex(v[0], v[1]) if isinstance(v, list) else v


def dec_flat(vals, shape, dtype):
    dt = np.dtype(dtype)
    if dt.kind == 'c':
        flat = np.array([dec(v) for v in vals], dtype=dt)
    else:
        flat = np.array([v for v in vals], dtype=dt)
    return flat.reshape(shape)


def dump_dense(arr):
    return dict(shape=[int(s) for s in np.shape(arr)], vals=enc_flat(arr))


_NAMED_CHINFO = {}
_DEFAULT_NAMES = [None]


def set_default_names(names):
    """Charge names used for every leg description that does not bring its own (and has as many charges): all legs
    built while a program runs then share one ChargeInfo, as in user code. None = unnamed."""
    _DEFAULT_NAMES[0] = list(names) if names else None


def named_chinfo(mods, names):
    """ChargeInfo with charge names (cached: legs of one tensor must share the instance or at least be equal)"""
    from tenpy.linalg.charges import ChargeInfo
    key = (tuple(mods), tuple(names))
    if key not in _NAMED_CHINFO:
        _NAMED_CHINFO[key] = ChargeInfo(list(mods), list(names))
    return _NAMED_CHINFO[key]


def make_aleg(d, names=None):
    """Real LegCharge / LegPipe from a leg description (nested). `names` (or d['names']): charge names of the
    ChargeInfo; without names the shared unnamed ChargeInfo of npcio is used."""
    names = d.get('names', names)
    if names is None and 'mods' in d and _DEFAULT_NAMES[0] is not None and len(_DEFAULT_NAMES[0]) == len(d['mods']):
        names = _DEFAULT_NAMES[0]
    if 'pipe' in d:
        from tenpy.linalg.charges import LegPipe
        p = d['pipe']
        return LegPipe([make_aleg(x, names) for x in p['legs']], qconj=p['qconj'], sort=p.get('sort', True),
                       bunch=p.get('bunch', True))
    if names and any(names):
        from tenpy.linalg.charges import LegCharge, QTYPE
        ci = named_chinfo(d['mods'], names)
        ch = np.array(d['charges'], dtype=QTYPE).reshape(len(d['charges']), len(d['mods']))
        if d.get('ctor', 'init') == 'qind':
            leg = LegCharge.from_qind(ci, d['slices'], ch, d['qconj'])
        else:
            leg = LegCharge(ci, d['slices'], ch, d['qconj'])
        if 'sorted' in d:
            leg.sorted, leg.bunched = bool(d['sorted']), bool(d['bunched'])
        return leg
    return npcio.make_leg(d)


def dump_aleg(leg):
    from tenpy.linalg.charges import LegPipe
    d = npcio.dump_leg(leg)
    if isinstance(leg, LegPipe):
        d.update(legs=[dump_aleg(l) for l in leg.legs],
                 q_map=[[int(x) for x in row] for row in leg.q_map],
                 q_map_slices=[int(x) for x in leg.q_map_slices],
                 perm=None if leg._perm is None else [int(x) for x in leg._perm],
                 strides=[int(x) for x in leg._strides])
    return d


def make_array(d, legs=None):
    """Real npc.Array from a tensor description; `legs` (real objects) may be given to share leg instances."""
    from tenpy.linalg import np_conserved as npc
    legs = legs if legs is not None else [make_aleg(l, d.get('names')) for l in d['legs']]
    dt = np.dtype(d.get('dtype', 'float64'))
    a = npc.Array(legs, dt, d.get('qtotal'), d.get('labels'))
    blocks = d.get('blocks', [])
    if blocks:
        qdata = np.array([b['q'] for b in blocks], dtype=np.intp).reshape(len(blocks), a.rank)
        data = [dec_flat(b['vals'], a._get_block_shape(q), dt) for b, q in zip(blocks, qdata)]
        a._data = data
        a._qdata = np.array(qdata, dtype=np.intp, order='C')
        srt = bool(np.all(np.lexsort(qdata.T) == np.arange(len(qdata)))) if len(qdata) else True
        a._qdata_sorted = srt if d.get('sorted') is None else (bool(d['sorted']) and srt)
    return a


def dump_array(a, with_dense=True):
    d = dict(mods=[int(m) for m in a.chinfo.mod], legs=[dump_aleg(l) for l in a.legs],
             qtotal=[int(x) for x in a.qtotal], labels=list(a._labels), names=[str(n) for n in a.chinfo.names],
             qdata=[[int(x) for x in row] for row in a._qdata],
             blocks=[dump_dense(t) for t in a._data], sorted=bool(a._qdata_sorted), dtype=str(a.dtype))
    if with_dense:
        d['dense'] = dump_dense(a.to_ndarray())
    return d


def canon(d):
    """Canonical form of a tensor dump: blocks ordered by lexsorted `qdata` rows (last column most significant,
    as np.lexsort); returns a new dict without the dtype (dtype is recorded but never part of a verdict)."""
    if d is None or 'qdata' not in d:
        return d
    order = sorted(range(len(d['qdata'])), key=lambda i: (tuple(reversed(d['qdata'][i])), i))
    out = {k: v for k, v in d.items() if k not in ('dtype',)}
    out['qdata'] = [d['qdata'][i] for i in order]
    out['blocks'] = [d['blocks'][i] for i in order]
    return out


def array_of_dump(d):
    """Rebuild a real array from a tensor dump (pipes are re-created with sort/bunch guessed from the dump:
    only for plain legs this is exact) — used for replaying operands."""
    from tenpy.linalg import np_conserved as npc

    def leg_of(ld):
        if 'legs' in ld:
            raise ValueError('array_of_dump: pipes cannot be rebuilt from a dump')
        return npcio.make_leg(dict(ld, ctor='init'))

    legs = [leg_of(l) for l in d['legs']]
    desc = dict(legs=None, qtotal=d['qtotal'], labels=d['labels'], dtype=d.get('dtype', 'float64'),
                blocks=[dict(q=q, vals=b['vals']) for q, b in zip(d['qdata'], d['blocks'])], sorted=d['sorted'])
    return make_array(desc, legs=legs)
