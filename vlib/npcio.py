"""Worker-side helpers (import tenpy): build real objects from data descriptions and dump real objects."""
import numpy as np


def chinfo_of(mods, cache={}):
    from tenpy.linalg import charges
    key = tuple(mods)
    if key not in cache:
        cache[key] = charges.ChargeInfo(list(mods))
    return cache[key]


def make_leg(d):
    from tenpy.linalg.charges import LegCharge, QTYPE
    ci = chinfo_of(d['mods'])
    ch = np.array(d['charges'], dtype=QTYPE).reshape(len(d['charges']), len(d['mods']))
    if d.get('ctor', 'init') == 'qind':
        leg = LegCharge.from_qind(ci, d['slices'], ch, d['qconj'])
    else:
        leg = LegCharge(ci, d['slices'], ch, d['qconj'])
    if 'sorted' in d:  # exact flags requested
        leg.sorted, leg.bunched = bool(d['sorted']), bool(d['bunched'])
    return leg


def dump_leg(leg):
    return dict(mods=[int(m) for m in leg.chinfo.mod], slices=[int(s) for s in leg.slices],
                charges=[[int(x) for x in row] for row in leg.charges], qconj=int(leg.qconj),
                sorted=bool(leg.sorted), bunched=bool(leg.bunched))


def dump_pipe(p):
    return dict(leg=dump_leg(p), legs=[dump_leg(l) for l in p.legs],
                q_map=[[int(x) for x in row] for row in p.q_map], q_map_slices=[int(x) for x in p.q_map_slices],
                perm=None if p._perm is None else [int(x) for x in p._perm], strides=[int(x) for x in p._strides])


def err_class(e):
    for cls, name in [(IndexError, 'IndexError'), (KeyError, 'KeyError'), (ValueError, 'ValueError'),
                      (AssertionError, 'Assertion'), (TypeError, 'TypeError')]:
        if isinstance(e, cls):
            return name
    return 'Other:' + type(e).__name__


def phys_qflat(leg):
    """charge*qconj mod, per flat index — the charge 'attached to an index' independent of representation."""
    q = leg.to_qflat() * leg.qconj
    return [[int(x) for x in row] for row in leg.chinfo.make_valid(q)]
