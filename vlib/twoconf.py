"""Run a worker module on a list of cases in child interpreters under the two kernel configurations:
  'cy' : scratch overlay of the tree under test with the compiled module freshly built from the current .pyx
  'py' : the tree under test with TENPY_NO_CYTHON=1
Cases are split into chunks run in parallel."""
import json
import os
import shutil
import subprocess
import tempfile
from concurrent.futures import ThreadPoolExecutor
from pathlib import Path

from . import core, cybuild

PY = '/venv/bin/python'


class WorkerError(Exception):
    pass


def _run_chunk(module, cases, env, tmp, tag, timeout):
    inp = Path(tmp) / f'{tag}.in.json'
    outp = Path(tmp) / f'{tag}.out.json'
    inp.write_text(json.dumps(cases))
    p = subprocess.run([PY, '-m', module, str(inp), str(outp)], cwd=core.ROOT, env=env, capture_output=True,
                       text=True, timeout=timeout)
    if p.returncode != 0 or not outp.exists():
        raise WorkerError(f'worker {module} [{tag}] rc={p.returncode}\n{p.stderr[-3000:]}')
    return json.loads(outp.read_text())


def run(module, cases, configs=('cy', 'py'), nproc=None, timeout=3000):
    """Returns {config: {'meta': ..., 'results': [...]}}; results aligned with cases."""
    nproc = nproc or min(8, max(1, len(cases) // 50 + 1))
    tmp = tempfile.mkdtemp(prefix='verif-work-')
    out = {}
    try:
        ovl = None
        envs = {}
        if 'cy' in configs:
            ovl = cybuild.Overlay()
            ovl.__enter__()
            envs['cy'] = ovl.env()
        if 'py' in configs:
            envs['py'] = cybuild.py_env()
        try:
            chunks = [cases[i::nproc] for i in range(nproc)]
            jobs = []
            with ThreadPoolExecutor(max_workers=2 * nproc) as ex:
                for cfg in configs:
                    for i, ch in enumerate(chunks):
                        jobs.append((cfg, i, ex.submit(_run_chunk, module, ch, envs[cfg], tmp, f'{cfg}{i}', timeout)))
                parts = {}
                for cfg, i, fut in jobs:
                    parts[(cfg, i)] = fut.result()
            for cfg in configs:
                res = [None] * len(cases)
                for i in range(nproc):
                    for k, r in enumerate(parts[(cfg, i)]['results']):
                        res[i + k * nproc] = r
                out[cfg] = dict(meta=parts[(cfg, 0)]['meta'], results=res)
        finally:
            if ovl is not None:
                ovl.__exit__(None, None, None)
    finally:
        shutil.rmtree(tmp, ignore_errors=True)
    if 'cy' in out and not out['cy']['meta'].get('have_cython'):
        raise WorkerError('configuration cy did not load the compiled module')
    if 'py' in out and out['py']['meta'].get('have_cython'):
        raise WorkerError('configuration py loaded the compiled module')
    return out
