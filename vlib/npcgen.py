"""Pure-data generators for charge structures, legs and tensors (no tenpy import: usable in the parent process).

Every choice comes from the `random.Random` passed in. A leg description is
  {"mods": [...], "slices": [...], "charges": [[...]], "qconj": ±1, "ctor": "init"|"qind"}
("init": LegCharge(...) leaves sorted/bunched False unless ≤1 block; "qind": from_qind computes the flags).
"""


def gen_mods(rng, max_q=3):
    nq = rng.choices([0, 1, 2, 3], weights=[1, 4, 3, 1])[0]
    nq = min(nq, max_q)
    return [rng.choice([1, 1, 1, 2, 3, 4, 5]) for _ in range(nq)]


def valid(mods, c):
    return [x if m == 1 else x % m for m, x in zip(mods, c)]


def gen_charge(rng, mods, window=(-2, 3)):
    return valid(mods, [rng.randint(*window) for _ in mods])


def lexkey(c):
    return tuple(reversed(c))


def gen_leg(rng, mods, max_blocks=4, max_size=3, allow_empty=True, qconj=None, mode=None):
    nb = rng.choices([0, 1, 2, 3, 4, 5], weights=[1 if allow_empty else 0, 4, 6, 6, 3, 1])[0]
    nb = min(nb, max_blocks)
    sizes = [rng.choice([1, 1, 2, 2, 3][:max(1, min(5, max_size + 2))]) for _ in range(nb)]
    sizes = [min(s, max_size) for s in sizes]
    if allow_empty and nb > 0 and rng.random() < 0.04:
        sizes[rng.randrange(nb)] = 0
    mode = mode or rng.choice(['blocked', 'sorted_dup', 'arbitrary', 'arbitrary'])
    pool = [gen_charge(rng, mods) for _ in range(max(1, nb))]
    if mode == 'blocked':
        uniq = []
        for c in pool:
            if c not in uniq:
                uniq.append(c)
        uniq.sort(key=lexkey)
        charges = uniq[:nb]
        sizes = sizes[:len(charges)]
    elif mode == 'sorted_dup':
        charges = sorted([rng.choice(pool) for _ in range(nb)], key=lexkey)
    else:
        charges = [rng.choice(pool) for _ in range(nb)]
    slices = [0]
    for s in sizes:
        slices.append(slices[-1] + s)
    return dict(mods=list(mods), slices=slices, charges=[list(c) for c in charges],
                qconj=qconj if qconj is not None else rng.choice([1, -1]),
                ctor=rng.choice(['init', 'qind', 'qind']))


def leg_len(leg):
    return leg['slices'][-1]


def leg_nontrivial(leg):
    return len(leg['charges']) >= 2 and len(leg['mods']) >= 1
