"""C16 — Krylov solvers return Ritz data of the operator they are given."""
import json
import multiprocessing as mp

from vlib import core
from harness import c16_lib as L
from harness import c16_lanczos as LZ
from harness import c16_other as OT
from harness import c16_api as API
from harness import c16_reuse as RU

PROP = 'C16'
MODEL_MODULES = ['TenpyModel.Util.J', 'TenpyModel.C16.Lanczos']
PROPS_MODULES = ['TenpyModel.C16.Props', 'TenpyModel.C16.PropsRitz', 'TenpyModel.C16.Props2']
LEAN_MODULES = PROPS_MODULES
LEVEL = 'proof'
BUDGET = {'quick': 170, 'thorough': 1200}
RULE = ('Operators are npc Arrays with a random charge structure (none/Z2/U1/Z3/U1xZ2, sorted or shuffled, bunched or '
        'not, qconj +-1); the start vector lives in one charge sector of dimension d. '
        'exact cases: d=1..8, integer entries in [-3,3] (random, sparse, complete/path graph, kron-degenerate, '
        'diagonal), integer start vectors, integer vectors to project out, dyadic E_shift; the real run and the Lean '
        'model get the same data and options, the model gets the number of steps and the dense eigenvector of the '
        'real run as oracle parameters; alpha/beta/h columns/result vectors diffed at 1e-9 relative (skipped when a '
        'non-final beta < 1e-3 makes the float run ill-conditioned). '
        'float cases: d=1..60, Hermitian U diag(lam) U^H with gaps >= 0.05 between distinct eigenvalues and '
        'families generic / degenerate minimum / degenerate maximum / clustered, real and complex, start vectors '
        'random or inside 1-3 dimensional invariant subspaces; general matrices for Arnoldi/GMRES. Every option '
        '(N_min, N_max, N_cache, reortho, cutoff, E_shift, E_tol, P_tol, which, num_ev, restart, res) is drawn; each '
        'Lanczos case is re-run with N_cache in {2,3,N_max} and with E_shift toggled. Reuse histories (part reuse, d=2..12): run() 2-5 times on one object of every solver class, delta/normalize changing between calls, reortho on/off, N_cache 2/3/N_max+-/default; each call is compared with a fresh object and the dense reference, earlier results and the arguments must stay untouched. '
        'A case is non-trivial when the '
        'sector has d >= 2 and the solver did N >= 2 steps; distinct by content hash.')
TRUSTED = ['Lean 4.33 kernel; axioms of every C16_* theorem within {propext, Classical.choice, Quot.sound}',
           'Mathlib modules imported by the proof files (Analysis.InnerProductSpace.Rayleigh, …)',
           'hand-written model TenpyModel/C16/Lanczos.lean, tied to tenpy/linalg/krylov_based.py and sparse.py by this '
           'correspondence run (same integer data, coefficients and vectors diffed)',
           'the driver instantiates the square root by a 200-bit approximation and rounds normalised vectors to '
           '2^-200 (bookkeeping theorems hold for every such instance; exactness theorems assume a true square root)',
           'numpy eigh/eig/svd and scipy.linalg.expm as the independent dense oracle']
ASSUMPTIONS = ['the model treats a solver as a function of (operator, start vector, options[, delta]); state kept on the object between '
               'run() calls is checked not to matter by the reuse histories (differences are reported, see known_findings)',
               'np.linalg.eigh / eig of the small projected matrix return eigenpairs (their output is a parameter of the '
               'model; the Ritz certificate is re-checked on every result by the dense oracle)',
               'float cases are conditioned: spectral gaps >= 0.05, no forced continuation after an exact breakdown '
               'unless a cutoff above the rounding noise is set, E_shift for projected operators just below the '
               'spectrum (see notes/C16.md for the float artefacts that are excluded this way)']

PARTS = {
    'lanczos': (LZ.eval_gs, LZ.compare_model),
    'evo': (LZ.eval_evo, LZ.compare_model),
    'arnoldi': (OT.eval_arnoldi, OT.compare_arnoldi),
    'arnoldi_evo': (OT.eval_arnoldi_evo, None),
    'gmres': (OT.eval_gmres, OT.compare_gmres),
    'gs': (OT.eval_gs, OT.compare_gs),
    'ops': (OT.eval_ops, OT.compare_ops),
    'api': (API.eval_api, None),
    'reuse': (RU.eval_reuse, None),
}


ANCHOR_COVERAGE_NOTE = ('coverage round 2026-09-26 (quick case set, seed 0, in-process, line+branch): krylov_based.py 93% -> 99%, '
                        'sparse.py 72% -> 96%, together 84% -> 97%. See notes/C16.md, section Coverage round.')


def gen_cases(rng, n, exact_fraction=0.4):
    cases = []
    for _ in range(n):
        r = rng.random()
        exact = rng.random() < exact_fraction
        if rng.random() < 0.12:
            cases.append(API.gen_case(rng))
            continue
        if rng.random() < 0.14:
            cases.append(RU.gen_case(rng))
            continue
        if r < 0.34:
            cases.append(LZ.gen_case(rng, exact, evo=False))
        elif r < 0.48:
            cases.append(LZ.gen_case(rng, exact, evo=True))
        elif r < 0.62:
            cases.append(OT.gen_case(rng, 'arnoldi', exact))
        elif r < 0.70:
            cases.append(OT.gen_case(rng, 'arnoldi_evo', False))
        elif r < 0.82:
            cases.append(OT.gen_case(rng, 'gmres', exact))
        elif r < 0.90:
            cases.append(OT.gen_gs_case(rng, exact))
        else:
            cases.append(OT.gen_ops_case(rng, exact))
    return cases


def _eval(case):
    """worker: real code + oracle for one case -> (fails, lines, info) with JSON-able / picklable content"""
    L.quiet()
    try:
        return PARTS[case['part']][0](case)
    except Exception as e:  # noqa: an exception of the harness itself must not look like a verdict
        import traceback
        return [('harness', 'harness-exception', traceback.format_exc()[-1500:])], [], {}


def shrink_case(case, sigs):
    """try smaller variants of a failing case (fewer options, smaller dimension is not possible without
    regenerating, so only options are dropped); keep those that still fail with one of the signatures"""
    cur = case
    if 'opts' not in cur:
        return cur
    for key in list(cur['opts'].keys()):
        cand = json.loads(json.dumps(cur))
        cand['opts'].pop(key)
        sub = cand.get('sub', cand['part'])
        if sub in ('arnoldi',) and key in ('which', 'num_ev', 'N_max'):
            continue
        if sub in ('gmres', 'arnoldi_evo') and key in ('N_max', 'res'):
            continue
        try:
            fails, _, _ = _eval(cand)
        except Exception:  # noqa
            continue
        if any(f[0] == 'property' and f[1] in sigs for f in fails):
            cur = cand
    return cur


def run_cases(ctx, cases, use_model=True, procs=1):
    res = core.Result()
    res.extra['anchor_coverage_note'] = ANCHOR_COVERAGE_NOTE
    if procs > 1:
        with mp.Pool(procs) as pool:
            evals = pool.map(_eval, cases, chunksize=8)
    else:
        evals = [_eval(c) for c in cases]
    lines, owners = [], []
    for ci, (fails, ls, info) in enumerate(evals):
        for tag, line, run in ls:
            lines.append(line)
            owners.append((ci, tag, run))
    outs = core.run_driver('C16', lines) if (use_model and lines) else []
    model_bad = {}
    skipped = 0
    for (ci, tag, run), line, out in zip(owners, lines, outs):
        part = cases[ci]['part']
        cmp = PARTS[part][1]
        if part in ('lanczos', 'evo'):
            if not LZ.well_conditioned_for_model(run):
                skipped += 1
                continue
            bad = cmp(tag, line, run, out, 10.0)
        else:
            bad = cmp(tag, line, run, out)
        res.traces_validated += 1
        if bad:
            model_bad.setdefault(ci, []).extend(bad)
    res.extra['model_lines'] = len(lines)
    res.extra['model_lines_skipped_ill_conditioned'] = skipped
    n_shrunk = 0
    for ci, (case, (fails, ls, info)) in enumerate(zip(cases, evals)):
        N = info.get('N') or 0
        nontrivial = case['d'] >= 2 and (N >= 2 or case['part'] in ('gmres', 'gs', 'ops')) \
            and (case['part'] != 'reuse' or info.get('calls', 0) >= 2)
        res.note_case(case, nontrivial)
        res.count(f'part={case["part"]}.{case["mode"]}' + (f'.{case["scenario"]}' if case['part'] == 'api' else ''))
        res.count(f'd={case["d"] if case["d"] <= 8 else (str(case["d"] // 10 * 10) + "+")}')
        res.count(f'charges={case["st"]["ch"]}.{case["st"]["blocking"]}')
        if case['part'] in ('lanczos', 'evo'):
            res.count(f'lanczos.family={case.get("family")}')
            res.count(f'lanczos.N={"1" if N == 1 else "2-5" if N <= 5 else "6-12" if N <= 12 else "13+"}')
            for k in ('N_cache', 'reortho', 'E_shift', 'cutoff', 'N_min'):
                if k in case.get('opts', {}):
                    res.count(f'lanczos.opt.{k}')
            if info.get('early_exit'):
                res.count('lanczos.early-exit-on-invariant-subspace')
            if info.get('rebuild'):
                res.count('lanczos.rebuild-path(N_cache<N)')
            if case.get('ortho'):
                res.count('lanczos.with-projection')
        if case['part'] == 'arnoldi':
            res.count(f'arnoldi.which={case["which"]}')
            res.count(f'arnoldi.num_ev={min(case["opts"]["num_ev"], 4)}{"+" if case["opts"]["num_ev"] >= 4 else ""}')
            res.count('arnoldi.ritz-pairs-checked' if not info.get('skipped') and not info.get('raised') else 'arnoldi.skipped-orthogonality-lost-in-reference')
        if case['part'] == 'gmres':
            res.count(f'gmres.data={info.get("data")}')
        if case['part'] == 'reuse':
            res.count(f'reuse.{case["kind"]}.calls-compared={info.get("calls", 0)}')
            if case['kind'].startswith('lanczos'):
                oo = LZ.defaults(case['opts'])
                res.count(f'reuse.lanczos.reortho={bool(oo["reortho"])}.cache={"all" if oo["N_cache"] >= N else "partial"}')
        prop = [f for f in fails if f[0] == 'property']
        harness = [f for f in fails if f[0] == 'harness']
        for f in harness:
            res.fail('correspondence', 'harness-exception', f[2], case)
        if prop:
            sigs = {f[1] for f in prop}
            n_shrunk += 1
            small = shrink_case(case, sigs) if n_shrunk <= 5 else case
            seen = set()
            for f in prop:
                if f[1] not in seen:
                    seen.add(f[1])
                    res.fail('property', f[1], f[2], small)
        elif ci in model_bad:
            sig, detail = model_bad[ci][0]
            res.fail('correspondence', sig, detail, case)
    return res


CORPUS_INLINE = []


def load_corpus():
    cases = list(CORPUS_INLINE)
    d = core.CORPUS_DIR / 'C16'
    if d.exists():
        for f in sorted(d.glob('*.json')):
            c = json.loads(f.read_text())
            cases.append(c.get('case', c))
    return cases


def run(ctx):
    rng = ctx.sub_rng('cases')
    n = 800 if ctx.quick else 12000
    cases = load_corpus() + gen_cases(rng, n)
    return run_cases(ctx, cases, use_model=True, procs=8 if ctx.quick else 16)


def search(ctx, reasons):
    rng = ctx.sub_rng('search')
    cases = load_corpus() + gen_cases(rng, 1500 if ctx.quick else 30000, exact_fraction=0.3)
    return run_cases(ctx, cases, use_model=False, procs=16)


def replay(ctx, payload):
    case = payload.get('case')
    if not case:
        return core.Result()
    return run_cases(ctx, [case], use_model=True, procs=1)
