"""C14 part (d): option branches and entry points of the anchored engines that the trace / dense streams do not reach
(added in the coverage round, see notes/C14.md "Coverage round").  Every check has a real oracle:

  equiv        an option that must not change the evolution (TDVP `combine`, `lanczos_params` variants incl. the
               Arnoldi solver `hermitian=False`, deprecated alias `lanczos_options`, `explicit_plus_hc` models; QR-TEBD
               `cbe_*` / `use_eig_based_svd` / `compute_err` with a generous expansion): same dense state as the
               reference run and as scipy expm within the engine's error
  krylov       TDVP `Krylov_params` basis expansion (MPO-generated / random): the expansion alone leaves the state
               unchanged, the evolution keeps norm and energy
  e_offset     TEBD `E_offset`: state = exp(-i (H - sum E_offset) t) psi0
  run_gs       TEBDEngine.run_GS (standard / QR; finite -> update_imag, infinite or order != 2 -> evolve):
               evolved_time = -i sum N*dtau of the update calls, trunc_err = sum of the bond-update errors, energy
               approaches the ExactDiag ground state from above
  rue          RandomUnitaryEvolution with each distribution function and dt != 1: norm, charge, time, error sum
  restart      get_resume_data / switch_engine / start_time+start_trunc_err: evolved_time continues and the state equals
               the uninterrupted run
  norm         preserve_norm True / False / default with real and imaginary steps vs the dense norm
  errors       malformed calls raise the documented exception class
  lanczos      LanczosEvolution / ArnoldiEvolution run directly on a small operator vs scipy expm, all options
"""
import traceback

import numpy as np

from vlib import core
from harness import c14_engines as E


def _dense(psi, ED):
    return ED.mps_to_full(psi).to_ndarray() * psi.norm


def _setup(model_spec, state='neel', random_state=None):
    import tenpy.linalg.np_conserved as npc
    from tenpy.algorithms.exact_diag import ExactDiag
    M = E.build_model(model_spec)
    ED = ExactDiag(M)
    ED.build_full_H_from_mpo()
    psi = E.build_state(M, dict(state=state))
    if random_state is not None:
        rng = np.random.default_rng(random_state)
        full = ED.mps_to_full(psi)
        vec = rng.normal(size=full.shape) + 1j * rng.normal(size=full.shape)
        vec /= np.linalg.norm(vec)
        psi = ED.full_to_mps(npc.Array.from_ndarray(vec, [full.legs[0]]))
    return M, ED, ED.full_H.to_ndarray(), psi


def _evolve(case, extra=None, chi=None, engine=None, td=False, dt=None, N=None, model=None, **kw):
    """one untruncated run of `engine`; -> (v0, v, psi, eng, H)"""
    spec = dict(model or case['model'])
    if td:
        spec['time'] = 0.0
    M, ED, H, psi = _setup(spec, case.get('state', 'neel'), case.get('random_state'))
    v0 = _dense(psi, ED)
    cf = dict(case, engine=engine or case['engine'], chi_max=chi or 4 ** (M.lat.N_sites // 2 + 1), svd_min=1e-15,
              extra_options=extra if extra is not None else case.get('extra_options'))
    cf.update(kw)
    cf.setdefault('cbe_expand', 10.0)   # complete QR expansion unless the case sets the rate through extra_options
    dt = case['dt'] if dt is None else dt
    eng = E.engine_class(cf['engine'], td)(psi, M, E.engine_options(cf, dt, case['N'] if N is None else N))
    eng.run()
    return v0, _dense(psi, ED), psi, eng, H, ED


def _expm(H, v0, t, imag=False):
    import scipy.linalg as sla
    return sla.expm((-H if imag else -1j * H) * t) @ v0


# ---------------------------------------------------------------------------------------------------------------


def chk_equiv(case):
    """option set `extra_options` vs the reference options `ref_options` (default {}): same state"""
    fails = []
    v0, v, psi, eng, H, ED = _evolve(case, extra=case.get('extra_options'), model=case['model'], chi=case.get('chi'))
    refm = dict(case['model'])
    refm.pop('explicit_plus_hc', None)
    _, vr, psir, engr, _, _ = _evolve(case, extra=case.get('ref_options', {}), engine=case.get('ref_engine'), model=refm)
    tol = case.get('tol', 1e-9)
    d = float(np.linalg.norm(v - vr))
    if case.get('bound_by_err'):
        # a tight QR expansion rate truncates (documented); then the deviation must be covered by the reported error:
        # |dpsi| <= sum_i sqrt(eps_i) <= sqrt(n * sum eps_i), n <= 100 bond updates here
        tol = tol + float(np.sqrt(100 * max(eng.trunc_err.eps, 0.0)))
    if d > tol:
        fails.append((f'options.{case["tag"]}.state-differs',
                      f'|psi(option) - psi(reference)| = {d:.3e} > {tol:.3e} (trunc_err {eng.trunc_err})'))
    ex = _expm(H, v0, case['dt'] * case['N'])
    e, er = float(np.linalg.norm(v - ex)), float(np.linalg.norm(vr - ex))
    if e > 2 * er + tol:
        fails.append((f'options.{case["tag"]}.error-vs-expm', f'error {e:.3e} with the option, {er:.3e} without'))
    if complex(eng.evolved_time) != complex(engr.evolved_time):
        fails.append((f'options.{case["tag"]}.evolved_time', f'{eng.evolved_time} vs {engr.evolved_time}'))
    if case.get('expect_nan_err'):
        if not (np.isnan(eng.trunc_err.eps) and np.isnan(eng.trunc_err.ov)):
            fails.append((f'options.{case["tag"]}.compute_err-false-not-nan', f'trunc_err = {eng.trunc_err}'))
    elif not case.get('bound_by_err') and not (0 <= eng.trunc_err.eps <= 1e-12):
        fails.append((f'options.{case["tag"]}.trunc_err-of-untruncated-run', f'trunc_err = {eng.trunc_err}'))
    return fails, dict(diff=d, err=e, err_ref=er)


def chk_krylov(case):
    fails = []
    cf = dict(case, chi_max=64, svd_min=1e-15)
    # (i) the expansion alone (prepare_evolve) must not change the state
    M, ED, H, psi = _setup(case['model'], case.get('state', 'mixed'))
    v0 = _dense(psi, ED)
    eng = E.engine_class(case['engine'], False)(psi, M, E.engine_options(cf, case['dt'], case['N']))
    chi0 = list(psi.chi)
    eng.prepare_evolve(case['dt'])
    v1 = _dense(psi, ED)
    chi1 = list(psi.chi)
    if abs(abs(np.vdot(v0, v1)) - 1) > 1e-9 or abs(np.linalg.norm(v1) - 1) > 1e-9:
        fails.append((f'options.{case["tag"]}.expansion-changes-state',
                      f'|<psi|psi_expanded>| = {abs(np.vdot(v0, v1))!r}, norm {np.linalg.norm(v1)!r}'))
    if not any(a > b for a, b in zip(chi1, chi0)):
        fails.append((f'options.{case["tag"]}.no-expansion', f'chi {chi0} -> {chi1}'))
    # (ii) a run() with expansion (fresh objects) keeps norm and energy and advances the time
    M, ED, H, psi = _setup(case['model'], case.get('state', 'mixed'))
    eng = E.engine_class(case['engine'], False)(psi, M, E.engine_options(cf, case['dt'], case['N']))
    eng.run()
    v = _dense(psi, ED)
    if abs(np.linalg.norm(v) - 1) > 1e-9:
        fails.append((f'options.{case["tag"]}.norm', f'{np.linalg.norm(v)!r}'))
    dE = float(np.vdot(v, H @ v).real - np.vdot(v0, H @ v0).real)
    if abs(dE) > 1e-8:
        fails.append((f'options.{case["tag"]}.energy', f'drift {dE:.3e}'))
    if complex(eng.evolved_time) != case['dt'] * case['N']:
        fails.append((f'options.{case["tag"]}.evolved_time', f'{eng.evolved_time}'))
    return fails, dict(chi=[chi0, chi1, list(psi.chi)],
                       err=float(np.linalg.norm(v - _expm(H, v0, case['dt'] * case['N']))))


def chk_e_offset(case):
    fails = []
    L = case['model']['L']
    offs = case['E_offset']
    v0, v, psi, eng, H, ED = _evolve(case, extra=dict(E_offset=list(offs)))
    # bond i (left of site i) exists for i = 1..L-1 in a finite chain
    shift = sum(offs[1:L])
    ex = _expm(H - shift * np.eye(len(H)), v0, case['dt'] * case['N'])
    _, vr, _, _, _, _ = _evolve(case, extra={})
    exr = _expm(H, v0, case['dt'] * case['N'])
    e, er = float(np.linalg.norm(v - ex)), float(np.linalg.norm(vr - exr))
    if abs(e - er) > 1e-9:
        fails.append(('options.tebd-E_offset.phase', f'error vs exp(-i(H - sum E_offset)t) = {e:.3e}, without offset {er:.3e}'))
    return fails, dict(err=e, err_ref=er)


def chk_run_gs(case):
    from tenpy.algorithms import tebd
    from tenpy.linalg.truncation import TruncationError
    fails = []
    spec = case['model']
    M = E.build_model(spec)
    psi = E.build_state(M, dict(state=case.get('state', 'neel')))
    cls = tebd.QRBasedTEBDEngine if case['engine'] == 'QRTEBD' else tebd.TEBDEngine
    taus = [p / q for p, q in case['taus']]
    opts = dict(order=case['order'], N_steps=case['N'], delta_tau_list=taus, max_error_E=case.get('max_error_E', 1e-3),
                trunc_params=dict(chi_max=case['chi_max'], svd_min=1e-14), max_trunc_err=1e300, max_delta_t=1e300)
    if case['engine'] == 'QRTEBD':
        opts.update(cbe_expand=1.0, cbe_min_block_increase=2)
    eng = cls(psi, M, opts)
    log = []   # (N_steps, tau) of every update call; errors of every bond update
    errs = []
    undo = []

    def wrap(name, rec):
        orig = getattr(cls, name)
        had = name in cls.__dict__

        def f(self_, *a, **k):
            r = orig(self_, *a, **k)
            rec(self_, a, r)
            return r
        setattr(cls, name, f)
        undo.append((name, orig if had else None))
    wrap('update_imag', lambda s, a, r: log.append((a[0], complex(s._U_param['tau']))))
    wrap('evolve', lambda s, a, r: log.append((a[0], complex(s._U_param['tau']))))
    wrap('update_bond', lambda s, a, r: errs.append((float(r.eps), float(r.ov))))
    wrap('update_bond_imag', lambda s, a, r: errs.append((float(r.eps), float(r.ov))))
    try:
        eng.run_GS()
    finally:
        for name, orig in reversed(undo):
            if orig is None:
                delattr(cls, name)
            else:
                setattr(cls, name, orig)
    t = sum(n * tau for n, tau in log)
    if abs(complex(eng.evolved_time) - t) > 1e-12 * max(1, abs(t)) or any(tau.real != 0 for _, tau in log):
        fails.append((f'options.run_GS.evolved_time.{case["tag"]}', f'evolved_time {eng.evolved_time}, update calls sum to {t}'))
    s = sum(e for e, _ in errs)
    if abs(eng.trunc_err.eps - s) > 1e-11 * max(s, 1e-300):
        kind = 'counted-twice' if s > 0 and abs(eng.trunc_err.eps - 2 * s) < 1e-9 * s else \
            'not-accumulated' if s > 0 and eng.trunc_err.eps == 0 else 'mismatch'
        fails.append((f'options.run_GS.trunc_err.{kind}.{case["tag"]}',
                      f'trunc_err.eps = {eng.trunc_err.eps!r}, {len(errs)} bond updates with errors summing to {s!r}'))
    info = dict(n_updates=len(log), n_bond=len(errs), beta=-complex(eng.evolved_time).imag)
    if spec.get('bc', 'finite') == 'finite':
        from tenpy.algorithms.exact_diag import ExactDiag
        ED = ExactDiag(M)
        ED.build_full_H_from_mpo()
        H = ED.full_H.to_ndarray()
        v0 = _dense(E.build_state(M, dict(state=case.get('state', 'neel'))), ED)
        if spec.get('g', 0.0) == 0.0:
            # H commutes with Sz_total: imaginary time stays in the sector of the (product) start state
            Sz = np.diag(_sz_total(spec))
            sect = np.isclose(Sz, float(np.vdot(v0, Sz * v0).real))
        else:
            sect = np.ones(len(H), bool)
        E0 = float(np.linalg.eigvalsh(H[np.ix_(sect, sect)])[0])
        psi.canonical_form()
        v = _dense(psi, ED)
        Ev = float(np.vdot(v, H @ v).real / np.vdot(v, v).real)
        Ei = float(np.vdot(v0, H @ v0).real)
        info.update(E=Ev, E0=E0, E_initial=Ei)
        if Ev < E0 - 1e-9:
            fails.append((f'options.run_GS.energy-below-ground-state.{case["tag"]}', f'E = {Ev!r} < E0 = {E0!r}'))
        if Ev > Ei + 1e-9:
            fails.append((f'options.run_GS.energy-increased.{case["tag"]}', f'E = {Ev!r} > initial {Ei!r}'))
    return fails, info


def _sz_total(spec):
    from tenpy.algorithms.exact_diag import ExactDiag
    M = E.build_model(dict(spec, J=0.0, Jz=0.0, J2=0.0, J3=0.0, g=0.0, amp=0.0, hz=-1.0))
    ED = ExactDiag(M)
    ED.build_full_H_from_mpo()
    return ED.full_H.to_ndarray().real


def chk_rue(case):
    from tenpy.algorithms import tebd
    fails = []
    np.random.seed(case['seed'])
    M = E.build_model(case['model'])
    psi = E.build_state(M, dict(state=case.get('state', 'neel')))
    q0 = psi.get_total_charge().tolist()
    opts = dict(dt=case['dt'], N_steps=case['N'], trunc_params=dict(chi_max=case['chi_max'], svd_min=1e-14),
                max_trunc_err=1e300, distribution_func=case['func'])
    if case['func'] == 'callable':
        from tenpy.linalg import random_matrix
        opts['distribution_func'] = lambda size: random_matrix.CUE(size)   # any function generating unitaries
    if case.get('func_kwargs'):
        opts['distribution_func_kwargs'] = dict(case['func_kwargs'])
    eng = tebd.RandomUnitaryEvolution(psi, opts)
    rec = E.Recorder('RUE')
    with rec.active(eng):
        for _ in range(case['calls']):
            eng.run()
    s = sum(e for e, _ in rec.errors)
    if abs(eng.trunc_err.eps - s) > 1e-12 * max(s, 1e-300):
        fails.append(('options.RUE.trunc_err', f'trunc_err.eps = {eng.trunc_err.eps!r}, sum of the bond errors {s!r}'))
    if complex(eng.evolved_time) != case['calls'] * case['N'] * case['dt']:
        fails.append(('options.RUE.evolved_time', f'{eng.evolved_time} for {case["calls"]} x {case["N"]} x {case["dt"]}'))
    if psi.get_total_charge().tolist() != q0:
        fails.append(('options.RUE.charge', f'{q0} -> {psi.get_total_charge().tolist()}'))
    L = psi.L
    n_expected = case['calls'] * case['N'] * (L - 1)
    if len(rec.errors) != n_expected:
        fails.append(('options.RUE.number-of-updates', f'{len(rec.errors)} bond updates, expected {n_expected}'))
    if case['chi_max'] >= 2 ** (L // 2):
        ov = psi.overlap(psi)
        if abs(ov - 1) > 1e-10 or s > 1e-20:
            fails.append(('options.RUE.untruncated-norm', f'<psi|psi> = {ov!r}, trunc_err {s!r}'))
    return fails, dict(eps=s, chi=[int(c) for c in psi.chi])


def chk_restart(case):
    """uninterrupted run of N1+N2 steps vs N1 steps, restart (mode), N2 steps"""
    fails = []
    spec = dict(case['model'])
    td = False
    n1, n2 = case['N1'], case['N2']
    dt = case['dt']

    def mk(engine, N, **kw):
        M = E.build_model(spec)
        psi = E.build_state(M, dict(state=case.get('state', 'neel')))
        cf = dict(case, engine=engine, chi_max=case['chi_max'], svd_min=1e-14)
        cf.update(kw)
        return M, psi, E.engine_options(cf, dt, N)
    a, b = case['engine'], case.get('engine2', case['engine'])
    M, psi, opts = mk(a, n1)
    eng = E.engine_class(a, td)(psi, M, opts)
    eng.run()
    t1, e1 = complex(eng.evolved_time), eng.trunc_err
    mode = case['mode']
    cls2 = E.engine_class(b, td)
    _, _, opts2 = mk(b, n2)
    if mode == 'resume':
        data = eng.get_resume_data()
        eng2 = cls2(psi.copy() if case.get('copy_psi') else psi, M, opts2, resume_data=data)
        if complex(eng2.evolved_time) != t1:
            fails.append((f'options.restart.{mode}.evolved_time-at-init', f'{eng2.evolved_time} != {t1}'))
        eng2.resume_run()
    elif mode == 'switch':
        eng2 = cls2.switch_engine(eng, options=opts2)
        if complex(eng2.evolved_time) != t1:
            fails.append((f'options.restart.{mode}.evolved_time-at-init', f'{eng2.evolved_time} != {t1}'))
        eng2.run()
    else:   # start_time / start_trunc_err
        opts2['start_time'] = eng.evolved_time
        opts2['start_trunc_err'] = eng.trunc_err
        eng2 = cls2(psi, M, opts2)
        if eng2.trunc_err.eps != e1.eps or eng2.trunc_err.ov != e1.ov:
            fails.append((f'options.restart.{mode}.start_trunc_err', f'{eng2.trunc_err} != {e1}'))
        eng2.run()
    want = t1 + n2 * dt
    if complex(eng2.evolved_time) != want:
        fails.append((f'options.restart.{mode}.evolved_time', f'{eng2.evolved_time} != {want}'))
    if mode == 'start_time':
        # the error of the second leg is added to the carried value
        rec_eps = eng2.trunc_err.eps
        if rec_eps < e1.eps - 1e-18:
            fails.append((f'options.restart.{mode}.trunc_err-decreased', f'{e1.eps} -> {rec_eps}'))
    psi2 = eng2.psi
    # uninterrupted reference (same engines, same step sizes): engine a for n1 steps then engine b for n2 steps
    # on fresh objects without any restart machinery
    Mr, psir, optr = mk(a, n1)
    er = E.engine_class(a, td)(psir, Mr, optr)
    er.run()
    _, _, optr2 = mk(b, n2)
    optr2['start_time'] = er.evolved_time
    er2 = cls2(psir, Mr, optr2)
    er2.run()
    ov = psi2.overlap(psir)
    if abs(ov - 1) > 1e-9:
        fails.append((f'options.restart.{mode}.state', f'overlap with the uninterrupted run = {ov!r}'))
    return fails, dict(ov=abs(ov), t=[t1.real, complex(eng2.evolved_time).real])


def chk_norm(case):
    """preserve_norm in {None, True, False} x real / imaginary step: psi.norm vs the dense norm"""
    fails = []
    imag = case['imag']
    step = -1j * case['dt'] if imag else case['dt']
    extra = {} if case['preserve_norm'] is None else dict(preserve_norm=case['preserve_norm'])
    if case['engine'] in ('TEBD', 'QRTEBD'):
        extra['order'] = case.get('order', 2)
    v0, v, psi, eng, H, ED = _evolve(case, extra=extra, dt=step)
    ref = _expm(H, v0, case['dt'] * case['N'], imag)
    preserve = case['preserve_norm'] if case['preserve_norm'] is not None else (not imag)
    n_dense = float(np.linalg.norm(ref))
    err = float(np.linalg.norm(v / np.linalg.norm(v) - ref / n_dense))
    tag = f'{case["engine"]}.preserve_norm={case["preserve_norm"]}.{"imag" if imag else "real"}'
    if preserve:
        if psi.norm != 1.0:
            fails.append((f'options.norm.not-preserved.{tag}', f'psi.norm = {psi.norm!r}'))
    else:
        # norm of exp(-H tau) psi0 (imaginary time) resp. 1 (real time), within the engine's error
        if abs(psi.norm - n_dense) > 10 * err * max(1.0, n_dense) + 1e-9:
            fails.append((f'options.norm.wrong.{tag}', f'psi.norm = {psi.norm!r}, dense {n_dense!r}, state error {err:.2e}'))
    if err > case.get('max_err', 5e-3):
        fails.append((f'options.norm.state.{tag}', f'state error {err:.3e}'))
    want = step * case['N']
    if abs(complex(eng.evolved_time) - want) > 0:
        fails.append((f'options.norm.evolved_time.{tag}', f'{eng.evolved_time} != {want}'))
    return fails, dict(norm=float(psi.norm), dense=n_dense, err=err)


def chk_errors(case):
    """malformed use raises the documented class"""
    from tenpy.algorithms import algorithm, mpo_evolution, tdvp, tebd
    fails = []
    nn = dict(kind='nn', L=4, conserve='Sz')
    lr = dict(kind='lr', L=4, conserve='Sz', J2=0.3)
    tp = dict(chi_max=4)

    def expect(name, exc, f):
        try:
            f()
        except exc:
            return
        except Exception as e:
            fails.append((f'options.errors.{name}', f'raised {type(e).__name__}: {str(e)[:120]}, expected {exc.__name__}'))
            return
        fails.append((f'options.errors.{name}', f'no exception, expected {exc.__name__}'))

    def eng(cls, spec, opts):
        M = E.build_model(spec)
        return cls(E.build_state(M, dict(state='neel')), M, dict(opts, trunc_params=tp))
    expect('tebd-unknown-order.time_steps', ValueError, lambda: tebd.TEBDEngine.suzuki_trotter_time_steps(3))
    expect('tebd-unknown-order.decomposition', ValueError, lambda: tebd.TEBDEngine.suzuki_trotter_decomposition('4opt', 2))
    expect('tebd-unknown-order.run', ValueError, lambda: eng(tebd.TEBDEngine, nn, dict(order=3, dt=0.1)).run())
    expect('tebd-type_evo', ValueError, lambda: eng(tebd.TEBDEngine, nn, {}).calc_U(2, 0.1, type_evo='complex'))
    expect('tebd-not-nearest-neighbour', AttributeError, lambda: eng(tebd.TEBDEngine, lr, dict(dt=0.1)).run())

    def imag4():
        e = eng(tebd.TEBDEngine, nn, {})
        e.calc_U(4, 0.1, type_evo='imag')
        e.update_imag(1)
    expect('tebd-update_imag-order4', NotImplementedError, imag4)

    def imag_inf():
        e = eng(tebd.TEBDEngine, dict(nn, bc='infinite', L=2), {})
        e.calc_U(2, 0.1, type_evo='imag')
        e.update_imag(1)
    expect('tebd-update_imag-infinite', NotImplementedError, imag_inf)
    expect('tebd-evolve-dt-mismatch', AssertionError,
           lambda: (lambda e: (e.prepare_evolve(0.1), e.evolve(1, 0.2)))(eng(tebd.TEBDEngine, nn, {})))
    expect('expmpo-order3', ValueError, lambda: eng(mpo_evolution.ExpMPOEvolution, lr,
                                                    dict(order=3, dt=0.1, compression_method='SVD')).run())
    expect('expmpo-unknown-compression', ValueError, lambda: eng(mpo_evolution.ExpMPOEvolution, lr,
                                                                 dict(dt=0.1, compression_method='svd')).run())
    expect('tdvp-base-class', NameError, lambda: eng(tdvp.TDVPEngine, nn, {}))
    expect('tdvp-infinite', NotImplementedError, lambda: eng(tdvp.TwoSiteTDVPEngine, dict(nn, bc='infinite', L=2), {}))
    expect('base-prepare_evolve', NotImplementedError,
           lambda: eng(algorithm.TimeEvolutionAlgorithm, nn, {}).prepare_evolve(0.1))
    expect('base-evolve_step', NotImplementedError, lambda: eng(algorithm.TimeEvolutionAlgorithm, nn, {}).evolve(1, 0.1))
    expect('qr-cbe_expand_0-without-chi_max', ValueError,
           lambda: (lambda M: tebd.QRBasedTEBDEngine(E.build_state(M, dict(state='neel')), M,
                                                     dict(dt=0.1, cbe_expand_0=1.0, trunc_params=dict(chi_max=None))).run())(
               E.build_model(nn)))
    def qr_imag_eig():
        e = eng(tebd.QRBasedTEBDEngine, nn, dict(use_eig_based_svd=True, cbe_expand=1.0))
        e.calc_U(2, 0.1, type_evo='imag')
        e.update_imag(1)
    expect('qr-update_bond_imag-eig-based-svd', NotImplementedError, qr_imag_eig)
    expect('algorithm-run', NotImplementedError, lambda: eng(algorithm.Algorithm, nn, {}).run())
    expect('rue-distribution_func-not-unitary', ValueError,
           lambda: (lambda M: tebd.RandomUnitaryEvolution(E.build_state(M, dict(state='neel')),
                                                          dict(N_steps=1, distribution_func='GUE', trunc_params=tp)).run())(
               E.build_model(nn)))
    expect('lanczos-zero-vector', ValueError, _lanczos_zero_vector)
    # deprecated accessor TDVPEngine.lanczos_options == lanczos_params
    import warnings
    et = eng(tdvp.TwoSiteTDVPEngine, nn, dict(dt=0.1, lanczos_params=dict(N_max=7)))
    with warnings.catch_warnings(record=True) as w:
        warnings.simplefilter('always')
        lo = et.lanczos_options
    if lo is not et.lanczos_params or not any(issubclass(x.category, FutureWarning) for x in w):
        fails.append(('options.errors.tdvp-lanczos_options-accessor', f'{lo!r}, warnings {[str(x.message) for x in w]}'))
    # switch_engine without options takes over the options (and evolved_time) of the other engine
    e1 = eng(tebd.TEBDEngine, nn, dict(dt=0.125, N_steps=2, order=2))
    e1.run()
    e2 = tebd.QRBasedTEBDEngine.switch_engine(e1)
    e2.run()
    if complex(e2.evolved_time) != 0.5 or e2.options is not e1.options:
        fails.append(('options.errors.switch_engine-default-options', f'evolved_time {e2.evolved_time}'))
    # evolve(N, dt=None) uses the prepared dt; trunc_err_bonds lists one entry per non-trivial bond
    e = eng(tebd.TEBDEngine, nn, dict(dt=0.125, order=2))
    e.prepare_evolve(0.125)
    te = e.evolve(2, None)
    if complex(e.evolved_time) != 0.25:
        fails.append(('options.errors.tebd-evolve-dt-None.evolved_time', f'{e.evolved_time}'))
    if len(e.trunc_err_bonds) != 3 or abs(sum(b.eps for b in e.trunc_err_bonds) - te.eps) > 1e-15:
        fails.append(('options.errors.tebd-trunc_err_bonds', f'{e.trunc_err_bonds} vs returned {te}'))
    return fails, {}


def _lanczos_zero_vector():
    import tenpy.linalg.np_conserved as npc
    from tenpy.linalg import krylov_based
    leg = npc.LegCharge.from_trivial(3)
    H = npc.Array.from_ndarray(np.eye(3), [leg, leg.conj()], labels=['p', 'p*'])
    psi0 = npc.Array.from_ndarray(np.zeros(3), [leg], labels=['p'])
    krylov_based.LanczosEvolution(H, psi0, {}).run(-0.1j)


def chk_lanczos(case):
    """LanczosEvolution / ArnoldiEvolution on a random small (block-diagonal, charged) operator vs scipy expm"""
    import scipy.linalg as sla
    import tenpy.linalg.np_conserved as npc
    from tenpy.linalg import krylov_based
    fails = []
    rng = np.random.default_rng(case['seed'])
    n = case['dim']
    if case.get('charged'):
        chinfo = npc.ChargeInfo([1], ['q'])
        qflat = sorted(rng.integers(0, 3, size=n).tolist())
        leg = npc.LegCharge.from_qflat(chinfo, [[q] for q in qflat])
    else:
        leg = npc.LegCharge.from_trivial(n)
        qflat = [0] * n
    A = rng.normal(size=(n, n)) + 1j * rng.normal(size=(n, n))
    A = A * np.equal.outer(qflat, qflat)
    herm = case['solver'] == 'lanczos' or case.get('hermitian_input', True)
    Hd = (A + A.conj().T) / 2 if herm else A
    Hd = Hd * case.get('scale', 1.0)
    H = npc.Array.from_ndarray(Hd, [leg, leg.conj()], labels=['p', 'p*'])
    x = rng.normal(size=n) + 1j * rng.normal(size=n)
    q_target = qflat[rng.integers(0, n)] if case.get('charged') else 0
    x = x * np.equal(qflat, q_target)
    x *= case.get('psi_norm', 1.0) / np.linalg.norm(x)
    psi0 = npc.Array.from_ndarray(x, [leg], labels=['p'], qtotal=[q_target] if case.get('charged') else None)
    opts = dict(case['options'])
    cls = krylov_based.LanczosEvolution if case['solver'] == 'lanczos' else krylov_based.ArnoldiEvolution
    delta = complex(*case['delta'])
    if delta.imag == 0:
        delta = delta.real
    want = sla.expm(delta * (Hd + (opts.get('E_shift') or 0.0) * np.eye(n))) @ x
    solver = cls(H, psi0, opts)
    if case.get('N_cache'):
        solver.N_cache = case['N_cache']   # fewer cached Krylov vectors than steps: the basis is rebuilt for the result
    res, N = solver.run(delta, normalize=case['normalize'])
    got = res.to_ndarray()
    normalize = case['normalize']
    if normalize is None:
        normalize = (np.real(delta) == 0.0) if case['solver'] == 'lanczos' else False
    if normalize:
        want = want / np.linalg.norm(want)
    tol = case.get('tol', 1e-9) * max(1.0, np.linalg.norm(want))
    err = float(np.linalg.norm(got - want))
    tag = f'{case["solver"]}.{case["tag"]}'
    if err > tol:
        fails.append((f'options.krylov.{tag}.wrong-result', f'|result - expm(delta H) psi0| = {err:.3e} (N={N}, dim {n})'))
    if not (1 <= N <= opts.get('N_max', 20)):
        fails.append((f'options.krylov.{tag}.N-out-of-range', f'N = {N}'))
    if np.linalg.norm(psi0.to_ndarray() - x) > 1e-14:
        fails.append((f'options.krylov.{tag}.start-vector-modified', 'psi0 of the caller changed'))
    # a second run of the same object with another delta (TDVP builds a new object, but the class allows it)
    if case.get('rerun'):
        res2, _ = cls(H, psi0, opts).run(delta / 2, normalize=False)
        w2 = sla.expm(delta / 2 * (Hd + (opts.get('E_shift') or 0.0) * np.eye(n))) @ x
        if np.linalg.norm(res2.to_ndarray() - w2) > tol:
            fails.append((f'options.krylov.{tag}.half-step', f'{np.linalg.norm(res2.to_ndarray() - w2):.3e}'))
    return fails, dict(N=N, err=err)


CHECKS = dict(equiv=chk_equiv, krylov=chk_krylov, e_offset=chk_e_offset, run_gs=chk_run_gs, rue=chk_rue,
              restart=chk_restart, norm=chk_norm, errors=chk_errors, lanczos=chk_lanczos)


def run_case(case):
    E.quiet()
    try:
        fails, info = CHECKS[case['check']](case)
        return dict(fails=fails, info=info)
    except Exception as e:
        return dict(exception=type(e).__name__, message=str(e)[:300], tb=traceback.format_exc()[-1800:])


# ---------------------------------------------------------------------------------------------------------------
# generation


def gen_cases(rng, thorough=False):
    cases = []
    L = rng.choice([4, 5])

    def nn(conserve='Sz', **kw):
        return dict(dict(kind='nn', L=L, bc='finite', conserve=conserve, Jz=rng.choice([0.5, 1.0, -0.75]),
                         hz=rng.choice([0.0, 0.25]), g=0.0 if conserve == 'Sz' else 0.4), **kw)

    def lr(conserve='Sz', **kw):
        return dict(dict(kind='lr', L=L, bc='finite', conserve=conserve, Jz=rng.choice([0.5, 1.0]), hz=0.25,
                         J2=rng.choice([0.3, -0.4]), J3=rng.choice([0.0, 0.2]), g=0.0 if conserve == 'Sz' else 0.4), **kw)

    def add(check, **kw):
        cases.append(dict(part='opt', check=check, **kw))

    # --- TDVP option branches (exact at full bond dimension: random dense start state) -----------------------------
    lan = [('reortho-off', dict(N_max=24, reortho=False, P_tol=1e-14)),
           ('N_min', dict(N_min=rng.choice([3, 6]), N_max=24, reortho=True)),
           ('arnoldi', dict(hermitian=False, N_max=24)),
           ('arnoldi-normalize', dict(hermitian=False, N_max=24, normalize=True)),
           ('normalize-true', dict(N_max=24, reortho=True, normalize=True)),
           ('cutoff', dict(N_max=24, reortho=True, cutoff=1e-13))]
    for eng in ('TDVP1', 'TDVP2'):
        rs = rng.randrange(10 ** 6)
        add('equiv', tag=f'{eng}.combine', engine=eng, model=lr(None), random_state=rs, dt=0.125, N=2,
            extra_options=dict(combine=True), ref_options={})
        tag, lp = rng.choice(lan) if not thorough else (None, None)
        for tag, lp in ([(tag, lp)] if not thorough else lan):
            add('equiv', tag=f'{eng}.lanczos_params.{tag}', engine=eng, model=lr(None), random_state=rng.randrange(10 ** 6),
                dt=0.125, N=2, extra_options=dict(lanczos_params=lp), ref_options={}, tol=1e-8)
    add('equiv', tag='TDVP.lanczos_options-alias', engine=rng.choice(['TDVP1', 'TDVP2']), model=lr(None),
        random_state=rng.randrange(10 ** 6), dt=0.125, N=2,
        extra_options=dict(lanczos_options=dict(N_max=24, reortho=True)), ref_options={})
    add('equiv', tag='TDVP.explicit_plus_hc', engine=rng.choice(['TDVP1', 'TDVP2']),
        model=lr(None, explicit_plus_hc=True), random_state=rng.randrange(10 ** 6),
        dt=0.125, N=2, extra_options={}, ref_options={})
    add('equiv', tag='TDVP2.combine.product-state', engine='TDVP2', model=nn(rng.choice(['Sz', None])),
        state=rng.choice(['neel', 'mixed']), dt=0.125, N=2, extra_options=dict(combine=True), ref_options={})
    add('krylov', tag='TDVP.Krylov_params.mpo', engine=rng.choice(['TDVP1', 'TDVP2']), model=lr('Sz'), state='mixed',
        dt=0.125, N=2, extra_options=dict(Krylov_params=dict(
            expansion_dim=rng.choice([1, 2]),
            apply_mpo_options=dict(compression_method='SVD', trunc_params=dict(chi_max=8)))))
    add('krylov', tag='TDVP.Krylov_params.random', engine='TDVP1', model=lr('Sz'), state='mixed', dt=0.125, N=2,
        extra_options=dict(Krylov_params=dict(expansion_dim=2, mpo=None, trunc_params=dict(chi_max=3))))
    # --- QR-based TEBD options vs plain TEBD ----------------------------------------------------------------------
    # the QR decomposition is exact only when the expanded dimension covers the whole two-site leg (eta >= d*chi_R);
    # smaller rates truncate heuristically (documented) -> `bound_by_err`: the deviation is covered by trunc_err
    big = dict(cbe_expand=10.0, cbe_min_block_increase=rng.choice([1, 2, 4]))
    qr_sets = [('cbe_expand', dict(big), 1e-9, {}),
               ('cbe_expand-tight', dict(cbe_expand=rng.choice([0.1, 0.5, 1.0]), cbe_min_block_increase=rng.choice([1, 2])),
                1e-9, dict(bound_by_err=True)),
               ('cbe_expand_0', dict(cbe_expand=5.0, cbe_expand_0=10.0, cbe_min_block_increase=2), 1e-9, {}),
               ('cbe_expand_0-tight', dict(cbe_expand=0.1, cbe_expand_0=rng.choice([0.5, 1.0]), cbe_min_block_increase=1),
                1e-9, dict(bound_by_err=True, chi=rng.choice([4, 8]))),
               ('use_eig_based_svd', dict(big, use_eig_based_svd=True), 1e-6, {}),
               ('compute_err-false', dict(big, compute_err=False), 1e-9, {})]
    for tag, o, tol, kw in (qr_sets if thorough else rng.sample(qr_sets, 4)):
        order = rng.choice([1, 2]) if tag == 'use_eig_based_svd' else rng.choice([1, 2, 4, '4_opt'])
        add('equiv', tag=f'QRTEBD.{tag}', engine='QRTEBD', ref_engine='TEBD', model=nn(rng.choice(['Sz', None])),
            state=rng.choice(['neel', 'mixed']), dt=0.125, N=3, order=order, extra_options=dict(o, order=order),
            ref_options=dict(order=order), tol=tol, expect_nan_err=(tag == 'compute_err-false'), **kw)
    add('e_offset', engine='TEBD', model=nn(rng.choice(['Sz', None])), state='neel', dt=0.125, N=3,
        order=rng.choice([1, 2, 4]), E_offset=[rng.choice([0.0, 0.25, -0.5, 1.0]) for _ in range(L)])
    # --- run_GS ---------------------------------------------------------------------------------------------------
    gs = [('TEBD', 'finite', 2), ('QRTEBD', 'finite', 2), ('TEBD', 'infinite', 2), ('TEBD', 'finite', rng.choice([1, 4])),
          ('QRTEBD', 'infinite', 2)]
    for eng, bc, order in (gs if thorough else gs[:2] + rng.sample(gs[2:], 2)):
        m = nn(rng.choice(['Sz', None]), bc=bc, L=L if bc == 'finite' else 2)
        add('run_gs', tag=f'{eng}.{bc}.order={order}', engine=eng, model=m, state='neel', order=order,
            N=rng.choice([1, 2, 3]), taus=[[1, 8], [1, 64]], chi_max=rng.choice([2, 4, 8]), max_error_E=1e-3)
    # --- RandomUnitaryEvolution -----------------------------------------------------------------------------------
    funcs = [('CUE', None), ('CRE', None), ('COE', None), ('O_close_1', dict(a=0.1)), ('U_close_1', dict(a=0.1))]
    for i, (func, kw) in enumerate(funcs if thorough else rng.sample(funcs, 2) + [('callable', None)]):
        add('rue', model=nn(rng.choice(['Sz', None]), L=rng.choice([4, 6])), state=rng.choice(['neel', 'mixed']),
            func=func, func_kwargs=kw, dt=[0.5, 1, 2][i % 3], N=rng.choice([1, 2, 3]), calls=rng.choice([1, 2]),
            chi_max=rng.choice([2, 3, 64]), seed=rng.randrange(10 ** 6))
    # --- restarts -------------------------------------------------------------------------------------------------
    pairs = [('TEBD', 'TEBD'), ('TEBD', 'QRTEBD'), ('QRTEBD', 'TEBD'), ('TDVP2', 'TDVP2'), ('TDVP2', 'TDVP1'),
             ('TEBD', 'TDVP2'), ('ExpMPO', 'ExpMPO'), ('TDVP1', 'TDVP1')]
    for mode in ('resume', 'switch', 'start_time'):
        a, b = rng.choice(pairs)
        if mode == 'resume':
            b = a
        add('restart', mode=mode, engine=a, engine2=b, model=nn('Sz'), state=rng.choice(['neel', 'mixed']),
            dt=rng.choice([0.125, 0.0625]), N1=rng.choice([1, 2]), N2=rng.choice([1, 2]), chi_max=rng.choice([4, 16]),
            order=2, approximation='II', compression='SVD', cbe_expand=1.0)
    # --- preserve_norm x real / imaginary -------------------------------------------------------------------------
    combos = [(e, p, im) for e in ('TEBD', 'TDVP2', 'ExpMPO', 'QRTEBD', 'TDVP1') for p in (None, True, False)
              for im in (False, True)]
    for e, p, im in (combos if thorough else rng.sample(combos, 6)):
        add('norm', engine=e, preserve_norm=p, imag=im, model=nn('Sz') if e != 'ExpMPO' else lr('Sz'),
            state='neel' if e != 'TDVP1' else 'neel', random_state=rng.randrange(10 ** 6) if e == 'TDVP1' else None,
            dt=0.0625, N=2, order=2, approximation='II', compression='SVD')
        if e == 'TDVP1':
            cases[-1]['model'] = lr(None)
    add('errors')
    # --- Krylov solvers directly ----------------------------------------------------------------------------------
    for i in range(24 if not thorough else 120):
        solver = rng.choice(['lanczos', 'lanczos', 'arnoldi'])
        dim = rng.choice([1, 2, 3, 6, 12, 20])
        opts = dict(N_max=rng.choice([20, 30]), P_tol=rng.choice([1e-14, 1e-12]))
        tag = 'default'
        r = rng.random()
        if r < 0.25:
            opts['reortho'] = True
            tag = 'reortho'
        elif r < 0.4:
            opts['N_min'] = rng.choice([2, 4, 8])
            tag = 'N_min'
        elif r < 0.5 and solver == 'lanczos':
            opts['E_shift'] = rng.choice([-2.0, 1.5])
            tag = 'E_shift'
        elif r < 0.6:
            opts['cutoff'] = 1e-12
            tag = 'cutoff'
        n_cache = None
        if r >= 0.6 and r < 0.75 and solver == 'lanczos':
            n_cache = rng.choice([2, 3, 5])
            tag = 'N_cache'
        delta = rng.choice([[0, -0.25], [0, 0.5], [-0.25, 0], [0.125, 0], [-0.1, -0.2], [0, -1.0]])
        add('lanczos', solver=solver, tag=tag, dim=dim, charged=rng.random() < 0.5, options=opts, delta=delta,
            normalize=rng.choice([None, None, True, False]), seed=rng.randrange(10 ** 6),
            psi_norm=rng.choice([1.0, 1.0, 0.5, 3.0]), hermitian_input=rng.random() < 0.5, scale=rng.choice([1.0, 0.3]),
            rerun=rng.random() < 0.3, tol=1e-8, N_cache=n_cache)
    return cases


def evaluate(cases, pool=None):
    res = core.Result()
    obss = pool.map(run_case, cases, chunksize=1) if pool is not None and len(cases) > 1 else [run_case(c) for c in cases]
    for case, obs in zip(cases, obss):
        res.note_case(case, True)
        res.count('opt.check=' + case['check'])
        if case.get('tag'):
            res.count('opt.' + case['check'] + '.' + str(case['tag']).split('.order')[0])
        if 'exception' in obs:
            tag = case.get('tag') or case.get('mode') or case.get('func') or ''
            if 'combine' in str(tag):
                tag, chk = 'combine', 'tdvp'               # one signature for both TDVP engines
            elif 'Krylov_params.mpo' in str(tag):
                tag, chk = 'Krylov_params-mpo', 'tdvp'
            else:
                chk = case['check']
            res.fail('property', f'options.{chk}.{tag}.crash.{obs["exception"]}',
                     f'{obs["exception"]}: {obs["message"]}\n{obs.get("tb", "")}', case)
            continue
        for sig, detail in obs['fails']:
            res.fail('property', sig, detail + f'  [{obs.get("info")}]', case)
    return res


def run(ctx, pool=None, corpus=()):
    cases = [dict(c) for c in corpus] + gen_cases(ctx.sub_rng('opt'), thorough=not ctx.quick)
    if not ctx.quick:
        for i in range(4):
            cases += gen_cases(ctx.sub_rng(f'opt{i}'), thorough=True)
    return evaluate(cases, pool)
