"""C05 — matrix factorizations are exact, structured and charge-compatible."""
import json
import math

from vlib import core, npcgen, twoconf

PROP = 'C05'
MODEL_MODULES = ['TenpyModel.Util.J', 'TenpyModel.Core.Codec', 'TenpyModel.C05.Fact']
PROPS_MODULES = ['TenpyModel.C05.PropsCharge', 'TenpyModel.C05.PropsAssemble', 'TenpyModel.C05.PropsAlgebra', 'TenpyModel.C05.Props2']
LEVEL = 'proof'
BUDGET = {'quick': 170, 'thorough': 1500}
RULE = ('rank-2 npc Arrays with 0-3 charges (mod 1..5): built directly from two legs (blocked / sorted with duplicate '
        'sectors / arbitrary order, both directions, legs correlated so that many blocks are allowed, sectors present '
        'on one side only) or by combining legs of rank-3/4 tensors through LegPipes (sort/bunch on and off, so that '
        'as_completely_blocked wraps pipes again); blocks dropped, zeroed or made rank-deficient, _qdata shuffled, '
        'qtotal != 0, real and complex small-integer entries; for eig*/expm/speigs contractible legs in both '
        'representations (conj and flipped charges), hermitian input for eigh. Every option combination of svd '
        '(full_matrices, compute_uv, cutoff, qtotal_LR incl. non-reduced and inconsistent requests, inner_qconj, '
        'labels), qr/lq (mode, cutoff, pos_diag, qtotal_Q, inner_qconj), eigh/eig/eigvalsh/eigvals (UPLO, sort), expm, '
        'pinv, polar (left), orthogonal_columns, speigs (k below/at/above the sector size, which, sigma, '
        'return_eigenvectors). Fault injection below svd_robust (scipy gesdd raises LinAlgError -> gesvd fall-back with '
        'overwrite_a; gesdd returns NaN -> retry in _svd_worker; NaN from both drivers -> ValueError), inputs of rank 3 '
        'and invalid cutoffs (documented ValueError), and direct calls of svd_robust.svd (drivers gesdd/gesvd/invalid, '
        'overwrite_a, warn) and of tools.math qr_li/rq_li/speigs/speigsh (ndarray and matvec-only operator, k<d-1 ARPACK '
        'and dense branch, all `which`)/matvec_to_array/scalar helpers against dense references. Each case runs on the real code under both kernel '
        'configurations with a model-free numpy oracle, and on the Lean assembly model whose per-block routine is '
        'instantiated by provenance codes: legs (with flags), qtotal, _qdata, block shapes, labels are compared '
        'exactly and every dense entry of every factor must equal the entry of the per-block LAPACK result the '
        'model says it is a copy of. Non-trivial: >=1 charge and >=2 stored blocks or a piped leg.')
TRUSTED = ['Lean 4.33 kernel; axioms of every C05_* theorem ⊆ {propext, Classical.choice, Quot.sound}',
           'Mathlib modules imported by the C05 proof files (Algebra.BigOperators, Data.Matrix, LinearAlgebra.Matrix)',
           'hand-written model lean/TenpyModel/C05/{BMat,Fact}.lean + Core/{Charge,Leg,Pipe}.lean tied to '
           'tenpy/linalg/np_conserved.py by this correspondence run (exact structural diff + exact data provenance, '
           'both kernel configurations)',
           'LAPACK/scipy per-block routines (svd, qr, eigh, eig, expm): assumed to satisfy the post-conditions that '
           'the worker re-checks on every call actually made', 'numpy for the dense oracle; serialiser vlib/npcio.py']
ASSUMPTIONS = ['entries are small integers: block copies are exact, LAPACK results are compared with tolerance '
               '1e-9*max(1,|A|_F) (1e-4 for eigenvalues of non-normal blocks)',
               'theorems on dense products are stated in block-structured indices; the flat re-indexing is the '
               'bijection C05_locate_sum']

OPS = ['svd', 'svd', 'svd', 'qr', 'qr', 'lq', 'eigh', 'eig', 'eigvalsh', 'eigvals', 'expm', 'pinv', 'polar', 'ortho',
       'speigs', 'svd_robust', 'math']
DIRECT_OPS = ('svd_robust', 'math')   # numpy in / numpy out helpers: oracle only, no charge model


# ------------------------------------------------------------------------------------------------
# generators (pure data)

def partner(mods, others, q_last, qtotal):
    """charge c with q_last*c + sum(q_i*c_i) = qtotal"""
    tot = list(qtotal)
    for q, c in others:
        tot = [t - q * x for t, x in zip(tot, c)]
    return npcgen.valid(mods, [q_last * t for t in tot])


def gen_qtotal(rng, mods):
    if rng.random() < 0.5:
        return [0] * len(mods)
    return npcgen.gen_charge(rng, mods)


def derived_leg(rng, mods, base_legs, qconj, qtotal, max_blocks=4, max_size=3, mode=None):
    """a leg whose sectors mostly match combinations of sectors of base_legs"""
    nb = rng.randint(1, max_blocks)
    mode = mode or rng.choice(['blocked', 'blocked', 'sorted_dup', 'arbitrary', 'arbitrary'])
    chs = []
    for _ in range(nb):
        if rng.random() < 0.85 and all(l['charges'] for l in base_legs):
            others = [(l['qconj'], rng.choice(l['charges'])) for l in base_legs]
            chs.append(partner(mods, others, qconj, qtotal))
        else:
            chs.append(npcgen.gen_charge(rng, mods))
    if mode == 'blocked':
        uniq = []
        for c in chs:
            if c not in uniq:
                uniq.append(c)
        chs = sorted(uniq, key=npcgen.lexkey)
    elif mode == 'sorted_dup':
        chs = sorted(chs, key=npcgen.lexkey)
    sizes = [rng.choice([1, 1, 2, 2, 3][:max_size + 2]) for _ in chs]
    sizes = [min(s, max_size) for s in sizes]
    slices = [0]
    for s in sizes:
        slices.append(slices[-1] + s)
    return dict(mods=list(mods), slices=slices, charges=chs, qconj=qconj, ctor=rng.choice(['init', 'qind', 'qind']))


def conj_leg(rng, leg, how):
    if how == 'conj':
        return dict(leg, qconj=-leg['qconj'])
    return dict(leg, charges=[npcgen.valid(leg['mods'], [-x for x in c]) for c in leg['charges']],
                ctor=rng.choice(['init', 'qind']))


def gen_build(rng, mods, qtotal, square, want_tall):
    kind = rng.choices(['direct', 'combine'], weights=[3, 2])[0]
    if kind == 'direct':
        l0 = npcgen.gen_leg(rng, mods, max_blocks=4, max_size=3, allow_empty=False)
        if square:
            l1 = conj_leg(rng, l0, rng.choice(['conj', 'conj', 'flip']))
        else:
            l1 = derived_leg(rng, mods, [l0], rng.choice([1, -1]), qtotal)
        legs = [l0, l1]
        if want_tall and npcgen.leg_len(l0) < npcgen.leg_len(l1):
            legs = [l1, l0]
        labels = rng.choice([None, ['a', 'b'], ['vL', None], [None, 'p*']])
        return dict(kind='direct', legs=legs, labels=labels)
    # rank 3 / 4 tensor combined into a matrix
    if square:
        x = npcgen.gen_leg(rng, mods, max_blocks=2, max_size=2, allow_empty=False)
        y = npcgen.gen_leg(rng, mods, max_blocks=2, max_size=2, allow_empty=False)
        how = rng.choice(['conj', 'conj', 'flip'])
        legs = [x, y, conj_leg(rng, x, how), conj_leg(rng, y, how)]
        sort, bunch = rng.random() < 0.7, rng.random() < 0.7
        qc = rng.choice([1, -1])
        pipes = [dict(qconj=qc, sort=sort, bunch=bunch), dict(qconj=-qc if how == 'conj' else rng.choice([1, -1]),
                                                              sort=sort, bunch=bunch)]
        if how != 'conj':
            # flipped representation: the second pipe must be the conj of the first, physically; keep it simple
            legs = [x, y, conj_leg(rng, x, 'conj'), conj_leg(rng, y, 'conj')]
            pipes[1]['qconj'] = -qc
        return dict(kind='combine', legs=legs, groups=[[0, 1], [2, 3]], pipes=pipes,
                    tlabels=rng.choice([None, ['a', 'b', 'a*', 'b*']]), labels=None)
    shape = rng.choice(['21', '12', '22', '21', '12'])
    n_first = int(shape[0])
    n_second = int(shape[1])
    base = [npcgen.gen_leg(rng, mods, max_blocks=3 if n_first + n_second < 4 else 2, max_size=2, allow_empty=False)
            for _ in range(n_first + n_second - 1)]
    last = derived_leg(rng, mods, base, rng.choice([1, -1]), qtotal, max_blocks=3, max_size=2)
    legs = base + [last]
    if rng.random() < 0.5:
        legs = legs[::-1]
    groups = [list(range(n_first)), list(range(n_first, n_first + n_second))]
    pipes = []
    for g in groups:
        if len(g) == 1 and rng.random() < 0.7:
            pipes.append(None)
        else:
            pipes.append(dict(qconj=rng.choice([1, -1]), sort=rng.random() < 0.7, bunch=rng.random() < 0.7))
    tl = rng.choice([None, ['a', 'b', 'c', 'd'][:len(legs)]])
    return dict(kind='combine', legs=legs, groups=groups, pipes=pipes, tlabels=tl, labels=None)


def gen_opts(rng, op, mods, qtotal):
    def q():
        c = npcgen.gen_charge(rng, mods)
        if rng.random() < 0.3:   # not reduced modulo qmod
            c = [x + m * rng.choice([-1, 1]) if m > 1 else x for x, m in zip(c, mods)]
        return c
    labs = rng.choice([[None, None], ['vR', 'vL'], [None, 'x'], ['i', None]])
    if op == 'svd':
        full = rng.random() < 0.25
        uv = rng.random() < 0.85 or full
        cutoff = None if full else rng.choice([None, None, 1.0e-8, 0.7, 1.5, 1.0e3])
        if rng.random() < 0.03:   # illegal combination
            full, cutoff = True, rng.choice([1.0e-8, None])
            uv = cutoff is not None
        r = rng.random()
        qL = qR = None
        if r < 0.25:
            qL = q()
        elif r < 0.5:
            qR = q()
        elif r < 0.65:
            qL = q()
            qR = npcgen.valid(mods, [t - x for t, x in zip(qtotal, qL)])
            if rng.random() < 0.15:
                qR = q()
        return dict(full=full, uv=uv, cutoff=cutoff, qL=qL, qR=qR, iq=rng.choice([1, -1]), labels=labs,
                    aslist=rng.random() < 0.1, inject=gen_inject(rng))
    if op in ('qr', 'lq'):
        return dict(mode=rng.choice(['reduced', 'reduced', 'complete']), cutoff=rng.choice([None, None, None, 1.0e-8]),
                    pos=rng.random() < 0.5, qQ=rng.choice([None, q(), list(qtotal)]), iq=rng.choice([1, -1]),
                    labels=labs)
    if op in ('eigh', 'eigvalsh'):
        return dict(uplo=rng.choice(['L', 'U']), sort=rng.choice([None, 'm>', 'm<', '>', '<']))
    if op in ('eig', 'eigvals'):
        return dict(sort=rng.choice([None, 'm>', 'm<', '>', '<']))
    if op == 'expm':
        return {}
    if op == 'pinv':
        if rng.random() < 0.06:   # documented: cutoff must be > 0
            return dict(cutoff=rng.choice([0.0, -1.0e-3]), nomodel=True, inject=None)
        return dict(cutoff=rng.choice([1.0e-8, 1.0e-8, 1.0e-6, 1.0e-15]), inject=gen_inject(rng))
    if op == 'polar':
        if rng.random() < 0.05:   # documented: cutoff must be >= 0
            return dict(cutoff=-1.0e-3, left=rng.random() < 0.5, labels=labs, nomodel=True, inject=None)
        return dict(cutoff=rng.choice([1.0e-16, 1.0e-10, 0.0]), left=rng.random() < 0.5, labels=labs,
                    inject=gen_inject(rng))
    if op == 'ortho':
        return dict(label=rng.choice([None, 'new']))
    if op == 'speigs':
        return dict(sector=None, k=rng.choice([1, 2, 3, 3, 4, 6]), which=rng.choice(['LM', 'LR', 'SR', 'SM', 'LI', 'SI']),
                    ret_eigv=rng.random() < 0.75, sigma=rng.choice([None, None, None, None, 0.3, -1.7]))
    raise KeyError(op)


def gen_inject(rng):
    """fault injected below svd_robust (see c05_worker.Inject)"""
    return rng.choice([None] * 7 + ['linalg_error', 'nan', 'nan_always'])


def gen_direct(rng, op):
    dtype = rng.choice(['real', 'real', 'complex'])
    seed = rng.randrange(1 << 30)
    if op == 'svd_robust':
        m, n = rng.choice([(1, 1), (2, 3), (3, 2), (4, 4), (5, 2), (1, 4), (3, 3)])
        o = dict(m=m, n=n, dtype=dtype, kind=rng.choice(['random', 'random', 'rankdef', 'zero']),
                 full=rng.random() < 0.5, uv=rng.random() < 0.75, overwrite=rng.random() < 0.5,
                 driver=rng.choice(['gesdd', 'gesdd', 'gesvd', 'gesvd', 'gesdc']), warn=rng.random() < 0.6,
                 inject=rng.choice([None, None, 'linalg_error', 'linalg_error', 'spy']))
        return dict(op=op, opts=o, seed=seed)
    fn = rng.choice(['qr_li', 'rq_li', 'speigs', 'speigs', 'speigs', 'speigsh', 'speigsh', 'speigsh', 'matvec_to_array',
                     'scalar_helpers'])
    if fn in ('qr_li', 'rq_li'):
        m, n = rng.choice([(1, 1), (2, 3), (3, 2), (4, 4), (5, 2), (2, 5), (3, 3)])
        o = dict(fn=fn, m=m, n=n, dtype=dtype, kind=rng.choice(['random', 'rankdef', 'rankdef', 'zero']),
                 cutoff=rng.choice([1.0e-15, 1.0e-10, 1.0e-8]))
    elif fn == 'scalar_helpers':
        d = rng.choice([1, 3, 5])
        o = dict(fn=fn, m=d, n=d, dtype='real', kind='random')
    elif fn == 'matvec_to_array':
        d = rng.choice([1, 2, 4])
        o = dict(fn=fn, m=d, n=d, dtype=dtype, kind='random')
    else:
        d = rng.choice([1, 2, 3, 4, 5, 6, 7])
        herm = fn == 'speigsh'
        which = rng.choice(['LM', 'SM', 'LA', 'SA'] if herm else ['LM', 'SM', 'LR', 'SR', 'LI', 'SI'])
        o = dict(fn=fn, m=d, n=d, dtype=dtype, kind='hermitian' if herm else rng.choice(['random', 'random', 'rankdef']),
                 k=rng.choice([1, 2, 3, d - 1 if d > 1 else 1, d, d + 2]), which=which,
                 ret_eigv=rng.random() < 0.6, linop=rng.random() < 0.4)
        if rng.random() < 0.05:   # not square: documented ValueError
            o['n'] = d + 1
            o['kind'] = 'random'
    return dict(op=op, opts=o, seed=seed)



def gen_case(rng, op=None):
    op = op or rng.choice(OPS)
    if op in DIRECT_OPS:
        return gen_direct(rng, op)
    mods = npcgen.gen_mods(rng)
    square = op in ('eigh', 'eig', 'eigvalsh', 'eigvals', 'expm', 'speigs')
    qtotal = gen_qtotal(rng, mods)
    if square and rng.random() < 0.93:
        qtotal = [0] * len(mods)
    build = gen_build(rng, mods, qtotal, square, want_tall=(op == 'ortho'))
    if square and rng.random() < 0.04 and build['kind'] == 'direct':   # not contractible / not square
        build['legs'][1] = derived_leg(rng, mods, [build['legs'][0]], -build['legs'][0]['qconj'], qtotal)
    opts = gen_opts(rng, op, mods, qtotal)
    if op == 'speigs':
        l0 = build['legs'][0]
        opts['sector'] = (npcgen.valid(mods, [l0['qconj'] * x for x in rng.choice(l0['charges'])])
                          if rng.random() < 0.9 and build['kind'] == 'direct' else npcgen.gen_charge(rng, mods))
    if rng.random() < 0.03:   # not a matrix: the documented ValueError
        legs3 = [npcgen.gen_leg(rng, mods, max_blocks=2, max_size=2, allow_empty=False) for _ in range(2)]
        legs3.append(derived_leg(rng, mods, legs3, rng.choice([1, -1]), qtotal, max_blocks=2, max_size=2))
        build = dict(kind='rank3', legs=legs3)
        opts = dict(opts, nomodel=True)
        if 'inject' in opts:
            opts['inject'] = None
    pattern = dict(drop=rng.choice([0, 0, 0.3, 0.6]), zero=rng.choice([0, 0, 0.2]), rankdef=rng.choice([0, 0.3, 0.5]))
    if op == 'ortho' and rng.random() < 0.7:
        pattern['rankdef'] = 0
        pattern['zero'] = 0
    case = dict(op=op, opts=opts, mods=mods, build=build, qtotal=qtotal,
                dtype=rng.choice(['real', 'real', 'complex']), seed=rng.randrange(1 << 30), pattern=pattern,
                shuffle=rng.random() < 0.3)
    if op in ('eigh', 'eigvalsh'):
        case['hermitian'] = True
        case['purge'] = rng.random() < 0.5
    if op == 'expm':
        case['range'] = [-2, 2]
    return case


# ------------------------------------------------------------------------------------------------
# corpus: the defects found while building this check (replayed first)

_L = dict(mods=[1], slices=[0, 2, 3], charges=[[0], [1]], qconj=1, ctor='qind')
_LC = dict(_L, qconj=-1)
CORPUS = [
    # svd(full_matrices=True), one diagonal sector not stored: U has a zero block instead of the identity
    dict(op='svd', opts=dict(full=True, uv=True, cutoff=None, qL=None, qR=None, iq=1, labels=[None, None]), mods=[1],
         build=dict(kind='direct', legs=[_L, _LC], labels=None), qtotal=[0], dtype='real', seed=3,
         pattern=dict(drop=0.6), shuffle=False),
    # svd(full_matrices=True) with a.qtotal != 0: VH violates the charge rule
    dict(op='svd', opts=dict(full=True, uv=True, cutoff=None, qL=None, qR=None, iq=1, labels=[None, None]), mods=[1],
         build=dict(kind='direct', legs=[_L, dict(mods=[1], slices=[0, 2, 3], charges=[[1], [2]], qconj=-1, ctor='qind')],
                    labels=None), qtotal=[-1], dtype='real', seed=1, pattern={}, shuffle=False),
    # qr(pos_diag_R=True) on a rank-deficient block: division by |r_ii| = 0
    dict(op='qr', opts=dict(mode='reduced', cutoff=None, pos=True, qQ=None, iq=1, labels=[None, None]), mods=[1],
         build=dict(kind='direct', legs=[_L, _LC], labels=None), qtotal=[0], dtype='real', seed=5,
         pattern=dict(zero=1.0), shuffle=False),
    # qr(mode='complete', cutoff=...): blocks of Q do not fit its legs
    dict(op='qr', opts=dict(mode='complete', cutoff=1.0e-8, pos=False, qQ=None, iq=1, labels=[None, None]), mods=[1],
         build=dict(kind='direct', legs=[_L, _LC], labels=None), qtotal=[0], dtype='real', seed=5,
         pattern=dict(rankdef=1.0), shuffle=False),
    # polar(left=True): W.iscale_axis(s) scales W in place before W.conj() is taken: p = W S^2 W^dagger
    dict(op='polar', opts=dict(cutoff=1.0e-16, left=True, labels=[None, None]), mods=[1],
         build=dict(kind='direct', legs=[_L, _LC], labels=None), qtotal=[0], dtype='real', seed=7, pattern={},
         shuffle=False),
    # speigs of a real matrix: complex eigenvectors are stored in an Array declared real
    dict(op='speigs', opts=dict(sector=[0], k=2, which='LM'), mods=[1],
         build=dict(kind='direct', legs=[dict(mods=[1], slices=[0, 5], charges=[[0]], qconj=1, ctor='qind'),
                                         dict(mods=[1], slices=[0, 5], charges=[[0]], qconj=-1, ctor='qind')],
                    labels=None), qtotal=[0], dtype='real', seed=11, pattern={}, shuffle=False),
    # speigs in a sector without stored block: np.eye(k, a.dtype) raises TypeError
    dict(op='speigs', opts=dict(sector=[1], k=1, which='LM'), mods=[1],
         build=dict(kind='direct', legs=[_L, _LC], labels=None), qtotal=[0], dtype='real', seed=11,
         pattern=dict(drop=1.0), shuffle=False),
    # svd(qtotal_LR=[list, list]): `qtotal_L + qtotal_R` concatenates the lists
    dict(op='svd', opts=dict(full=False, uv=True, cutoff=None, qL=[0], qR=[0], iq=1, labels=[None, None], aslist=True),
         mods=[1], build=dict(kind='direct', legs=[_L, _LC], labels=None), qtotal=[0], dtype='real', seed=3,
         pattern={}, shuffle=False),
]


def load_corpus():
    """corpus/C05/*.json (witnesses of the defects found, replayed first); the inline list is the fallback"""
    d = core.CORPUS_DIR / PROP
    files = sorted(d.glob('*.json')) if d.exists() else []
    loaded = [json.loads(f.read_text()) for f in files]
    return loaded + [c for c in CORPUS if c not in loaded]


def cases_for(ctx, tag, n):
    rng = ctx.sub_rng(tag)
    return [gen_case(rng) for _ in range(n)]


# ------------------------------------------------------------------------------------------------
# model vs implementation

def same_num(x, y):
    if isinstance(x, list) or isinstance(y, list):
        x = x if isinstance(x, list) else [x, 0.0]
        y = y if isinstance(y, list) else [y, 0.0]
        return all(same_num(p, q) for p, q in zip(x, y))
    if isinstance(x, float) and isinstance(y, float) and math.isnan(x) and math.isnan(y):
        return True
    return x == y


FIELDS = {'svd': {1: 'u', 2: 's', 3: 'vh'}, 'qr': {1: 'q', 2: 'r'}, 'lq': {1: 'q', 2: 'r'},
          'eigh': {1: 'w', 2: 'v'}, 'eig': {1: 'w', 2: 'v'}, 'eigvalsh': {1: 'w'}, 'eigvals': {1: 'w'},
          'expm': {1: 'e'}, 'ortho': {1: 'q'}}


def decode(code, op, calls, callmap):
    """number the implementation must have at a place where the model has `code`"""
    if code == 0:
        return 0.0
    if code == -1:
        return 1.0
    n = code - 1
    c, r, b, k = n % 64, (n // 64) % 64, (n // 4096) % 64, n // 262144
    name = FIELDS[op][k]
    f = calls[callmap(b)][name]
    return f[c] if name in ('s', 'w') else f[r][c]


def cmp_struct(name, impl, model, check_flags=True):
    """exact comparison of legs / qtotal / qdata / shapes; returns (key, detail) or None"""
    for i, (li, lm) in enumerate(zip(impl['legs'], model['legs'])):
        for key in ['mods', 'slices', 'charges', 'qconj'] + (['sorted', 'bunched'] if check_flags else []):
            if li[key] != lm[key]:
                return (f'{name}.leg{i}.{key}', f'impl {li[key]} model {lm[key]}')
    if impl['qtotal'] != model['qtotal']:
        return (name + '.qtotal', f'impl {impl["qtotal"]} model {model["qtotal"]}')
    if impl['qdata'] != model['qdata']:
        return (name + '.qdata', f'impl {impl["qdata"]} model {model["qdata"]}')
    if impl['shapes'] != model['shapes']:
        return (name + '.shapes', f'impl {impl["shapes"]} model {model["shapes"]}')
    return None


def cmp_dense(name, impl, model, op, calls, callmap):
    di, dm = impl['dense'], model['dense']
    if len(di) != len(dm) or any(len(x) != len(y) for x, y in zip(di, dm)):
        return (name + '.dense-shape', f'impl {len(di)} model {len(dm)}')
    for i, (ri, rm) in enumerate(zip(di, dm)):
        for jx, (x, cde) in enumerate(zip(ri, rm)):
            want = decode(cde, op, calls, callmap)
            if not same_num(x, want):
                return (name + '.data-placement', f'entry ({i},{jx}): impl {x}, model says copy of {want} (code {cde})')
    return None


def aux_for(r):
    """data-dependent decisions of the per-block routines, taken from the recorded calls"""
    op, o, calls = r['in']['op'], r['in']['opts'], r['rec']['calls']
    aux = {}
    if op in ('svd', 'pinv', 'polar') and o.get('cutoff') is not None:
        aux['keep'] = [[(s > o['cutoff']) for s in c['s']] for c in calls]
    if op in ('qr', 'lq') and o.get('cutoff') is not None:
        aux['k'] = [c['k'] for c in calls]
    if op in ('eigh', 'eig', 'eigvalsh', 'eigvals'):
        aux['perms'] = r['rec']['perms']
    return aux


def diff_model(r, m):
    op, out, rec = r['in']['op'], r['out'], r['rec']
    if 'error' in m:
        if 'error' in out:
            return None if out['error'] == m['error'] else ('error-class', f'impl {out["error"]} model {m["error"]}')
        return ('model-error', str(m['error']))
    if 'error' in out:
        if op == 'speigs' and out['error'].startswith('Arpack'):
            return None   # the sparse solver gave up (trusted base), nothing to compare
        return ('impl-error', f'impl raised {out["error"]} ({out.get("msg")}), model returned a value')
    calls = rec['calls']
    ident = lambda b: b
    if 'blocked' in m:
        if rec['blocked'] is None:
            return ('blocked.missing', '')
        if rec['blocked']['axes'] != m['piped']:
            return ('piped-axes', f'impl {rec["blocked"]["axes"]} model {m["piped"]}')
        d = cmp_struct('blocked', rec['blocked']['a'], m['blocked'])
        if d:
            return d
        if rec['blocked']['a']['blocks'] != m['blocked']['blocks']:
            return ('blocked.data', 'block contents differ')
    if op == 'svd':
        if len(out['S']) != len(m['S']):
            return ('S.length', f'impl {len(out["S"])} model {len(m["S"])}')
        for i, (x, cde) in enumerate(zip(out['S'], m['S'])):
            if not same_num(x, decode(cde, op, calls, ident)):
                return ('S.order', f'S[{i}] = {x}, model says {decode(cde, op, calls, ident)}')
        names = ['U', 'VH'] if 'U' in out else []
    elif op in ('qr', 'lq'):
        names = ['Q', 'R'] if op == 'qr' else ['L', 'Q']
    elif op in ('eigh', 'eig', 'eigvalsh', 'eigvals'):
        if len(out['W']) != len(m['W']):
            return ('W.length', '')
        for i, (x, cde) in enumerate(zip(out['W'], m['W'])):
            if not same_num(x, decode(cde, op, calls, ident)):
                return ('W.order', f'W[{i}] = {x}, model says {decode(cde, op, calls, ident)}')
        names = ['V'] if 'V' in out else []
    elif op == 'expm':
        names = ['E']
    elif op == 'ortho':
        names = ['O']
        if 'blocked' in m:
            # np.linalg.qr is only called for blocks with more rows than columns, in the order of ascending row qindex
            ba = m['blocked']
            order = sorted(range(len(ba['qdata'])), key=lambda i: ba['qdata'][i][0])
            tall = [i for i in order if ba['shapes'][i][0] > ba['shapes'][i][1]]
            ident = lambda b, tall=tall: tall.index(b)
    elif op in ('pinv', 'polar'):
        for nm in (['P'] if op == 'pinv' else ['U', 'P']):
            im, mo = dict(out[nm]), dict(m[nm])
            # the tensordot decides the storage order: compare the set of stored blocks
            zi = sorted(zip(im['qdata'], im['shapes']))
            zm = sorted(zip(mo['qdata'], mo['shapes']))
            im['qdata'], im['shapes'] = [z[0] for z in zi], [z[1] for z in zi]
            mo['qdata'], mo['shapes'] = [z[0] for z in zm], [z[1] for z in zm]
            d = cmp_struct(nm, im, mo, check_flags=False)
            if d:
                return d
        return None
    elif op == 'speigs':
        n = len(calls)
        if ('stored' in m) != (n == 1):
            return ('speigs.block-selection', f'model {m} but {n} sparse calls')
        return None
    else:
        return ('unknown-op', op)
    for nm in names:
        d = cmp_struct(nm, out[nm], m[nm])
        if d:
            return d
        if ('labels' + nm) in m and out[nm]['labels'] != m['labels' + nm]:
            return (nm + '.labels', f'impl {out[nm]["labels"]} model {m["labels" + nm]}')
        d = cmp_dense(nm, out[nm], m[nm], op, calls, ident)
        if d:
            return d
    return None


def first_diff(a, b, path=''):
    if type(a) != type(b):
        return f'{path}: {a!r} vs {b!r}'[:300]
    if isinstance(a, dict):
        for k in sorted(set(a) | set(b)):
            if a.get(k) != b.get(k):
                return first_diff(a.get(k), b.get(k), path + '.' + k)
    if isinstance(a, list) and len(a) == len(b):
        for i, (x, y) in enumerate(zip(a, b)):
            if x != y and not same_num(x, y):
                return first_diff(x, y, f'{path}[{i}]')
    return f'{path}: {a!r} vs {b!r}'[:300]


def nan_eq(a, b, rtol=0.0):
    """equality of JSON values; NaN == NaN; rtol > 0 only for results of a tensordot (BLAS gemm in the compiled
    kernels vs numpy dot in the Python kernels: last-bit differences are legitimate)"""
    if isinstance(a, dict) and isinstance(b, dict):
        return a.keys() == b.keys() and all(nan_eq(a[k], b[k], rtol) for k in a)
    if isinstance(a, list) and isinstance(b, list):
        return len(a) == len(b) and all(nan_eq(x, y, rtol) for x, y in zip(a, b))
    if isinstance(a, float) and isinstance(b, float):
        if math.isnan(a) and math.isnan(b):
            return True
        if rtol:
            return abs(a - b) <= rtol * max(1.0, abs(a), abs(b))
    return a == b


def maxabs(x):
    if isinstance(x, list):
        return max([maxabs(y) for y in x] + [0.0])
    return abs(x) if isinstance(x, float) and not math.isnan(x) else 0.0


def out_eq(a, b, rtol):
    """outputs of the two kernel configurations: exact, except (rtol > 0: results of a tensordot) dense entries,
    which are compared relative to the largest entry of the matrix"""
    if not rtol:
        return nan_eq(a, b)
    if isinstance(a, dict) and isinstance(b, dict) and a.keys() == b.keys():
        for k in a:
            if k == 'dense' and isinstance(a[k], list) and isinstance(b[k], list):
                scale = max(1.0, maxabs(a[k]))
                if not nan_eq(a[k], b[k], 0.0) and not dense_close(a[k], b[k], rtol * scale):
                    return False
            elif not out_eq(a[k], b[k], rtol):
                return False
        return True
    if isinstance(a, list) and isinstance(b, list) and len(a) == len(b) and all(isinstance(x, dict) for x in a):
        return all(out_eq(x, y, rtol) for x, y in zip(a, b))
    return nan_eq(a, b, rtol)


def is_num(x):
    return isinstance(x, float) or (isinstance(x, list) and len(x) == 2 and all(isinstance(y, float) for y in x))


def dense_close(a, b, atol):
    if is_num(a) and is_num(b) and not (isinstance(a, list) and isinstance(b, list) and False):
        pa = a if isinstance(a, list) else [a, 0.0]
        pb = b if isinstance(b, list) else [b, 0.0]
        return all((math.isnan(x) and math.isnan(y)) or abs(x - y) <= atol for x, y in zip(pa, pb))
    if isinstance(a, list) and isinstance(b, list):
        return len(a) == len(b) and all(dense_close(x, y, atol) for x, y in zip(a, b))
    return a == b


def nontrivial(r):
    if 'a' not in r['in']:
        o = r['in']['opts']
        return r['in']['op'] in DIRECT_OPS and min(o['m'], o['n']) >= 2
    a = r['in']['a']
    return len(a['legs'][0]['mods']) >= 1 and (len(a['qdata']) >= 2 or bool(r['rec']['blocked'] and r['rec']['blocked']['axes']))


def evaluate(ctx, cases, use_model=True, configs=('cy', 'py')):
    res = core.Result()
    runs = twoconf.run('harness.c05_worker', cases, configs=configs, nproc=8 if ctx.quick else 14)
    ref_cfg = configs[0]
    ref = runs[ref_cfg]['results']
    lean_in, idx = [], []
    for i, r in enumerate(ref):
        if r and 'in' in r and not r.get('nomodel'):
            lean_in.append(dict(op=r['in']['op'], opts=r['in']['opts'], a=r['in']['a'], aux=aux_for(r)))
            idx.append(i)
    models = dict(zip(idx, core.run_driver('C05', lean_in))) if use_model and lean_in else {}
    for i, case in enumerate(cases):
        r = ref[i]
        if 'crash' in r:
            res.note_case(case, False)
            res.fail('correspondence', 'c05.worker-crash', r['crash'], case)
            continue
        res.note_case(case, nontrivial(r))
        op, o = case['op'], case['opts']
        res.count('op=' + op)
        if op in DIRECT_OPS:
            res.count('dtype=' + o['dtype'])
            if op == 'math':
                res.count('math.fn=' + o['fn'])
                for k in ('which', 'ret_eigv', 'linop', 'kind'):
                    if k in o:
                        res.count(f'math.{o["fn"]}.{k}={o[k]}')
                if 'k' in o:
                    res.count('math.%s.k%sd' % (o['fn'], '<' if o['k'] < o['m'] - 1 else '>' if o['k'] > o['m'] else '~'))
            else:
                for k in ('full', 'uv', 'overwrite', 'driver', 'warn', 'inject', 'kind'):
                    res.count(f'svd_robust.{k}={o[k]}')
        else:
            res.count('ncharges=%d' % len(case['mods']))
            res.count('build=' + case['build']['kind'])
            res.count('dtype=' + case['dtype'])
            res.count('qtotal_nonzero=%s' % any(case['qtotal']))
        if 'a' in r['in']:
            res.count('piped_axes=%d' % (len(r['rec']['blocked']['axes']) if r['rec']['blocked'] else 0))
            res.count('stored_blocks=%s' % min(len(r['in']['a']['qdata']), 4))
        for k in ('full', 'uv', 'mode', 'pos', 'sort', 'iq', 'left', 'uplo', 'inject', 'ret_eigv', 'sigma', 'which'):
            if k in o and op not in DIRECT_OPS:
                res.count(f'{op}.{k}={o[k]}')
        if 'cutoff' in o:
            res.count(f'{op}.cutoff={o["cutoff"]}')
        if op == 'svd':
            res.count('svd.qtotal_LR=%s%s' % ('L' if o['qL'] is not None else '-', 'R' if o['qR'] is not None else '-'))
        if op in ('qr', 'lq'):
            res.count(f'{op}.qtotal_Q={"set" if o["qQ"] is not None else "None"}')
        if 'error' in r['out']:
            res.count('error=' + r['out']['error'])
        for sig, detail in r['oracle']:
            res.fail('property', sig, f'[{ref_cfg}] {detail}', case)
        # known finding c05.qr.complete-with-cutoff: blocks that do not fit the legs are copied from uninitialised
        # memory by split_legs -- the result is not even deterministic; only the oracle is applied to these calls
        undefined = op in ('qr', 'lq') and o['mode'] == 'complete' and o['cutoff'] is not None
        arpack = lambda x: str(x.get('out', {}).get('error', '')).startswith('Arpack')
        for cfg in configs[1:]:
            ot = runs[cfg]['results'][i]
            if 'crash' in ot:
                res.fail('correspondence', 'c05.worker-crash', f'[{cfg}] ' + ot['crash'], case)
                continue
            for sig, detail in ot.get('oracle', []):
                if sig not in [x[0] for x in r['oracle']]:
                    res.fail('property', sig, f'[{cfg}] {detail}', case)
            if (r['oracle'] or undefined) and ot.get('in') == r['in']:
                continue   # already reported as a property failure; error classes may differ between the kernels
            if arpack(ot) or arpack(r):
                continue   # the sparse solver gave up in one of the runs (random start vector): nothing to compare
            if op == 'speigs':
                # ARPACK starts from a random vector: eigenvectors differ by a phase from run to run
                same_out = ('error' in ot.get('out', {})) == ('error' in r['out']) and ot.get('in') == r['in']
                if not same_out:
                    res.fail('correspondence', 'c05.kernels-differ', f'{ref_cfg} vs {cfg}: speigs error status', case)
                continue
            rtol = 1.0e-10 if op in ('pinv', 'polar') else 0.0
            if not out_eq(ot.get('out'), r['out'], rtol) or ot.get('in') != r['in'] or not nan_eq(ot.get('rec'), r['rec']):
                k = first_diff(r.get('out'), ot.get('out')) if not out_eq(ot.get('out'), r['out'], rtol) else \
                    first_diff(r.get('rec'), ot.get('rec'), 'rec')
                res.fail('correspondence', 'c05.kernels-differ', f'{ref_cfg} vs {cfg} at {k}', case)
        if use_model and i in models:
            m = models[i]
            res.traces_validated += 1
            try:
                d = diff_model(r, m)
            except (KeyError, IndexError, ValueError, TypeError) as e:
                d = ('diff-crash', f'{type(e).__name__}: {e}')
            if d and not r['oracle'] and not undefined:
                res.fail('correspondence', f'c05.model-vs-impl.{op}.' + d[0], d[1], case)
    return res


ANCHOR_COVERAGE_NOTE = (
    '2026-09-26, quick-tier case batch (seed 0) run through harness.c05_worker under coverage --branch with '
    'TENPY_NO_CYTHON=1: anchored functions (np_conserved: svd, _svd_worker, qr, lq, eigh, eig, eigvalsh, eigvals, '
    '_eig_worker, _eigvals_worker, speigs, expm, pinv, polar, orthogonal_columns; svd_robust.svd; tools/math: qr_li, '
    'rq_li, speigs, speigsh, matvec_to_array) before: 405/462 lines (87.7%), 161/194 branches (83.0%); after: 462/462 '
    'lines, 194/194 branches. Whole files after: svd_robust.py 100%/100%, tools/math.py 100%/100% (before 45% / 34%).')


def run(ctx):
    res = core.Result()
    res.extra['anchor_coverage_note'] = ANCHOR_COVERAGE_NOTE
    n = 4000 if ctx.quick else 30000
    cases = load_corpus() + cases_for(ctx, 'main', n)
    if ctx.quick:
        res.merge(evaluate(ctx, cases))
    else:
        for k in range(0, len(cases), 5000):
            res.merge(evaluate(ctx, cases[k:k + 5000]))
    return res


def search(ctx, reasons):
    cases = load_corpus() + cases_for(ctx, 'search', 1500 if ctx.quick else 20000)
    return evaluate(ctx, cases, use_model=False)


def replay(ctx, payload):
    return evaluate(ctx, [payload['case']])
