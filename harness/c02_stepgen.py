"""C02: adaptive generation of the next step of a history from the REAL current state. Only information that does
not depend on the kernel configuration is used (ranks, shapes, leg charges, labels), so the compiled and the
pure-Python run of the same seed produce the same history. Every choice from the given PRNG."""
import itertools

import numpy as np

from harness.c02_gen import DTYPES, ALPHABET
from harness.c02_oracle import valid

MAX_SIZE = 4000
MAX_RANK = 6
MAX_LIVE = 7

WEIGHTS = dict(
    copy=5, zeros_like=1, mk_like=6, from_ndarray=2, diag=1, replace_label=2,
    itranspose=5, transpose=3, iswapaxes=4, conj=3, iconj=2,
    take_slice=4, add_trivial_leg=4, add_leg=3, squeeze=3,
    isort_qdata=4, ipurge_zeros=3, iscale_prefactor=3, mul=2, iscale_axis=3, scale_axis=1, iunary=1, unary=1, astype=1,
    setitem=6, iflip_leg=3, extend=2, gauge=3, iproject=5, permute=2, add_charge=1, drop_charge=1, change_charge=1,
    sort_legcharge=4, iadd=6, add=3, sub=2, iadd_op=2, isub_op=1, ibinary=3, binary=2,
    combine=6, as_completely_blocked=1, split=5, concatenate=3, outer=3, tensordot=8, trace=3,
    inner=1, getitem=3, setitem_npc=2, malformed=2,
    # factorizations (oracle-only steps) and multi-step plans around them
    svd=4, qr=2, lq=1, pinv=1, eigh=1, eig=1, expm=1, plan_fact=12, plan_gram=3,
)


def size(a):
    return int(np.prod(a.shape, dtype=np.int64))


def names(Hh):
    return list(Hh.env.keys())


def pick(Hh, rng, pred=lambda a: True):
    c = [n for n in names(Hh) if pred(Hh.env[n])]
    return rng.choice(c) if c else None


def free_label(a, rng):
    c = [l for l in ALPHABET + ['g', 'h', 'k'] if l not in a._labels]
    return rng.choice(c) if c and rng.random() < 0.6 else None


def legs_equal(l1, l2):
    try:
        return l1.chinfo == l2.chinfo and l1 == l2
    except ValueError:
        return False


def compatible_idx(a, rng, want=True):
    """flat indices of an entry whose block is (in)compatible with qtotal; computed from the legs only"""
    mods = [int(m) for m in a.chinfo.mod]
    qt = [int(x) for x in a.qtotal]
    grids = [range(int(l.block_number)) for l in a.legs]
    n = 1
    for g in grids:
        n *= max(len(g), 1)
    if n == 0 or n > 3000:
        return None
    cand = []
    for r in itertools.product(*grids):
        tot = [sum(int(l.charges[qi][k]) * int(l.qconj) for qi, l in zip(r, a.legs)) for k in range(len(mods))]
        ok = valid(mods, tot) == qt
        if ok == want and all(l.slices[qi + 1] > l.slices[qi] for qi, l in zip(r, a.legs)):
            cand.append(r)
    if not cand:
        return None
    r = rng.choice(cand)
    idx = [rng.randrange(int(l.slices[qi]), int(l.slices[qi + 1])) for qi, l in zip(r, a.legs)]
    if rng.random() < 0.2:
        k = rng.randrange(len(idx))
        idx[k] -= int(a.shape[k])
    return idx


def gen_mask(rng, n, leg=None):
    if leg is not None and rng.random() < 0.3 and leg.block_number > 1:  # drop whole blocks
        m = [True] * n
        for qi in range(int(leg.block_number)):
            if rng.random() < 0.4:
                for i in range(int(leg.slices[qi]), int(leg.slices[qi + 1])):
                    m[i] = False
        return m
    return [rng.random() < 0.65 for _ in range(n)]


def contractible_pairs(a, b, same):
    out = []
    for i, la in enumerate(a.legs):
        for j, lb in enumerate(b.legs):
            if same and i == j:
                continue
            try:
                if la.chinfo == lb.chinfo and la == lb.conj():
                    out.append((i, j))
            except ValueError:
                pass
    return out


def finish(Hh, rng, st):
    if len(Hh.env) >= MAX_LIVE and 'out' in st and rng.random() < 0.8:
        # forget one tensor afterwards (keeps the state small); not one the running plan still needs
        c = [n for n in names(Hh) if n not in Hh.protect.values()] if Hh.plan else names(Hh)
        if c:
            st['drop'] = rng.choice(c)
    return st


def gen_step(Hh, rng):
    while Hh.plan:   # a multi-step plan (see plan_fact) is running: its next step, generated from the state of NOW
        f = Hh.plan.pop(0)
        st = f(Hh, rng)
        if st is None:
            Hh.plan = []
            break
        return finish(Hh, rng, st)
    Hh.protect = {}
    ops = list(WEIGHTS)
    w = [WEIGHTS[o] for o in ops]
    for _ in range(40):
        op = rng.choices(ops, weights=w)[0]
        st = GEN[op](Hh, rng)
        if st is not None:
            st.setdefault('op', op)
            return finish(Hh, rng, st)
    return dict(op='copy', a=names(Hh)[0], out=Hh.fresh(), deep=True)


GEN = {}


def g(name):
    def deco(f):
        GEN[name] = f
        return f
    return deco


def any_t(Hh, rng):
    return rng.choice(names(Hh))


@g('copy')
def _(Hh, rng):
    return dict(a=any_t(Hh, rng), out=Hh.fresh(), deep=rng.random() < 0.4)


@g('zeros_like')
def _(Hh, rng):
    return dict(a=any_t(Hh, rng), out=Hh.fresh())


@g('mk_like')
def _(Hh, rng):
    n = pick(Hh, rng, lambda a: size(a) <= MAX_SIZE and all(l.block_number > 0 for l in a.legs))
    return n and dict(a=n, out=Hh.fresh(), dseed=rng.randrange(10 ** 6), dtype=rng.choice(DTYPES))


@g('from_ndarray')
def _(Hh, rng):
    n = pick(Hh, rng, lambda a: size(a) <= MAX_SIZE and all(l.block_number > 0 for l in a.legs))
    return n and dict(a=n, out=Hh.fresh())


@g('diag')
def _(Hh, rng):
    n = any_t(Hh, rng)
    a = Hh.env[n]
    ax = rng.randrange(a.rank)
    if a.shape[ax] > 12:
        return None
    return dict(a=n, out=Hh.fresh(), axis=ax, s=rng.choice([1.0, 2.0]))


@g('replace_label')
def _(Hh, rng):
    n = pick(Hh, rng, lambda a: any(l is not None for l in a._labels))
    if not n:
        return None
    a = Hh.env[n]
    old = rng.choice([l for l in a._labels if l is not None])
    new = free_label(a, rng) or 'z'
    if new in a._labels:
        return None
    return dict(a=n, out=Hh.fresh(), old=old, new=new)


def perm_axes(rng, r):
    p = list(range(r))
    rng.shuffle(p)
    if rng.random() < 0.3:
        p = [x - r if rng.random() < 0.3 else x for x in p]
    return p


@g('itranspose')
def _(Hh, rng):
    n = any_t(Hh, rng)
    r = Hh.env[n].rank
    axes = None if rng.random() < 0.2 else (list(range(r)) if rng.random() < 0.1 else perm_axes(rng, r))
    return dict(a=n, axes=axes, lab=rng.random() < 0.5)


@g('transpose')
def _(Hh, rng):
    st = GEN['itranspose'](Hh, rng)
    st['out'] = Hh.fresh()
    return st


@g('iswapaxes')
def _(Hh, rng):
    n = any_t(Hh, rng)
    r = Hh.env[n].rank
    return dict(a=n, i=rng.randrange(-r, r), j=rng.randrange(-r, r))


@g('conj')
def _(Hh, rng):
    return dict(a=any_t(Hh, rng), out=Hh.fresh())


@g('iconj')
def _(Hh, rng):
    return dict(a=any_t(Hh, rng))


@g('take_slice')
def _(Hh, rng):
    n = pick(Hh, rng, lambda a: a.rank >= 2 and all(s > 0 for s in a.shape))
    if not n:
        return None
    a = Hh.env[n]
    k = rng.randint(1, a.rank - 1)
    axes = rng.sample(range(a.rank), k)
    ind = [rng.randrange(-a.shape[x], a.shape[x]) for x in axes]
    return dict(a=n, out=Hh.fresh(), indices=ind, axes=axes, lab=rng.random() < 0.5)


@g('add_trivial_leg')
def _(Hh, rng):
    n = pick(Hh, rng, lambda a: a.rank < MAX_RANK)
    if not n:
        return None
    a = Hh.env[n]
    return dict(a=n, out=Hh.fresh(), axis=rng.randint(-a.rank, a.rank), qconj=rng.choice([1, -1]), label=free_label(a, rng))


@g('add_leg')
def _(Hh, rng):
    n = pick(Hh, rng, lambda a: a.rank < MAX_RANK and [int(m) for m in a.chinfo.mod] == Hh.mods0)
    if not n:
        return None
    a = Hh.env[n]
    pi = rng.randrange(len(Hh.pool))
    leg = Hh.pool[pi]
    if leg.ind_len == 0 or size(a) * leg.ind_len > MAX_SIZE:
        return None
    return dict(a=n, out=Hh.fresh(), leg=dict(pool=pi, conj=rng.random() < 0.5), i=rng.randrange(-leg.ind_len, leg.ind_len),
                axis=rng.randrange(-a.rank, a.rank + 1), label=free_label(a, rng))


@g('squeeze')
def _(Hh, rng):
    n = pick(Hh, rng, lambda a: any(s == 1 for s in a.shape))
    if not n:
        return None
    a = Hh.env[n]
    ones = [i for i, s in enumerate(a.shape) if s == 1]
    axes = None if rng.random() < 0.4 else rng.sample(ones, rng.randint(1, len(ones)))
    return dict(a=n, out=Hh.fresh(), axes=axes)


@g('isort_qdata')
def _(Hh, rng):
    return dict(a=any_t(Hh, rng))


@g('ipurge_zeros')
def _(Hh, rng):
    return dict(a=any_t(Hh, rng), cutoff=rng.choice([1.e-30, 0.0, 1.e-12]))


@g('iscale_prefactor')
def _(Hh, rng):
    return dict(a=any_t(Hh, rng), p=rng.choice([0.0, 0.0, 1.0, -1.0, 2.0, 0.5, 0]))


@g('mul')
def _(Hh, rng):
    return dict(a=any_t(Hh, rng), out=Hh.fresh(), p=rng.choice([0.0, 1.0, -1.0, 2.0, 0.5]), left=rng.random() < 0.5)


def scale_vec(rng, a, ax):
    leg = a.legs[ax]
    s = [float(rng.choice([1, 1, 2, -1, 0])) for _ in range(int(a.shape[ax]))]
    if rng.random() < 0.5 and leg.block_number > 0:  # zero a whole block (ipurge_zeros then has something to remove)
        qi = rng.randrange(int(leg.block_number))
        for i in range(int(leg.slices[qi]), int(leg.slices[qi + 1])):
            s[i] = 0.0
    return s


@g('iscale_axis')
def _(Hh, rng):
    n = any_t(Hh, rng)
    a = Hh.env[n]
    ax = rng.randrange(a.rank)
    return dict(a=n, s=scale_vec(rng, a, ax), axis=ax if rng.random() < 0.7 else ax - a.rank)


@g('scale_axis')
def _(Hh, rng):
    st = GEN['iscale_axis'](Hh, rng)
    st['out'] = Hh.fresh()
    return st


@g('iunary')
def _(Hh, rng):
    return dict(a=any_t(Hh, rng))


@g('unary')
def _(Hh, rng):
    return dict(a=any_t(Hh, rng), out=Hh.fresh(), f=rng.choice(['conj', 'neg']))


@g('astype')
def _(Hh, rng):
    return dict(a=any_t(Hh, rng), out=Hh.fresh(), dtype=rng.choice(['complex128', 'float64', 'complex128']),
                copy=rng.random() < 0.5)


@g('setitem')
def _(Hh, rng):
    n = any_t(Hh, rng)
    a = Hh.env[n]
    want = rng.random() < 0.9
    idx = compatible_idx(a, rng, want=want)
    if idx is None:
        return None
    st = dict(a=n, idx=idx, x=float(rng.choice([1, 2, -3, 0])))
    if not want:
        st['expect'] = 'error'
    return st


@g('extend')
def _(Hh, rng):
    n = pick(Hh, rng, lambda a: [int(m) for m in a.chinfo.mod] == Hh.mods0)
    if not n:
        return None
    a = Hh.env[n]
    ax = rng.randrange(a.rank)
    if rng.random() < 0.4:
        extra = rng.randint(1, 2)
        el = extra
    else:
        pi = rng.randrange(len(Hh.pool))
        extra = dict(pool=pi, conj=rng.random() < 0.5)
        el = int(Hh.pool[pi].ind_len)
    if a.shape[ax] == 0 or size(a) // a.shape[ax] * (a.shape[ax] + el) > MAX_SIZE:
        return None
    return dict(a=n, out=Hh.fresh(), axis=ax if rng.random() < 0.7 else ax - a.rank, extra=extra)


@g('iflip_leg')
def _(Hh, rng):
    n = any_t(Hh, rng)
    return dict(a=n, k=rng.randrange(Hh.env[n].rank))


@g('gauge')
def _(Hh, rng):
    n = any_t(Hh, rng)
    a = Hh.env[n]
    mods = [int(m) for m in a.chinfo.mod]
    newq = None if rng.random() < 0.4 else [rng.randint(-2, 3) for _ in mods]
    return dict(a=n, out=Hh.fresh(), axis=rng.randrange(-a.rank, a.rank), newq=newq, qconj=rng.choice([None, None, 1, -1]))


@g('iproject')
def _(Hh, rng):
    n = any_t(Hh, rng)
    a = Hh.env[n]
    k = rng.randint(1, min(2, a.rank))
    axes = rng.sample(range(a.rank), k)
    masks = [gen_mask(rng, int(a.shape[x]), a.legs[x]) for x in axes]
    return dict(a=n, masks=masks, axes=axes, int_mask=rng.random() < 0.25, single=rng.random() < 0.5, lab=rng.random() < 0.5)


@g('permute')
def _(Hh, rng):
    n = pick(Hh, rng, lambda a: size(a) <= MAX_SIZE)
    if not n:
        return None
    a = Hh.env[n]
    ax = rng.randrange(a.rank)
    p = list(range(int(a.shape[ax])))
    rng.shuffle(p)
    return dict(a=n, out=Hh.fresh(), perm=p, axis=ax)


def no_zero_blocks(a):
    return all(all(l.slices[i + 1] > l.slices[i] for i in range(int(l.block_number))) for l in a.legs)


@g('add_charge')
def _(Hh, rng):
    n = pick(Hh, rng, lambda a: a.chinfo.qnumber in (1, 2) and size(a) <= MAX_SIZE and no_zero_blocks(a)
             and all(s > 0 for s in a.shape))
    if not n:
        return None
    a = Hh.env[n]
    k = rng.randrange(a.chinfo.qnumber)
    return dict(a=n, out=Hh.fresh(), col=k, mod2=int(a.chinfo.mod[k]))


@g('drop_charge')
def _(Hh, rng):
    n = pick(Hh, rng, lambda a: a.chinfo.qnumber >= 1 and size(a) <= MAX_SIZE and no_zero_blocks(a)
             and all(s > 0 for s in a.shape))
    if not n:
        return None
    a = Hh.env[n]
    return dict(a=n, out=Hh.fresh(), k=None if rng.random() < 0.35 else rng.randrange(a.chinfo.qnumber))


@g('change_charge')
def _(Hh, rng):
    n = pick(Hh, rng, lambda a: a.chinfo.qnumber >= 1)
    if not n:
        return None
    a = Hh.env[n]
    k = rng.randrange(a.chinfo.qnumber)
    m = int(a.chinfo.mod[k])
    # a coarser group of the same charge: U(1) -> Z_n, Z_n -> Z_d for d | n
    cand = [2, 3, 4] if m == 1 else [d for d in range(2, m) if m % d == 0]
    if not cand:
        return None
    return dict(a=n, out=Hh.fresh(), k=k, mod=rng.choice(cand))


def has_blocks(a):
    # LegPipe of a leg without blocks raises (np.concatenate([])); combine_legs names anonymous legs '?<index>', which
    # collides with a '?<index>' label left on a non-combined leg by an earlier combine_legs (labels: C01's subject)
    lab = [(l if l is not None else '?' + str(i)) for i, l in enumerate(a._labels)]
    return all(l.block_number > 0 for l in a.legs) and len(set(lab)) == len(lab)


def combine_labels_ok(a, groups):
    """labels of combine_legs(groups) as the code builds them ('?<i>' for anonymous legs, '(x.y)' for pipes) must be
    distinct, otherwise the call raises 'Duplicate label entry' (labels are C01's subject)"""
    lab = [(l if l is not None else '?' + str(i)) for i, l in enumerate(a._labels)]
    comb = [x for g in groups for x in g]
    out = [lab[i] for i in range(a.rank) if i not in comb] + ['(' + '.'.join(lab[c] for c in g) + ')' for g in groups]
    return len(set(out)) == len(out)


def blocked_independent(l):
    return len({tuple(int(x) for x in c) for c in l.charges}) == l.block_number


@g('sort_legcharge')
def _(Hh, rng):
    n = pick(Hh, rng, lambda a: size(a) <= MAX_SIZE and has_blocks(a))
    if not n:
        return None
    a = Hh.env[n]
    if rng.random() < 0.4:
        s, b = [rng.random() < 0.7] * a.rank, [rng.random() < 0.7] * a.rank
        sc = True
    else:
        s, b = [rng.random() < 0.6 for _ in range(a.rank)], [rng.random() < 0.6 for _ in range(a.rank)]
        sc = False
    if not any(x or y for x, y in zip(s, b)):
        return None
    if not combine_labels_ok(a, [[k] for k in range(a.rank) if s[k] or b[k]]):
        return None
    return dict(a=n, out=Hh.fresh(), sort=s, bunch=b, scalar_args=sc)


def addable(Hh, n):
    """names of tensors that can be added to `n` (legs equal, possibly after the label transposition)"""
    from harness.c02_oracle import label_perm
    a = Hh.env[n]
    out = []
    for m in names(Hh):
        b = Hh.env[m]
        if m == n or b.rank != a.rank or b.chinfo != a.chinfo or any(x != y for x, y in zip(a.qtotal, b.qtotal)):
            continue
        perm = label_perm(a._labels, b._labels)
        blegs = [b.legs[i] for i in perm] if perm is not None else b.legs
        if all(legs_equal(x, y) for x, y in zip(a.legs, blegs)):
            out.append(m)
    return out


def gen_bin(Hh, rng, newout):
    cands = [(n, m) for n in names(Hh) for m in addable(Hh, n)]
    if not cands:
        return None
    n, m = rng.choice(cands)
    st = dict(a=n, b=m, valid=True)   # legs/qtotal verified compatible (after the documented label transposition)
    if newout:
        st['out'] = Hh.fresh()
    return st


@g('iadd')
def _(Hh, rng):
    st = gen_bin(Hh, rng, False)
    if st:
        st['p'] = rng.choice([1.0, -1.0, 2.0, 0.5, 0.0])
    return st


GEN['add'] = lambda Hh, rng: gen_bin(Hh, rng, True)
GEN['sub'] = lambda Hh, rng: gen_bin(Hh, rng, True)
GEN['iadd_op'] = lambda Hh, rng: gen_bin(Hh, rng, False)
GEN['isub_op'] = lambda Hh, rng: gen_bin(Hh, rng, False)


@g('ibinary')
def _(Hh, rng):
    st = gen_bin(Hh, rng, False)
    if st:
        st['f'] = rng.choice(['add', 'sub'])
    return st


@g('binary')
def _(Hh, rng):
    st = gen_bin(Hh, rng, True)
    if st:
        st['f'] = rng.choice(['add', 'sub'])
    return st


@g('combine')
def _(Hh, rng):
    n = pick(Hh, rng, lambda a: size(a) <= MAX_SIZE and has_blocks(a))
    if not n:
        return None
    a = Hh.env[n]
    r = a.rank
    ng = 1 if r < 3 or rng.random() < 0.6 else 2
    axes = list(range(r))
    rng.shuffle(axes)
    groups = []
    for _ in range(ng):
        k = rng.choice([1, 2, 2, 3])
        k = min(k, len(axes) - (ng - len(groups) - 1))
        if k <= 0:
            return None
        grp, axes = axes[:k], axes[k:]
        if rng.random() < 0.5:
            grp.sort()
        groups.append(grp)
    for grp in groups:
        nb = 1
        for x in grp:
            nb *= max(1, int(a.legs[x].block_number))
        if nb > 150:
            return None
    new_rank = r - sum(len(x) for x in groups) + ng
    new_axes = None if rng.random() < 0.6 else rng.sample(range(new_rank), ng)
    if new_axes is not None and rng.random() < 0.3:
        new_axes = [x - new_rank if rng.random() < 0.5 else x for x in new_axes]
    qconjs = [rng.choice([None, None, 1, -1]) for _ in groups]
    if not combine_labels_ok(a, groups):
        return None
    return dict(a=n, out=Hh.fresh(), groups=groups, new_axes=new_axes, qconjs=qconjs, lab=rng.random() < 0.5,
                flat=rng.random() < 0.5)


@g('as_completely_blocked')
def _(Hh, rng):
    n = pick(Hh, rng, lambda a: size(a) <= MAX_SIZE and has_blocks(a)
             and combine_labels_ok(a, [[k] for k, l in enumerate(a.legs) if not blocked_independent(l)]))
    return n and dict(a=n, out=Hh.fresh())


def is_pipe(l):
    return hasattr(l, 'q_map')


@g('split')
def _(Hh, rng):
    n = pick(Hh, rng, lambda a: any(is_pipe(l) for l in a.legs)
             and a.rank + sum(l.nlegs - 1 for l in a.legs if is_pipe(l)) <= MAX_RANK)
    if not n:
        return None
    a = Hh.env[n]
    pipes = [i for i, l in enumerate(a.legs) if is_pipe(l)]
    axes = None if rng.random() < 0.5 else rng.sample(pipes, rng.randint(1, len(pipes)))
    labels = list(a._labels)
    for ax in sorted(axes if axes is not None else pipes, reverse=True):
        labels[ax:ax + 1] = a._split_leg_label(labels[ax], a.legs[ax].nlegs)
    named = [l for l in labels if l is not None]
    if len(set(named)) != len(named):
        return None   # split labels collide with existing ones: the call raises (labels are C01's subject)
    st = dict(a=n, out=Hh.fresh(), axes=axes)
    if len(a._data) == 0:
        st['tag'] = 'no-blocks'
    return st


@g('concatenate')
def _(Hh, rng):
    cands = []
    for n in names(Hh):
        a = Hh.env[n]
        for m in names(Hh):
            b = Hh.env[m]
            if b.rank != a.rank or b.chinfo != a.chinfo or any(x != y for x, y in zip(a.qtotal, b.qtotal)):
                continue
            for ax in range(a.rank):
                if all(legs_equal(a.legs[k], b.legs[k]) for k in range(a.rank) if k != ax):
                    cands.append((n, m, ax))
    if not cands:
        return None
    n, m, ax = rng.choice(cands)
    arrs = [n, m] + ([rng.choice([n, m])] if rng.random() < 0.2 else [])
    if sum(size(Hh.env[x]) for x in arrs) > MAX_SIZE:
        return None
    return dict(arrs=arrs, out=Hh.fresh(), axis=ax, copy=rng.random() < 0.7)


@g('outer')
def _(Hh, rng):
    n, m = any_t(Hh, rng), any_t(Hh, rng)
    a, b = Hh.env[n], Hh.env[m]
    if a.rank + b.rank > MAX_RANK or size(a) * size(b) > MAX_SIZE or (a.chinfo != b.chinfo and rng.random() < 0.9):
        return None
    return dict(a=n, b=m, out=Hh.fresh())


@g('tensordot')
def _(Hh, rng):
    cands = []
    for n in names(Hh):
        for m in names(Hh):
            a, b = Hh.env[n], Hh.env[m]
            if a.chinfo != b.chinfo:
                continue
            pairs = contractible_pairs(a, b, False)
            if pairs:
                cands.append((n, m, pairs))
    if not cands:
        return None
    n, m, pairs = rng.choice(cands)
    a, b = Hh.env[n], Hh.env[m]
    rng.shuffle(pairs)
    chosen = []
    for i, j in pairs:
        if all(i != x and j != y for x, y in chosen) and len(chosen) < rng.choice([1, 1, 2, 3]):
            chosen.append((i, j))
    k = len(chosen)
    if a.rank + b.rank - 2 * k > MAX_RANK:
        return None
    sz = size(a) * size(b)
    for i, _ in chosen:
        sz //= max(1, int(a.shape[i])) ** 2
    if sz > MAX_SIZE:
        return None
    axA, axB = [i for i, _ in chosen], [j for _, j in chosen]
    # integer form when the last k legs of a meet the first k legs of b in order
    if axA == list(range(a.rank - k, a.rank)) and axB == list(range(k)) and rng.random() < 0.7:
        axes = k
    else:
        axes = [axA, axB]
    return dict(a=n, b=m, out=Hh.fresh(), axes=axes, lab=rng.random() < 0.5)


@g('trace')
def _(Hh, rng):
    cands = []
    for n in names(Hh):
        a = Hh.env[n]
        for i, j in contractible_pairs(a, a, True):
            cands.append((n, i, j))
    if not cands:
        return None
    n, i, j = rng.choice(cands)
    a = Hh.env[n]
    return dict(a=n, out=Hh.fresh(), l1=i if rng.random() < 0.8 else i - a.rank, l2=j)


@g('inner')
def _(Hh, rng):
    n = any_t(Hh, rng)
    return dict(a=n, b=n, do_conj=True)


@g('getitem')
def _(Hh, rng):
    n = pick(Hh, rng, lambda a: size(a) <= MAX_SIZE and all(s > 0 for s in a.shape)
             and not any(is_pipe(l) for l in a.legs))
    if not n:
        return None
    a = Hh.env[n]
    inds = []
    for s in a.shape:
        s = int(s)
        r = rng.random()
        if r < 0.3:
            inds.append(rng.randrange(-s, s))
        elif r < 0.5:
            inds.append(dict(s=[None, None, None]))
        elif r < 0.7:
            lo = rng.randrange(s)
            inds.append(dict(s=[lo, rng.randint(lo + 1, s), None]))
        elif r < 0.85:
            inds.append(dict(m=[rng.random() < 0.7 for _ in range(s)]))
        else:
            p = [i for i in range(s) if rng.random() < 0.7]
            rng.shuffle(p)
            inds.append(dict(i=p))
    if all(isinstance(i, int) for i in inds):
        inds[0] = dict(s=[None, None, None])
    return dict(a=n, out=Hh.fresh(), inds=inds)


@g('setitem_npc')
def _(Hh, rng):
    # a[i, :, ...] = b where b = a.take_slice(i, 0)-like tensor living in env: use b := mk via take_slice of a itself
    cands = []
    for n in names(Hh):
        a = Hh.env[n]
        if a.rank < 2 or any(is_pipe(l) for l in a.legs) or a.shape[0] == 0:
            continue
        for m in names(Hh):
            b = Hh.env[m]
            if m == n or b.rank != a.rank - 1 or b.chinfo != a.chinfo or any(is_pipe(l) for l in b.legs):
                continue
            if all(legs_equal(x, y) for x, y in zip(a.legs[1:], b.legs)):
                cands.append((n, m))
    if not cands:
        return None
    n, m = rng.choice(cands)
    a, b = Hh.env[n], Hh.env[m]
    mods = [int(x) for x in a.chinfo.mod]
    ok = [i for i in range(int(a.shape[0]))
          if valid(mods, [int(x) - int(y) * int(a.legs[0].qconj) for x, y in zip(a.qtotal, a.legs[0].to_qflat()[i])])
          == [int(x) for x in b.qtotal]]
    if not ok:
        return None
    return dict(a=n, b=m, inds=[rng.choice(ok)] + [dict(s=[None, None, None])] * (a.rank - 1))


# ------------------------------------------------------------------------------------------------------------------
# factorizations. Oracle-only steps (no model line): the factors are kept in the environment, inspected by the
# model-free oracle after this and every later step, and used as operands of later (modelled) steps.
# Not generated: svd(full_matrices=True), qr/lq(mode='complete', cutoff=...)  (known upstream issues, C05's subject)

def n_compatible(a):
    """number of block positions compatible with qtotal, from the legs only (the number of STORED blocks may depend on
    the kernel configuration: prefactor 0, explicit zero blocks); 99 if the grid is large"""
    mods = [int(m) for m in a.chinfo.mod]
    qt = [int(x) for x in a.qtotal]
    n = 1
    for l in a.legs:
        n *= max(int(l.block_number), 1)
    if n > 3000:
        return 99
    cnt = 0
    for r in itertools.product(*[range(int(l.block_number)) for l in a.legs]):
        tot = [sum(int(l.charges[qi][k]) * int(l.qconj) for qi, l in zip(r, a.legs)) for k in range(len(mods))]
        if valid(mods, tot) == qt and all(l.slices[qi + 1] > l.slices[qi] for qi, l in zip(r, a.legs)):
            cnt += 1
    return cnt


def fact_ok(a):
    # not generated: matrices that cannot have a block ('SVD found no singular values'). The dtype is NOT looked at
    # (for tensors without blocks it depends on the kernel configuration, C04): see c02_ops.run_fact
    return a.rank == 2 and 0 < size(a) <= MAX_SIZE and has_blocks(a) and n_compatible(a) > 0


def square_ok(a, op=None):
    return fact_ok(a) and all(int(x) == 0 for x in a.qtotal) and legs_equal(a.legs[0], a.legs[1].conj())


def inner_labels(a, rng):
    c = [l for l in ['vR', 'vL', 'u', 'w'] if l not in a._labels]
    if rng.random() < 0.5 or len(c) < 2:
        return [None, None]
    return rng.sample(c, 2)


def rand_q(a, rng):
    q = [rng.randint(-2, 3) for _ in a.chinfo.mod]
    # non-trivial wherever possible: a shift by q != 0 (mod N) is what reorders / wraps the charges of the new inner leg
    for i, m in enumerate(a.chinfo.mod):
        if int(m) != 1 and q[i] % int(m) == 0 and rng.random() < 0.8:
            q[i] = rng.randint(1, int(m) - 1) if int(m) > 1 else q[i]
    return q


def fact_step(Hh, rng, op, n):
    """arguments of the factorization `op` of the matrix named `n`"""
    a = Hh.env[n]
    st = dict(op=op, a=n, out=Hh.fresh())
    if op in ('svd', 'qr', 'lq'):
        st['out2'] = Hh.fresh()
        st['labels'] = inner_labels(a, rng)
        # both directions; mostly the direction of the leg the new inner leg is derived from (then the charges are only
        # shifted by the requested qtotal, not negated: the branch that has to reset the `sorted` flag on its own)
        st['inner_qconj'] = int(a.legs[1 if op == 'lq' else 0].qconj) if rng.random() < 0.55 else rng.choice([1, -1])
    if op == 'svd':
        r = rng.random()
        qL = qR = None
        if r < 0.25:
            qL = rand_q(a, rng)
        elif r < 0.5:
            qR = rand_q(a, rng)
        elif r < 0.65:
            qL = rand_q(a, rng)
            qR = [int(x) - y for x, y in zip(a.qtotal, qL)]
        st.update(cutoff=rng.choice([None, None, None, 1.e-8, 0.3]), qL=qL, qR=qR)
    elif op in ('qr', 'lq'):
        mode = 'complete' if rng.random() < 0.15 else 'reduced'
        st.update(mode=mode, cutoff=None if mode == 'complete' else rng.choice([None, None, 1.e-8]),
                  pos_diag=rng.random() < 0.4, qQ=rand_q(a, rng) if rng.random() < 0.65 else None)
    elif op == 'eigh':
        st.update(UPLO=rng.choice(['L', 'U']), sort=rng.choice([None, None, 'm>', '<', '>']))
    elif op == 'eig':
        st.update(sort=rng.choice([None, None, 'm>', 'm<']))
    elif op == 'pinv':
        st.update(cutoff=rng.choice([1.e-8, 1.e-6]))
    return st


def qr_ok(a):
    # qr / lq of a matrix with a zero-size block return Q, R whose `_qdata` lost the rows of the empty blocks while
    # `_data` kept them (upstream defect, pending_fixes/C02-qr-zero-size-block.diff, notes/C02.md): not generated
    return fact_ok(a) and no_zero_blocks(a)


def gen_fact(op):
    def f(Hh, rng):
        n = pick(Hh, rng, (lambda a: square_ok(a, op)) if op in ('eigh', 'eig', 'expm') else
                 qr_ok if op in ('qr', 'lq') else fact_ok)
        return n and fact_step(Hh, rng, op, n)
    return f


for _op in ('svd', 'qr', 'lq', 'pinv', 'eigh', 'eig', 'expm'):
    GEN[_op] = gen_fact(_op)


def p_disorder(P):
    """a step after which the block list of the matrix is typically NOT lexsorted (flag correctly False): what a
    factorization receives in real programs after itranspose / iswapaxes / permute"""
    def f(Hh, rng):
        n = P['t']
        if n not in Hh.env or Hh.env[n].rank != 2:
            return None
        a = Hh.env[n]
        r = rng.random()
        if r < 0.4:
            return dict(op='itranspose', a=n, axes=rng.choice([[1, 0], [1, 0], [-1, 0], None]), lab=rng.random() < 0.5)
        if r < 0.65:
            i, j = rng.choice([(0, 1), (1, 0), (-1, 0), (0, -1), (-2, -1)])
            return dict(op='iswapaxes', a=n, i=i, j=j)
        if r < 0.85:
            P['t'] = Hh.fresh()
            return dict(op='transpose', a=n, out=P['t'], axes=rng.choice([[1, 0], None]), lab=rng.random() < 0.5)
        ax = rng.randrange(2)
        p = list(range(int(a.shape[ax])))
        rng.shuffle(p)
        P['t'] = Hh.fresh()
        return dict(op='permute', a=n, out=P['t'], perm=p, axis=ax)
    return f


def p_factor(P, ops):
    def f(Hh, rng):
        n = P['t']
        if n not in Hh.env or not fact_ok(Hh.env[n]):
            return None
        op = rng.choice(ops)
        if op in ('eigh', 'eig', 'expm') and not square_ok(Hh.env[n], op):
            op = 'expm' if square_ok(Hh.env[n]) else 'svd'
        if op in ('qr', 'lq') and not qr_ok(Hh.env[n]):
            op = 'svd'
        st = fact_step(Hh, rng, op, n)
        P['f1'], P['f2'] = st['out'], st.get('out2', st['out'])
        return st
    return f


def p_consume(P):
    """a modelled step that TRUSTS the claims of a factor (sortedness flag, legs): sort, addition with a tensor of
    another block structure, contraction of the two factors, split of the pipe the factor inherited"""
    def f(Hh, rng):
        f1, f2 = P.get('f1'), P.get('f2')
        if f1 not in Hh.env or f2 not in Hh.env:
            return None
        x = rng.choice([f1, f2, f2])
        a = Hh.env[x]
        r = rng.random()
        if r < 0.2:
            return dict(op='isort_qdata', a=x)
        if r < 0.55 and size(a) <= MAX_SIZE and all(l.block_number > 0 for l in a.legs):
            P['z'] = Hh.fresh()
            Hh.plan.insert(0, p_add(P, x))
            return dict(op='mk_like', a=x, out=P['z'], dseed=rng.randrange(10 ** 6), dtype=rng.choice(['float64', 'complex128']))
        if r < 0.8 and f1 != f2:
            u, v = Hh.env[f1], Hh.env[f2]
            if size(u) * size(v) // max(1, int(u.shape[1])) ** 2 <= MAX_SIZE and contractible_pairs(u, v, False).count((1, 0)):
                return dict(op='tensordot', a=f1, b=f2, out=Hh.fresh(), axes=rng.choice([1, [[1], [0]]]), lab=rng.random() < 0.5)
        if any(is_pipe(l) for l in a.legs):
            st = GEN['split'](SubEnv(Hh, [x]), rng)
            if st is not None:
                st['op'] = 'split'
                return st
        return dict(op='isort_qdata', a=x)
    return f


def p_add(P, x):
    def f(Hh, rng):
        z = P.get('z')
        if x not in Hh.env or z not in Hh.env or z not in addable(Hh, x):
            return None
        op = rng.choice(['add', 'iadd', 'sub', 'binary'])
        st = dict(op=op, a=x, b=z, valid=True)
        if op != 'iadd':
            st['out'] = Hh.fresh()
        else:
            st['p'] = rng.choice([1.0, -1.0, 2.0, 0.5])
        if op == 'binary':
            st['f'] = rng.choice(['add', 'sub'])
        return st
    return f


class SubEnv:
    """view of a history restricted to some tensors (to reuse a step generator for a given operand)"""

    def __init__(self, Hh, keep):
        self._H = Hh
        self.env = {n: Hh.env[n] for n in keep}

    def __getattr__(self, k):
        return getattr(self._H, k)


def combine2(Hh, rng, n):
    """combine_legs of ALL legs of `n` into two pipes: a matrix"""
    a = Hh.env[n]
    r = a.rank
    axes = list(range(r))
    rng.shuffle(axes)
    k = rng.randint(1, r - 1)
    groups = [axes[:k], axes[k:]]
    for grp in groups:
        if rng.random() < 0.6:
            grp.sort()
        nb = 1
        for x in grp:
            nb *= max(1, int(a.legs[x].block_number))
        if nb > 150:
            return None
    if not combine_labels_ok(a, groups):
        return None
    new_axes = rng.choice([None, None, [0, 1], [1, 0], [-1, 0]])
    # two pipes of the SAME direction pair sector c with sector q-c: increasing rows meet decreasing columns, so a
    # transposition leaves the block list unsorted
    c = rng.choice([1, -1])
    qconjs = [c, c] if rng.random() < 0.6 else [rng.choice([None, 1, -1]) for _ in groups]
    return dict(op='combine', a=n, out=Hh.fresh(), groups=groups, new_axes=new_axes, qconjs=qconjs,
                lab=rng.random() < 0.5, flat=False)


@g('plan_fact')
def _(Hh, rng):
    """[combine_legs to a matrix] -> [operation leaving the block list unsorted] -> factorization -> step trusting
    the factors.  Returns the first step and queues generators of the others."""
    ok = lambda a: a.rank >= 2 and 0 < size(a) <= MAX_SIZE and has_blocks(a)  # noqa: E731
    # mostly tensors with room for several blocks: the matrix then has several charge sectors whose order matters
    n = (rng.random() < 0.85 and pick(Hh, rng, lambda a: ok(a) and n_compatible(a) >= 2)) or pick(Hh, rng, ok)
    if not n:
        return None
    a = Hh.env[n]
    P = Hh.protect = dict(t=n)
    ops = ['svd'] * 6 + ['qr', 'qr', 'lq', 'pinv']
    plan = ([p_disorder(P)] if rng.random() < 0.85 else []) + [p_factor(P, ops), p_consume(P)]
    if rng.random() < 0.4:
        plan.append(p_consume(P))
    if a.rank > 2 or not all(l.is_blocked() for l in a.legs):   # (a matrix with unblocked legs: one-leg pipes)
        first = combine2(Hh, rng, n)
        if first is None:
            return None
        P['t'] = first['out']
    else:
        first = plan.pop(0)(Hh, rng)
    if first is not None:
        Hh.plan = plan
    return first


@g('plan_gram')
def _(Hh, rng):
    """t -> conj(t) -> tensordot over all legs but one: a square matrix with contractible legs and qtotal 0
    -> [transposition] -> eigh / eig / expm / svd / pinv -> step trusting the result"""
    n = pick(Hh, rng, lambda a: a.rank >= 2 and 0 < size(a) <= 400 and has_blocks(a) and min(a.shape) <= 12)
    if not n:
        return None
    a = Hh.env[n]
    keep = rng.choice([i for i in range(a.rank) if a.shape[i] <= 12])
    P = Hh.protect = dict(t=n, c=Hh.fresh())
    others = [i for i in range(a.rank) if i != keep]
    rng.shuffle(others)

    def p_gram(Hh, rng):
        if n not in Hh.env or P['c'] not in Hh.env:
            return None
        P['t'] = Hh.fresh()
        return dict(op='tensordot', a=n, b=P['c'], out=P['t'], axes=[list(others), list(others)], lab=rng.random() < 0.5)

    ops = ['eigh', 'eigh', 'eig', 'expm', 'svd', 'pinv']
    Hh.plan = [p_gram] + ([p_disorder(P)] if rng.random() < 0.5 else []) + [p_factor(P, ops), p_consume(P)]
    return dict(op='conj', a=n, out=P['c'])


@g('malformed')
def _(Hh, rng):
    """argument errors: the call must raise and leave every tensor as it was"""
    n = any_t(Hh, rng)
    a = Hh.env[n]
    r = a.rank
    bad = rng.choice([r, r, r + 1, -r - 1])
    st = _malformed(Hh, rng, n, a, r, bad)
    if st is not None and bad == r and 'tag' not in st:
        st['tag'] = 'axis-eq-rank'
    return st


def _malformed(Hh, rng, n, a, r, bad):
    kind = rng.choice(['iproject', 'iswapaxes', 'itranspose', 'take_slice', 'iscale_axis', 'squeeze', 'gauge', 'permute',
                       'extend', 'trace', 'setitem', 'iproject2', 'take_slice_dup'])
    if kind == 'take_slice_dup':
        if r < 2 or any(x == 0 for x in a.shape):
            return None
        ax = rng.randrange(r)
        return dict(op='take_slice', a=n, out=Hh.fresh(), indices=[0, 0], axes=[ax, ax], expect='error', tag='duplicate-axes')
    if kind == 'iproject':
        ax = rng.randrange(r)
        return dict(op='iproject', a=n, masks=[gen_mask(rng, int(a.shape[ax])), gen_mask(rng, int(a.shape[ax]))],
                    axes=[ax, bad], expect='error')
    if kind == 'iproject2':
        ax = rng.randrange(r)
        return dict(op='iproject', a=n, masks=[gen_mask(rng, int(a.shape[ax]))], axes=[bad], single=True, expect='error')
    if kind == 'iswapaxes':
        return dict(op='iswapaxes', a=n, i=rng.randrange(r), j=bad, expect='error')
    if kind == 'itranspose':
        ax = list(range(r))
        ax[rng.randrange(r)] = bad
        return dict(op='itranspose', a=n, axes=ax, expect='error')
    if kind == 'take_slice':
        return dict(op='take_slice', a=n, out=Hh.fresh(), indices=[0], axes=[bad], expect='error')
    if kind == 'iscale_axis':
        return dict(op='iscale_axis', a=n, s=[1.0], axis=bad, expect='error')
    if kind == 'squeeze':
        return dict(op='squeeze', a=n, out=Hh.fresh(), axes=[bad], expect='error')
    if kind == 'gauge':
        return dict(op='gauge', a=n, out=Hh.fresh(), axis=bad, newq=None, qconj=None, expect='error')
    if kind == 'permute':
        return dict(op='permute', a=n, out=Hh.fresh(), perm=[0], axis=bad, expect='error')
    if kind == 'extend':
        return dict(op='extend', a=n, out=Hh.fresh(), axis=bad, extra=1, expect='error')
    if kind == 'trace':
        return dict(op='trace', a=n, out=Hh.fresh(), l1=0, l2=bad, expect='error')
    idx = [0] * r
    k = rng.randrange(r)
    idx[k] = int(a.shape[k]) if rng.random() < 0.5 else -int(a.shape[k]) - 1
    return dict(op='setitem', a=n, idx=idx, x=1.0, expect='error')


from harness import c02_cover  # noqa: E402,F401  (registers the coverage-round generators)
