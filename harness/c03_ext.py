"""C03 extension — network level: MPS / MPO containers (constructors, copies, accessors, entry-replacing in-place
methods, index normalisation, option parsing, error branches) against the Lean model `TenpyModel.C03.ExtNet`.

Two roles:
  * worker (``python -m harness.c03_ext <cases.json> <out.json>``, run under both kernel configurations through
    vlib.twoconf): a typed random walk over the REAL tenpy calls with caller-owned lists / tensors / singular-value
    arrays that stay alive and are edited afterwards; records per step the model step (with value-dependent hints),
    the identity fingerprint of every registered object and applies the model-free oracle;
  * `run_ext(ctx, res, budget)`: called from harness/C03.py — generates the cases, runs the workers, pipes the recorded
    steps through the Lean driver (`"net": true`) and compares result + sharing relation after every step.
"""
import json
import random
import sys
import traceback
import warnings

import numpy as np

warnings.simplefilter('ignore')

ERR = {'ValueError': 1, 'IndexError': 2, 'TypeError': 3, 'AssertionError': 4, 'KeyError': 5}
BC = {'finite': 0, 'segment': 1, 'infinite': 2}
FORMS = {'A': (1., 0.), 'C': (0.5, 0.5), 'B': (0., 1.), 'G': (0., 0.), 'Th': (1., 1.), None: None}


def enc_e(x):
    return 0 if x is None else int(round(2 * x)) + 1


def enc_form(f):
    if isinstance(f, str) or f is None:
        f = FORMS[f]
    if f is None:
        return 0
    return 1 + enc_e(f[0]) + 4 * enc_e(f[1])


def form_json(f):
    if isinstance(f, str) or f is None:
        f = FORMS[f]
    if f is None:
        return None
    return [None if x is None else int(round(2 * x)) for x in f]


def enc_id(v):
    if v is None:
        return 0
    v = int(v)
    return 2 * v + 1 if v >= 0 else 2 * (-v)


# ----------------------------------------------------------------------------------------------------------------
# worker
# ----------------------------------------------------------------------------------------------------------------


class Skip(Exception):
    pass


class NetWalk:
    def __init__(self, case, cy):
        from harness import c03_worker as W
        from tenpy.linalg import np_conserved as npc
        from tenpy.linalg import charges
        from tenpy.networks.mps import MPS
        from tenpy.networks.mpo import MPO
        self.W, self.npc, self.ch, self.MPS, self.MPO = W, npc, charges, MPS, MPO
        self.case, self.cy = case, cy
        self.rng = random.Random(case['seed'])
        self.H = W.Hist(cy)            # identities (cid / cbase), array fingerprints / observations
        self.A, self.TL, self.S, self.SL, self.VL, self.P, self.O = [], [], [], [], [], [], []
        self.VLkind = []               # 'form' | 'id'
        self.aidx = {}                 # id(Array) -> index
        self.sidx = {}                 # id(base ndarray) -> index
        self.sites = []                # site objects (token = index)
        self.steps, self.fps, self.ops, self.oracle = [], [], [], []
        self.changed, self.targets = [], []   # per step: [kind, index] of every registered object that changed / in-place tensor target
        self.setS_log = set()                  # (id(MPS), id(array)): arrays handed to set_SL / set_SR (documented: no copy)
        self.caller_S = set()                  # ids of the arrays created by the caller (mk_s)
        self.imported_legs = set()
        self.malformed = 0

    # ---------------------------------------------------------------- registry
    def reg_a(self, a):
        if id(a) not in self.aidx:
            self.aidx[id(a)] = len(self.A)
            self.A.append(a)
            self.H.keep[('arr', id(a))] = a
        return self.aidx[id(a)]

    def reg_s(self, s):
        b = self.W.base_of(s)
        if id(b) not in self.sidx:
            self.sidx[id(b)] = len(self.S)
            self.S.append(b)
            self.H.keep[('s', id(b))] = b
        return self.sidx[id(b)]

    def site_tok(self, s):
        for k, x in enumerate(self.sites):
            if x is s:
                return k
        self.sites.append(s)
        return len(self.sites) - 1

    def scan(self):
        for p in self.P:
            for B in p._B:
                self.reg_a(B)
            for s in p._S:
                if s is not None:
                    self.reg_s(s)
        for H in self.O:
            for w in H._W:
                self.reg_a(w)

    # ---------------------------------------------------------------- fingerprints (same JSON shape as the driver)
    def fp_arr(self, a):
        d = self.H.fp_arr(a)
        d['id'] = self.H.cid(a)
        d['dtype'] = self.W.dcode(a.dtype)
        return d

    def fp_tl(self, l):
        return dict(id=self.H.cid(l), items=[self.H.cid(x) for x in l])

    def fp_s(self, s):
        return dict(id=self.H.cid(s), vals=[int(round(float(x))) for x in np.asarray(s).ravel()])

    def fp_sl(self, l):
        return dict(id=self.H.cid(l), items=[None if x is None else self.H.cid(self.W.base_of(x)) for x in l])

    def fp_vl(self, l, kind):
        if kind == 'form':
            vals = [enc_form(x) for x in l]
        elif kind == 'id':
            vals = [enc_id(x) for x in l]
        else:
            vals = [self.site_tok(x) for x in l]
        return dict(id=self.H.cid(l), vals=vals)

    def fp_mps(self, p):
        return dict(B=self.fp_tl(p._B), S=self.fp_sl(p._S), form=self.fp_vl(p.form, 'form'), sites=self.fp_vl(p.sites, 'site'),
                    bc=BC.get(p.bc, 3), dtype=self.W.dcode(p.dtype))

    def fp_mpo(self, H):
        return dict(W=self.fp_tl(H._W), IdL=self.fp_vl(H.IdL, 'id'), IdR=self.fp_vl(H.IdR, 'id'), sites=self.fp_vl(H.sites, 'site'),
                    bc=BC.get(H.bc, 3), dtype=self.W.dcode(H.dtype))

    def fingerprint(self, res):
        return dict(res=res, arrs=[self.fp_arr(a) for a in self.A], tls=[self.fp_tl(l) for l in self.TL],
                    ss=[self.fp_s(s) for s in self.S], sls=[self.fp_sl(l) for l in self.SL],
                    vls=[self.fp_vl(l, k) for l, k in zip(self.VL, self.VLkind)], mps=[self.fp_mps(p) for p in self.P],
                    mpo=[self.fp_mpo(H) for H in self.O])

    # ---------------------------------------------------------------- observations (model-free oracle)
    def obs_mps(self, p):
        return ([self.W.Hist.obs_arr(B) for B in p._B], [None if s is None else np.asarray(s).tobytes() for s in p._S],
                [enc_form(f) for f in p.form], [id(s) for s in p.sites], p.bc, str(p.dtype))

    def obs_mpo(self, H):
        return ([self.W.Hist.obs_arr(w) for w in H._W], [enc_id(x) for x in H.IdL], [enc_id(x) for x in H.IdR],
                [id(s) for s in H.sites], H.bc, str(H.dtype))

    def snapshot(self):
        return dict(a=[self.W.Hist.obs_arr(a) for a in self.A], tl=[[id(x) for x in l] for l in self.TL],
                    s=[np.asarray(s).tobytes() for s in self.S], sl=[[id(x) if x is not None else None for x in l] for l in self.SL],
                    vl=[[repr(x) for x in l] for l in self.VL], p=[self.obs_mps(p) for p in self.P],
                    o=[self.obs_mpo(H) for H in self.O])

    def hard_ids(self, a):
        """containers through which an in-place method on `a` writes (the total charge array is never written)"""
        return {id(a.legs), id(a._labels), id(a._data), id(self.W.base_of(a._qdata))} | {id(self.W.base_of(t)) for t in a._data}

    def end(self, name, step, res, allowed, target=None):
        """`allowed(kind, index)` -> may this object change in this step? (decided from the documented semantics and the
        REAL object identities before the step); target: index of the tensor a tensor-level in-place method acts on"""
        self.scan()
        self.steps.append(step)
        self.ops.append(name)
        self.fps.append(self.fingerprint(res))
        now = self.snapshot()
        k = len(self.ops) - 1
        self.changed.append([[kind, i] for kind in ('a', 'p', 'o') for i, old in enumerate(self.before[kind]) if now[kind][i] != old])
        self.targets.append(target)
        for kind in ('a', 'tl', 's', 'sl', 'vl', 'p', 'o'):
            for i, old in enumerate(self.before[kind]):
                if now[kind][i] != old and not allowed(kind, i):
                    what = {'a': 'tensor', 'tl': 'caller-tensor-list', 's': 'singular-values', 'sl': 'caller-SV-list',
                            'vl': 'caller-value-list', 'p': 'MPS', 'o': 'MPO'}[kind]
                    self.oracle.append((f'c03.ext.{name}.{what}-changed', f'step {k}: {what} #{i} changed by {name} '
                                        f'(result {res}); it is neither the target nor documented to share state with it'))

    def begin(self):
        self.before = self.snapshot()
        # real identities before the step, for the excuse sets
        self.before_hard = [self.hard_ids(a) for a in self.A]
        self.before_pB = [[id(B) for B in p._B] for p in self.P]
        self.before_pS = [[id(self.W.base_of(s)) for s in p._S if s is not None] for p in self.P]
        self.before_oW = [[id(w) for w in H._W] for H in self.O]

    def holders(self, tensor_idx_set):
        """MPS / MPO storing one of these tensors"""
        ids = {id(self.A[i]) for i in tensor_idx_set}
        ps = {i for i, bs in enumerate(self.before_pB) if ids & set(bs)}
        os_ = {i for i, ws in enumerate(self.before_oW) if ids & set(ws)}
        return ps, os_

    def real(self, fn):
        """run the real call; exceptions raised inside tenpy become error results"""
        try:
            return fn(), None
        except (ValueError, IndexError, TypeError, AssertionError, KeyError) as e:
            tb = traceback.extract_tb(sys.exc_info()[2])
            if not any('tenpy' in f.filename or 'numpy' in f.filename for f in tb):
                raise
            return None, dict(err=ERR[type(e).__name__])

    # ---------------------------------------------------------------- set-up: pools of real tensors (imported)
    def import_arrays(self, arrs):
        legs, out = [], []
        for a in arrs:
            for l in a.legs:
                if id(l) not in self.imported_legs:
                    self.imported_legs.add(id(l))
                    fp = self.H.fp_leg(l)
                    legs.append(dict(id=fp[0], sl=fp[1], ch=fp[2], sub=[], qconj=int(l.qconj), sorted=bool(l.sorted),
                                     bunched=bool(l.bunched)))
            fp = self.H.fp_arr(a)
            out.append(dict(legs_list=fp['legs_list'], legs=[x[0] for x in fp['legs']], qtotal=fp['qtotal'], labels=fp['labels'],
                            data=fp['data'], blocks=fp['blocks'], qdata=fp['qdata'], keys=fp['keys'] or [],
                            dtype=self.W.dcode(a.dtype), qsorted=bool(a._qdata_sorted)))
            self.reg_a(a)
        return dict(op='import', legs=legs, arrs=out)

    def setup(self):
        from tenpy.networks.site import SpinHalfSite, SpinSite
        from tenpy.models.xxz_chain import XXZChain
        from tenpy.models.tf_ising import TFIChain
        rng = self.rng
        L = self.L = rng.choice([1, 2, 2, 3, 3, 4])
        conserve = rng.choice(['Sz', 'Sz', 'parity', None])
        self.base_bc = rng.choice(['finite', 'infinite', 'infinite'])
        site = SpinHalfSite(conserve=conserve)
        self.site = site
        sites = [site] * L
        state = [rng.choice(['up', 'down']) for _ in range(L)]
        dt = rng.choice([float, float, complex])
        psi0 = self.MPS.from_product_state(sites, state, bc=self.base_bc, unit_cell_width=L, dtype=dt)
        if rng.random() < 0.6 and L >= 2:
            from tenpy.algorithms.tebd import RandomUnitaryEvolution
            np.random.seed(self.case['seed'] % (2 ** 31))
            eng = RandomUnitaryEvolution(psi0, dict(N_steps=2, trunc_params={'chi_max': rng.choice([2, 3, 4])}))
            eng.run()
        self.psi0 = psi0
        self.begin()
        Bs = [psi0.get_B(i, form=None, copy=True) for i in range(L)]
        step = self.import_arrays(Bs)
        self.end('setup.import', step, dict(none=True), lambda k, i: False)
        self.pool_B = list(range(L))               # indices of caller-owned tensors for site 0..L-1
        self.pool_form = [psi0.form[i] for i in range(L)]
        # caller-owned singular values with small integer entries (lengths are what test_sanity checks)
        chis = [Bs[i].get_leg('vL').ind_len for i in range(L)] + [Bs[-1].get_leg('vR').ind_len]
        self.chis = chis
        self.pool_S = []
        for b in range(L + 1):
            self.pool_S.append(self.mk_s(chis[b]))
        # MPO pool
        self.pool_W = None
        if rng.random() < 0.75:
            Lm = max(2, L)
            pars = dict(L=Lm, bc_MPS='finite' if self.base_bc == 'finite' else 'infinite', conserve=conserve if conserve != 'parity' else 'parity',
                        sort_mpo_legs=False)
            try:
                M = XXZChain(dict(pars, Jxx=1., Jz=rng.choice([0.5, 1.]), hz=rng.choice([0., 0.25]))) if conserve == 'Sz' else \
                    TFIChain(dict(pars, J=1., g=rng.choice([0.5, 1.5]), conserve=conserve if conserve else None))
            except Exception:
                M = None
            if M is not None:
                H0 = M.H_MPO
                self.H0 = H0
                self.begin()
                Ws = [H0.get_W(i, copy=True) for i in range(H0.L)]
                step = self.import_arrays(Ws)
                self.end('setup.import', step, dict(none=True), lambda k, i: False)
                self.pool_W = [self.aidx[id(w)] for w in Ws]
                self.mpo_sites = list(H0.sites)

    # ---------------------------------------------------------------- caller-owned objects
    def mk_s(self, n, vals=None):
        self.begin()
        vals = vals or [self.rng.randint(1, 5) for _ in range(n)]
        s = np.array(vals, dtype=np.float64)
        k = self.reg_s(s)
        self.caller_S.add(id(s))
        self.end('mk_s', dict(op='mk_s', vals=[int(v) for v in vals]), dict(none=True), lambda kind, i: False)
        return k

    def mk_tl(self, idxs):
        self.begin()
        l = [self.A[i] for i in idxs]
        self.TL.append(l)
        self.end('mk_tl', dict(op='mk_tl', items=list(idxs)), dict(none=True), lambda kind, i: False)
        return len(self.TL) - 1

    def mk_sl(self, idxs):
        self.begin()
        l = [None if i is None else self.S[i] for i in idxs]
        self.SL.append(l)
        self.end('mk_sl', dict(op='mk_sl', items=list(idxs)), dict(none=True), lambda kind, i: False)
        return len(self.SL) - 1

    def mk_vl(self, items, kind):
        self.begin()
        l = list(items)
        self.VL.append(l)
        self.VLkind.append(kind)
        vals = [enc_form(x) for x in l] if kind == 'form' else [enc_id(x) for x in l]
        self.end('mk_vl', dict(op='mk_vl', vals=vals), dict(none=True), lambda kind_, i: False)
        return len(self.VL) - 1

    # ---------------------------------------------------------------- hints
    def tr_hint(self, B, labels=('vL', 'p', 'vR'), dtype=None):
        try:
            perm = [int(x) for x in B.get_leg_indices(list(labels))]
        except (KeyError, ValueError):
            return dict(ok=False)
        if len(perm) != B.rank:
            return dict(ok=False)
        if perm == list(range(B.rank)):
            return dict(ok=True, perm=perm)
        dt = B.dtype if dtype is None else dtype
        vf = [int(np.transpose(t.astype(dt, copy=True), perm).flags['C_CONTIGUOUS']) for t in B._data]
        return dict(ok=True, perm=perm, keys=self.W.keys_perm(B, perm), vf=vf)

    def sane_mps(self, Bs, Ss, bc, L, trs):
        """value-level part of MPS.test_sanity, re-implemented (hint for the model): labels, lengths of the singular
        values, contractible neighbours, trivial outer bonds of a finite MPS"""
        if len(Bs) != L or any(not t.get('ok', True) for t in trs):
            return True    # structural failures are the model's business
        finite = bc != 'infinite'
        for i, B in enumerate(Bs):
            i2 = i + 1 if finite else (i + 1) % L
            for s, lab in ((Ss[i] if i < len(Ss) else None, 'vL'), (Ss[i2] if i2 < len(Ss) else None, 'vR')):
                if s is not None and len(s) != B.get_leg(lab).ind_len:
                    return False
            if not finite or i + 1 < L:
                try:
                    B.get_leg('vR').test_contractible(Bs[(i + 1) % L].get_leg('vL'))
                except ValueError:
                    return False
        if bc == 'finite':
            if Bs[0].get_leg('vL').ind_len != 1 or Bs[-1].get_leg('vR').ind_len != 1:
                return False
        return True

    def sane_mpo(self, sites, Ws, bc):
        L = len(sites)
        if len(Ws) < L:
            return True
        for i in range(L):
            W = Ws[i]
            try:
                sites[i].leg.test_equal(W.get_leg('p'))
                sites[i].leg.test_contractible(W.get_leg('p*'))
                if bc == 'infinite' or i + 1 < L:
                    W.get_leg('wR').test_contractible(Ws[(i + 1) % L].get_leg('wL'))
            except (ValueError, KeyError):
                return False
        return True

    # ---------------------------------------------------------------- steps: MPS
    def op_mps_init(self):
        rng, L = self.rng, self.L
        mal = rng.random() < 0.22
        bc = self.base_bc if rng.random() < 0.7 else rng.choice(['finite', 'segment', 'infinite'])
        if self.base_bc == 'finite' and bc == 'infinite' and rng.random() < 0.7:
            bc = 'finite'
        sites = [self.site] * L
        b_idx = list(self.pool_B)
        # sometimes a permuted tensor (so that itranspose has work), sometimes a stored tensor of another MPS
        if rng.random() < 0.35:
            j = rng.randrange(L)
            b_idx[j] = self.transposed_of(b_idx[j])
        if self.P and rng.random() < 0.25:
            p = rng.choice(self.P)
            if p.L == L:
                b_idx = [self.aidx[id(B)] for B in p._B]
        s_idx = list(self.pool_S)
        nS = L + 1
        if bc == 'infinite' and rng.random() < 0.5:
            s_idx = s_idx[:L]
        form = rng.choice(['B', 'B', None, 'list', 'list', 'list1', (0., 1.), 'A'])
        kind = None
        if mal:
            kind = rng.choice(['short_S', 'short_B', 'long_B', 'form_len', 'bad_bc', 'no_sites', 'no_B', 'label', 'wrong_S_len', 'none_S'])
            self.malformed += 1
            if kind == 'short_S':
                s_idx = s_idx[:rng.randrange(0, L)]
            elif kind == 'short_B' and L > 1:
                b_idx = b_idx[:-1]
            elif kind == 'long_B':
                b_idx = b_idx + [b_idx[0]]
            elif kind == 'form_len':
                form = 'badlist'
            elif kind == 'bad_bc':
                bc = 'periodic'
            elif kind == 'no_sites':
                sites = []
            elif kind == 'no_B':
                b_idx = []
            elif kind == 'label':
                j = rng.randrange(len(b_idx))
                b_idx[j] = self.relabelled_of(b_idx[j])
            elif kind == 'wrong_S_len':
                j = rng.randrange(len(s_idx))
                s_idx[j] = self.mk_s(self.chis[min(j, L)] + 1)
            elif kind == 'none_S':
                j = rng.randrange(len(s_idx))
                s_idx[j] = None
        tl = self.mk_tl(b_idx)
        sl = self.mk_sl(s_idx)
        if form in ('list', 'list1', 'badlist'):
            n = {'list': L, 'list1': 1, 'badlist': L + 1 if L > 0 else 2}[form]
            if form == 'badlist' and n == 1:
                n = 3
            items = [rng.choice(['B', 'A', 'C', None, (0., 1.), (1., 0.)]) for _ in range(n)]
            if form == 'list' and rng.random() < 0.7:
                items = [self.pool_form[i] if i < len(self.pool_form) else 'B' for i in range(n)]
            vl = self.mk_vl(items, 'form')
            form_arg, form_json_ = self.VL[vl], dict(list=vl)
        else:
            form_arg, form_json_ = form, dict(one=enc_form(form))
        Bs, Ss = self.TL[tl], self.SL[sl]
        dtype = np.result_type(*[B.dtype for B in Bs]) if Bs else None
        trs = [self.tr_hint(B, dtype=dtype) for B in Bs]
        # values as the constructor sees them (finite: outer singular values are replaced by ones)
        Ss_eff = list(Ss)
        if bc == 'finite':
            Ss_eff = [np.ones(1)] + list(Ss[1:L]) + [np.ones(1)]
        sane = self.sane_mps(Bs, Ss_eff, bc, len(sites), trs)
        self.begin()
        r, err = self.real(lambda: self.MPS(sites, Bs, Ss, bc=bc, form=form_arg, unit_cell_width=max(1, len(sites))))
        if err is None:
            self.P.append(r)
            res = dict(p=len(self.P) - 1)
        else:
            res = err
        step = dict(op='mps_init', sites=[self.site_tok(s) for s in sites], Bs=tl, SVs=sl, bc=BC.get(bc, 3), form=form_json_, ts=trs,
                    sane=sane)
        self.end('mps_init' + ('.malformed' if mal else ''), step, res, lambda k, i: False)
        if err is None:
            self.check_independent('mps_init', r, Bs, Ss)

    def check_independent(self, name, p, sources, svs=None):
        """the constructor copies: no stored tensor may share a writable container with a source tensor, no singular
        value array may be a caller's array"""
        src = set()
        for B in sources:
            src |= self.hard_ids(B)
        for j, B in enumerate(p._B):
            if self.hard_ids(B) & src or any(B is x for x in sources):
                self.oracle.append((f'c03.ext.{name}.stored-tensor-shares-state',
                                    f'step {len(self.ops) - 1}: stored tensor {j} of the new MPS shares a writable container with an argument'))
                break
        given = {id(self.W.base_of(x)) for x in (svs or []) if x is not None}
        for j, sv in enumerate(p._S):
            if sv is not None and id(self.W.base_of(sv)) in given:
                self.oracle.append((f'c03.ext.{name}.stored-singular-values-are-the-argument',
                                    f'step {len(self.ops) - 1}: entry {j} of _S is (a view of) an array of the SVs argument: the constructor must copy'))
                break

    def check_copy(self, name, r):
        """`copy=True`: "always return a copy" — the result may not be, or share a writable container with, a registered tensor"""
        mine = self.hard_ids(r)
        for j, a in enumerate(self.A):
            if a is r or (self.hard_ids(a) & mine):
                self.oracle.append((f'c03.ext.{name}.copy-shares-state',
                                    f'step {len(self.ops)}: {name}(copy=True) returned a tensor that is / shares a writable container with tensor #{j}'))
                return

    def transposed_of(self, i):
        a = self.A[i]
        perm = list(range(a.rank))
        self.rng.shuffle(perm)
        self.begin()
        r = a.transpose(perm)
        k = self.reg_a(r)
        trivial = perm == list(range(a.rank))
        step = dict(op='arr', calls=[self.W.call('transpose', a=[i], b=[trivial], l=[perm, self.W.keys_of(r)], res='a')])
        self.end('arr.transpose', step, dict(none=True), lambda kind, j: False)
        return k

    def relabelled_of(self, i):
        a = self.A[i]
        self.begin()
        r = a.replace_label(self.rng.randrange(a.rank), 'q')
        k = self.reg_a(r)
        step = dict(op='arr', calls=[self.W.call('replace_label', a=[i], res='a')])
        self.end('arr.replace_label', step, dict(none=True), lambda kind, j: False)
        return k

    @staticmethod
    def eff_S(p):
        """singular values as a constructor called on this MPS's lists sees them"""
        Ss = list(p._S)
        if p.bc == 'finite':
            Ss = [np.ones(1)] + Ss[1:p.L] + [np.ones(1)]
        return Ss

    def pick_p(self):
        if not self.P:
            raise Skip()
        return self.rng.randrange(len(self.P))

    def rand_i(self, L):
        r = self.rng.random()
        if r < 0.7:
            return self.rng.randrange(L)
        return self.rng.randint(-2 * L - 1, 2 * L + 1)

    def op_mps_copy(self):
        k = self.pick_p()
        p = self.P[k]
        sane = self.sane_mps(list(p._B), self.eff_S(p), p.bc, p.L, [])
        self.begin()
        r, err = self.real(p.copy)
        if err is None:
            self.P.append(r)
            res = dict(p=len(self.P) - 1)
        else:
            res = err
        self.end('mps_copy', dict(op='mps_copy', p=k, sane=sane), res, lambda kind, i: False)
        if err is None:
            self.check_independent('mps_copy', r, list(p._B), list(p._S))

    def op_get_B(self):
        k = self.pick_p()
        p = self.P[k]
        i = self.rand_i(p.L)
        form = self.rng.choice(['B', 'B', None, None, 'A', 'C', 'Th', 'G', (1., None), (None, 0.), (0.5, None), 'stored'])
        if form == 'stored':
            form = p.form[i % p.L]
        copy = self.rng.random() < 0.4
        label_p = self.rng.random() < 0.15
        fit = [True, True]
        try:
            j = i % p.L
            jr = j + 1 if p.finite else (i + 1) % p.L
            for side, (sv, lab) in enumerate(((p._S[j], 'vL'), (p._S[jr], 'vR'))):
                if sv is not None and np.asarray(sv).shape != (p._B[j].get_leg(lab).ind_len,):
                    fit[side] = False
        except Exception:
            pass
        self.begin()
        r, err = self.real(lambda: p.get_B(i, form=form, copy=copy, label_p='1' if label_p else None))
        if err is None:
            if copy:
                self.check_copy('get_B', r)
            res = dict(a=self.reg_a(r))
        else:
            res = err
        step = dict(op='get_B', p=k, i=i, form=form_json(form), copy=copy, label_p=label_p, fit=fit)
        self.end('get_B', step, res, lambda kind, j: False)

    def op_set_B(self):
        k = self.pick_p()
        p = self.P[k]
        i = self.rand_i(p.L)
        r = self.rng.random()
        j = i % p.L
        if r < 0.3:
            b = self.aidx[id(p._B[j])]                       # its own stored tensor again
        elif r < 0.5 and len(self.P) > 1:
            q = self.rng.choice(self.P)                      # a tensor stored in another MPS: shared afterwards
            b = self.aidx[id(q._B[j % q.L])]
        elif r < 0.7:
            b = self.transposed_of(self.aidx[id(p._B[j])])   # needs a transposition
        elif r < 0.78:
            b = self.relabelled_of(self.aidx[id(p._B[j])])   # raises after form was written
        else:
            cands = [x for x, a in enumerate(self.A) if a.rank == 3 and set(a.get_leg_labels()) == {'vL', 'p', 'vR'}]
            b = self.rng.choice(cands)
        B = self.A[b]
        form = self.rng.choice(['B', 'A', None, (0.5, 0.5), 'B'])
        t = self.tr_hint(B)
        self.begin()
        _, err = self.real(lambda: p.set_B(i, B, form=form))
        res = err or dict(none=True)
        hp, _ = self.holders({b})

        def allowed(kind, x):
            return (kind == 'p' and (x == k or x in hp)) or (kind == 'a' and x == b)
        self.end('set_B', dict(op='set_B', p=k, i=i, B=b, form=form_json(form), t=t), res, allowed)

    def op_get_S(self):
        k = self.pick_p()
        p = self.P[k]
        i = self.rand_i(p.L)
        left = self.rng.random() < 0.5
        self.begin()
        r, err = self.real(lambda: p.get_SL(i) if left else p.get_SR(i))
        if err is None:
            res = dict(none=True) if r is None else dict(s=self.reg_s(r))
        else:
            res = err
        self.end('get_S', dict(op='get_S', p=k, i=i, left=left), res, lambda kind, j: False)

    def op_set_S(self):
        k = self.pick_p()
        p = self.P[k]
        i = self.rand_i(p.L)
        left = self.rng.random() < 0.5
        r = self.rng.random()
        if r < 0.1:
            s = None
        elif r < 0.6 and self.S:
            s = self.rng.randrange(len(self.S))
        else:
            s = self.mk_s(self.rng.randint(1, 3))
        S = None if s is None else self.S[s]
        self.begin()
        _, err = self.real(lambda: p.set_SL(i, S) if left else p.set_SR(i, S))
        res = err or dict(none=True)
        if err is None and S is not None:
            self.setS_log.add((id(p), id(S)))
        self.end('set_S', dict(op='set_S', p=k, i=i, left=left, s=s), res, lambda kind, x: kind == 'p' and x == k)

    def op_mps_enlarge(self):
        k = self.pick_p()
        p = self.P[k]
        if p.L > 8:
            raise Skip()
        factor = self.rng.choice([2, 2, 3, 1, 0, -1])
        sane = self.sane_mps(list(p._B), list(p._S), p.bc, p.L, [])
        self.begin()
        _, err = self.real(lambda: p.enlarge_mps_unit_cell(factor))
        res = err or dict(none=True)
        self.end('mps_enlarge', dict(op='mps_enlarge', p=k, factor=factor, sane=sane), res, lambda kind, x: kind == 'p' and x == k)

    def op_mps_roll(self):
        k = self.pick_p()
        p = self.P[k]
        shift = self.rng.randint(-p.L - 1, p.L + 1)
        self.begin()
        _, err = self.real(lambda: p.roll_mps_unit_cell(shift))
        res = err or dict(none=True)
        self.end('mps_roll', dict(op='mps_roll', p=k, shift=shift), res, lambda kind, x: kind == 'p' and x == k)

    # ---------------------------------------------------------------- steps: caller edits / tensor-level in-place methods
    def op_edit_list(self):
        r = self.rng.random()
        if r < 0.35 and self.TL:
            t = self.rng.randrange(len(self.TL))
            if not self.TL[t]:
                raise Skip()
            pos = self.rng.randrange(len(self.TL[t]))
            item = self.rng.randrange(len(self.A))
            self.begin()
            self.TL[t][pos] = self.A[item]
            self.end('edit_tl', dict(op='edit_tl', tl=t, pos=pos, item=item), dict(none=True), lambda kind, x: kind == 'tl' and x == t)
        elif r < 0.6 and self.SL:
            t = self.rng.randrange(len(self.SL))
            if not self.SL[t]:
                raise Skip()
            pos = self.rng.randrange(len(self.SL[t]))
            item = self.rng.choice([None] + list(range(len(self.S))))
            self.begin()
            self.SL[t][pos] = None if item is None else self.S[item]
            self.end('edit_sl', dict(op='edit_sl', sl=t, pos=pos, item=item), dict(none=True), lambda kind, x: kind == 'sl' and x == t)
        elif self.VL:
            t = self.rng.randrange(len(self.VL))
            if not self.VL[t]:
                raise Skip()
            pos = self.rng.randrange(len(self.VL[t]))
            if self.VLkind[t] == 'form':
                v = self.rng.choice(['A', 'B', None, (1., 1.)])
                val = enc_form(v)
            else:
                v = self.rng.choice([None, 0, 1, -1])
                val = enc_id(v)
            self.begin()
            self.VL[t][pos] = v
            self.end('edit_vl', dict(op='edit_vl', vl=t, pos=pos, val=val), dict(none=True), lambda kind, x: kind == 'vl' and x == t)
        else:
            raise Skip()

    def op_edit_s(self):
        if not self.S:
            raise Skip()
        s = self.rng.randrange(len(self.S))
        arr = self.S[s]
        if arr.size == 0:
            raise Skip()
        vals = [self.rng.randint(1, 7) for _ in range(arr.size)]
        self.begin()
        # only an MPS that was GIVEN this very array through set_SL / set_SR (documented: no copy) may change with it
        # (an array made by a constructor belongs to the MPS holding it: get_SL hands it out)
        hp = {i for i, ss in enumerate(self.before_pS)
              if id(arr) in ss and (id(arr) not in self.caller_S or (id(self.P[i]), id(arr)) in self.setS_log)}
        arr[...] = np.array(vals, dtype=arr.dtype).reshape(arr.shape)
        self.end('edit_s', dict(op='edit_s', s=s, vals=vals), dict(none=True),
                 lambda kind, x: (kind == 's' and x == s) or (kind == 'p' and x in hp))

    def op_arr_inplace(self):
        """a tensor-level in-place method on a registered tensor (stored ones included: get_B(copy=False) hands them out)"""
        W = self.W
        if not self.A:
            raise Skip()
        stored = [self.aidx[id(B)] for p in self.P for B in p._B] + [self.aidx[id(w)] for H in self.O for w in H._W]
        i = self.rng.choice(stored) if stored and self.rng.random() < 0.7 else self.rng.randrange(len(self.A))
        a = self.A[i]
        if len(a._data) != len(a._qdata) or a._qdata.shape[1] != a.rank:
            raise Skip()
        kind = self.rng.choice(['iunary', 'setitem', 'iscale'])
        calls = []
        self.begin()
        tgt_hard = self.before_hard[i]
        sharing = {j for j, hs in enumerate(self.before_hard) if hs & tgt_hard}
        hp, ho = self.holders(sharing)
        if kind == 'iunary':
            a.iunary_blockwise(np.negative)
            calls.append(W.call('iunary', a=[i], n=[W.dcode(a.dtype)]))
        elif kind == 'setitem':
            if not a._data:
                raise Skip()
            b = self.rng.randrange(len(a._data))
            qi = a._qdata[b]
            idx = tuple(int(l.slices[q]) for l, q in zip(a.legs, qi))
            a[idx] = 5.0
            calls.append(W.call('setitem_scalar', a=[i], n=[b], b=[True, False]))
        else:
            if self.cy:
                calls.append(W.call('resort', a=[i], b=[False, True], l=[W.contig_flags(a)]))
            a *= 2.0
            calls.append(W.call('iscale_prefactor', a=[i], n=[W.dcode(a.dtype)], b=[False]))

        def allowed(k_, x):
            return (k_ == 'a' and x in sharing) or (k_ == 'p' and x in hp) or (k_ == 'o' and x in ho)
        self.end('arr.' + kind, dict(op='arr', calls=calls), dict(none=True), allowed, target=i)

    # ---------------------------------------------------------------- steps: MPO
    def op_mpo_init(self):
        if self.pool_W is None:
            raise Skip()
        rng = self.rng
        H0 = self.H0
        L = H0.L
        mal = rng.random() < 0.22
        bc = H0.bc
        sites = list(self.mpo_sites)
        w_idx = list(self.pool_W)
        if self.O and rng.random() < 0.3:
            H = rng.choice(self.O)
            if H.L == L:
                w_idx = [self.aidx[id(w)] for w in H._W[:L]]
        idl = rng.choice(['list', 'list', 'scalar', None])
        idr = rng.choice(['list', 'list', 'scalar', None])
        kind = None
        if mal:
            self.malformed += 1
            kind = rng.choice(['short_W', 'long_W', 'bad_bc', 'no_sites', 'no_W', 'IdL_len', 'IdR_len', 'wrong_leg'])
            if kind == 'short_W':
                w_idx = w_idx[:-1]
            elif kind == 'long_W':
                w_idx = w_idx + [w_idx[0]]
            elif kind == 'bad_bc':
                bc = 'periodic'
            elif kind == 'no_sites':
                sites = []
            elif kind == 'no_W':
                w_idx = []
            elif kind == 'IdL_len':
                idl = 'badlist'
            elif kind == 'IdR_len':
                idr = 'badlist'
            elif kind == 'wrong_leg' and L >= 2:
                w_idx[0], w_idx[1] = w_idx[1], w_idx[0]
        tl = self.mk_tl(w_idx)

        def id_arg(mode, src):
            if mode is None:
                return None, None
            if mode == 'scalar':
                v = src[0]
                return v, dict(scalar=enc_id(v))
            items = list(src)
            if mode == 'badlist':
                items = items[:-1] if rng.random() < 0.5 else items + [items[-1]]
            vl = self.mk_vl(items, 'id')
            return self.VL[vl], dict(list=vl)
        IdL, IdLj = id_arg(idl, H0.IdL)
        IdR, IdRj = id_arg(idr, H0.IdR)
        Ws = self.TL[tl]
        sane = self.sane_mpo(sites, Ws, bc)
        self.begin()
        r, err = self.real(lambda: self.MPO(sites, Ws, bc, IdL, IdR, mps_unit_cell_width=max(1, len(sites))))
        if err is None:
            self.O.append(r)
            res = dict(H=len(self.O) - 1)
        else:
            res = err
        step = dict(op='mpo_init', sites=[self.site_tok(s) for s in sites], Ws=tl, bc=BC.get(bc, 3), IdL=IdLj, IdR=IdRj, sane=sane)
        self.end('mpo_init' + ('.malformed' if mal else ''), step, res, lambda k, i: False)
        if err is None:
            src = set()
            for w in Ws:
                src |= self.hard_ids(w)
            for j, w in enumerate(r._W):
                if self.hard_ids(w) & src or any(w is x for x in Ws):
                    self.oracle.append(('c03.ext.mpo_init.stored-tensor-shares-state',
                                        f'step {len(self.ops) - 1}: stored tensor {j} of the new MPO shares a writable container with an argument'))
                    break
            if r.IdL is IdL or r.IdR is IdR:
                self.oracle.append(('c03.ext.mpo_init.keeps-caller-Id-list', f'step {len(self.ops) - 1}: the MPO holds the list object given as IdL / IdR'))

    def pick_o(self):
        if not self.O:
            raise Skip()
        return self.rng.randrange(len(self.O))

    def op_mpo_copy(self):
        k = self.pick_o()
        H = self.O[k]
        self.begin()
        r, err = self.real(H.copy)
        if err is None:
            self.O.append(r)
            res = dict(H=len(self.O) - 1)
        else:
            res = err
        self.end('mpo_copy', dict(op='mpo_copy', H=k), res, lambda kind, i: False)

    def op_get_W(self):
        k = self.pick_o()
        H = self.O[k]
        i = self.rand_i(H.L)
        copy = self.rng.random() < 0.4
        self.begin()
        r, err = self.real(lambda: H.get_W(i, copy=copy))
        if err is None and copy:
            self.check_copy('get_W', r)
        res = dict(a=self.reg_a(r)) if err is None else err
        self.end('get_W', dict(op='get_W', H=k, i=i, copy=copy), res, lambda kind, j: False)

    def op_set_W(self):
        k = self.pick_o()
        H = self.O[k]
        i = self.rand_i(H.L)
        cands = [x for x, a in enumerate(self.A) if a.rank == 4]
        w = self.rng.choice(cands)
        Wt = self.A[w]
        self.begin()
        _, err = self.real(lambda: H.set_W(i, Wt))
        res = err or dict(none=True)
        self.end('set_W', dict(op='set_W', H=k, i=i, W=w), res, lambda kind, x: kind == 'o' and x == k)

    def op_get_Id(self):
        k = self.pick_o()
        H = self.O[k]
        i = self.rand_i(H.L)
        left = self.rng.random() < 0.5
        self.begin()
        r, err = self.real(lambda: H.get_IdL(i) if left else H.get_IdR(i))
        res = dict(v=enc_id(r)) if err is None else err
        self.end('get_Id', dict(op='get_Id', H=k, i=i, left=left), res, lambda kind, j: False)

    def op_edit_Id(self):
        k = self.pick_o()
        H = self.O[k]
        left = self.rng.random() < 0.5
        lst = H.IdL if left else H.IdR
        b = self.rng.randrange(len(lst))
        v = self.rng.choice([None, 0, 1, -1])
        self.begin()
        lst[b] = v
        self.end('edit_Id', dict(op='edit_Id', H=k, left=left, b=b, v=enc_id(v)), dict(none=True), lambda kind, x: kind == 'o' and x == k)

    def op_mpo_enlarge(self):
        k = self.pick_o()
        H = self.O[k]
        if H.L > 8 or len(H._W) != H.L:
            raise Skip()
        factor = self.rng.choice([2, 2, 3, 1, 0])
        sane = self.sane_mpo(list(H.sites), list(H._W), H.bc)
        self.begin()
        _, err = self.real(lambda: H.enlarge_mps_unit_cell(factor))
        res = err or dict(none=True)
        self.end('mpo_enlarge', dict(op='mpo_enlarge', H=k, factor=factor, sane=sane), res, lambda kind, x: kind == 'o' and x == k)

    def op_mpo_sort(self):
        W = self.W
        k = self.pick_o()
        H = self.O[k]
        if len(H._W) != H.L or any(x is None for x in H.IdL) and False:
            raise Skip()
        labels = ['wL', 'wR', 'p', 'p*']
        # entries must be findable in the permutation (tenpy indexes `np.nonzero(...)[0][0]`)
        chi = H.chi
        for b in range(H.L + 1):
            if H.IdL[b] is not None and not (0 <= H.IdL[b] < chi[b]):
                raise Skip()
        for w in H._W:
            if len(w._data) != len(w._qdata) or set(w.get_leg_labels()) != set(labels):
                raise Skip()
        # hints: permutation of every bond (recomputed on copies), arguments of the tensor-level calls
        perms = [None] * (H.L + 1)
        trs = []
        for i, w in enumerate(H._W):
            perm = [int(x) for x in w.get_leg_indices(labels)]
            wt = w.transpose(labels)
            p, _ = wt.sort_legcharge([True, True, False, False], [True, True, False, False])
            if perms[i] is not None and perms[i] != [int(x) for x in p[0]]:
                raise Skip()      # neighbouring tensors do not fit (after set_W): tenpy's own assertion fails
            perms[i] = [int(x) for x in p[0]]
            perms[i + 1] = [int(x) for x in p[1]]
            trs.append(dict(n=[], l=[perm, W.keys_of(wt)], b=[perm == list(range(4))]))
        pipes = {}
        orig = self.ch.LegPipe.to_LegCharge

        def spy(p):
            res = orig(p)
            pipes[id(res)] = W.lflag(p, True)
            self.H.keep[('pipe', id(res))] = res
            return res
        self.begin()
        self.ch.LegPipe.to_LegCharge = spy
        try:
            _, err = self.real(H.sort_legcharges)
        finally:
            self.ch.LegPipe.to_LegCharge = orig
        if err is not None:
            raise RuntimeError('sort_legcharges raised on a generated MPO: %r' % err)
        hs = []
        axes = [0, 1]
        for i, r in enumerate(H._W):
            lay = [(4 * axes.index(x) + 2) if x in axes else 4 * x for x in range(4)]
            flags = [pipes.get(id(r.legs[x]), W.lflag(r.legs[x], True)) for x in axes]
            fresh = dict(n=[W.dcode(r.dtype)], l=[lay, W.keys_of(r), flags] + [[4 * x] for x in axes], b=[False, bool(r._qdata_sorted)])
            hs.append(dict(tr=trs[i], fresh=fresh, axes=axes))
        self.end('mpo_sort', dict(op='mpo_sort', H=k, hs=hs, perms=perms), dict(none=True), lambda kind, x: kind == 'o' and x == k)

    OPS = [('mps_init', 10), ('mps_copy', 6), ('get_B', 10), ('set_B', 8), ('get_S', 4), ('set_S', 5), ('mps_enlarge', 4),
           ('mps_roll', 3), ('edit_list', 7), ('edit_s', 4), ('arr_inplace', 10), ('mpo_init', 6), ('mpo_copy', 5), ('get_W', 4),
           ('set_W', 4), ('get_Id', 3), ('edit_Id', 3), ('mpo_enlarge', 3), ('mpo_sort', 4)]

    def run(self):
        self.setup()
        names = [n for n, w in self.OPS]
        weights = [w for n, w in self.OPS]
        only = self.case.get('only')
        done, tries = 0, 0
        # every history starts with a constructor call so that the accessors have something to work on
        first = ['mps_init', 'mps_init'] + (['mpo_init'] if self.pool_W is not None else [])
        while done < self.case['nsteps'] and tries < 30 * self.case['nsteps'] + 30:
            tries += 1
            name = first.pop(0) if first else self.rng.choices(names, weights)[0]
            if only and name not in only:
                continue
            if len(self.A) > 60:
                break
            try:
                getattr(self, 'op_' + name)()
                done += 1
            except Skip:
                continue
        return dict(steps=self.steps, fps=self.fps, ops=self.ops, oracle=[list(x) for x in self.oracle], malformed=self.malformed,
                    changed=self.changed, targets=self.targets,
                    nobj=len(self.A), nmps=len(self.P), nmpo=len(self.O))


def main(inp, outp):
    import tenpy
    from tenpy.tools import optimization
    optimization.set_level(0)
    cy = bool(optimization.have_cython_functions)
    cases = json.load(open(inp))
    results = []
    for case in cases:
        try:
            results.append(NetWalk(case, cy).run())
        except Exception:
            results.append({'crash': traceback.format_exc()[-2500:]})
    json.dump(dict(meta=dict(have_cython=cy, tenpy_file=tenpy.__file__), results=results), open(outp, 'w'))


# ----------------------------------------------------------------------------------------------------------------
# coordinator side
# ----------------------------------------------------------------------------------------------------------------

def gen_case(rng, idx):
    return dict(kind='ext', seed=rng.randrange(1 << 30), nsteps=rng.choice([10, 14, 18]))


def canon_step(st):
    """canonical renaming of cell / object ids by first occurrence in a fixed traversal, per kind"""
    table = {}

    def c(kind, x):
        if x is None:
            return None
        key = (kind, x)
        if key not in table:
            table[key] = len(table)
        return table[key]

    def leg(l):
        return [c('g', l[0]), c('lb', l[1]), c('lb', l[2]), [c('g', s) for s in l[3]]]

    def tl(d):
        return dict(id=c('tl', d['id']), items=[c('A', x) for x in d['items']])

    def sl(d):
        return dict(id=c('sl', d['id']), items=[c('S', x) for x in d['items']])

    def vl(d):
        return dict(id=c('vl', d['id']), vals=list(d['vals']))
    out = dict(res=st['res'])
    out['arrs'] = [dict(id=c('A', a['id']), legs_list=c('l', a['legs_list']), legs=[leg(l) for l in a['legs']],
                        qtotal=c('b', a['qtotal']), labels=c('b', a['labels']), data=c('l', a['data']),
                        blocks=[c('b', b) for b in a['blocks']], qdata=c('b', a['qdata']), nq=a['nq'], keys=a.get('keys'),
                        dtype=a['dtype']) for a in st['arrs']]
    out['tls'] = [tl(d) for d in st['tls']]
    out['ss'] = [dict(id=c('S', d['id']), vals=list(d['vals'])) for d in st['ss']]
    out['sls'] = [sl(d) for d in st['sls']]
    out['vls'] = [vl(d) for d in st['vls']]
    out['mps'] = [dict(B=tl(p['B']), S=sl(p['S']), form=vl(p['form']), sites=vl(p['sites']), bc=p['bc'], dtype=p['dtype'])
                  for p in st['mps']]
    out['mpo'] = [dict(W=tl(H['W']), IdL=vl(H['IdL']), IdR=vl(H['IdR']), sites=vl(H['sites']), bc=H['bc'], dtype=H['dtype'])
                  for H in st['mpo']]
    return out


def documented_sharing(st, tgt):
    """from a model fingerprint: indices of the tensors that share a writable container (legs list, _labels, _data list,
    _qdata, a block — not the total charge) with tensor #tgt, and of the MPS / MPO storing one of them"""
    arrs = st['arrs']
    if tgt >= len(arrs):
        return None

    def hard(a):
        return {('l', a['legs_list']), ('b', a['labels']), ('l', a['data']), ('b', a['qdata'])} | {('b', b) for b in a['blocks']}
    th = hard(arrs[tgt])
    ta = {i for i, a in enumerate(arrs) if hard(a) & th}
    ids = {arrs[i]['id'] for i in ta}
    return dict(a=ta, p={i for i, p in enumerate(st['mps']) if ids & set(p['B']['items'])},
                o={i for i, H in enumerate(st['mpo']) if ids & set(H['W']['items'])})


def first_diff(a, b, path=''):
    if type(a) != type(b):
        return f'{path}: {a!r} vs {b!r}'[:300]
    if isinstance(a, dict):
        for k in sorted(set(a) | set(b)):
            if a.get(k) != b.get(k):
                return first_diff(a.get(k), b.get(k), path + '.' + k)
    if isinstance(a, list):
        if len(a) != len(b):
            return f'{path}: length {len(a)} vs {len(b)}'
        for i, (x, y) in enumerate(zip(a, b)):
            if x != y:
                return first_diff(x, y, f'{path}[{i}]')
    return f'{path}: {a!r} vs {b!r}'[:300]


def run_driver_parallel(lines, nproc):
    """the interpreted driver handles ~15 walks per second: several driver processes side by side"""
    from concurrent.futures import ThreadPoolExecutor
    from vlib import core
    size = max(20, min(120, len(lines) // nproc + 1))
    chunks = [lines[i:i + size] for i in range(0, len(lines), size)]
    with ThreadPoolExecutor(max_workers=nproc) as ex:
        outs = list(ex.map(lambda ch: core.run_driver('C03', ch), chunks))
    return [o for ch in outs for o in ch]


def evaluate(ctx, cases, use_model=True, configs=('cy', 'py'), nproc=None):
    from vlib import core, twoconf
    res = core.Result()
    nproc = nproc or (6 if ctx.quick else 14)
    runs = twoconf.run('harness.c03_ext', cases, configs=configs, nproc=min(nproc, max(1, len(cases))))
    lines, where = [], []
    if use_model:
        for cfg in configs:
            for i, case in enumerate(cases):
                r = runs[cfg]['results'][i]
                if 'crash' not in r and r.get('steps'):
                    lines.append(dict(net=True, cy=(cfg == 'cy'), steps=r['steps']))
                    where.append((cfg, i))
    models = dict(zip(where, run_driver_parallel(lines, 6 if ctx.quick else 12))) if lines else {}
    for i, case in enumerate(cases):
        ref = runs[configs[0]]['results'][i]
        ops = ref.get('ops', [])
        nontriv = (ref.get('nmps', 0) + ref.get('nmpo', 0) >= 2 and any(o.startswith(('arr.', 'set_', 'edit', 'mps_enlarge', 'mps_roll',
                                                                                      'mpo_sort', 'mpo_enlarge')) for o in ops))
        res.note_case(case, nontriv)
        res.count('kind=ext')
        for o in ops:
            res.count('op=ext.' + o)
        res.extra['ext_malformed_calls'] = res.extra.get('ext_malformed_calls', 0) + ref.get('malformed', 0)
        for cfg in configs:
            r = runs[cfg]['results'][i]
            if 'crash' in r:
                res.fail('correspondence', 'c03.ext.worker-crash', f'[{cfg}] ' + r['crash'], case)
                continue
            seen = set()
            bad = False
            for sig, detail in r['oracle']:
                if sig not in seen:
                    seen.add(sig)
                    res.fail('property', sig, f'[{cfg}] {detail}', case)
                    bad = True
            if bad or not use_model:
                continue
            m = models.get((cfg, i))
            res.traces_validated += 1
            if m is None or 'error' in m or 'steps' not in m:
                res.fail('correspondence', 'c03.ext.model-error', f'[{cfg}] {str(m)[:600]}', case)
                continue
            # tensor-level in-place methods judged with the DOCUMENTED sharing (the model's net before the step): a tensor /
            # MPS / MPO that changed although the model shares no writable container between it and the target was reached
            # through an undocumented alias (the worker's own oracle uses the real identities and would excuse it)
            for k, tgt in enumerate(r.get('targets', [])):
                if tgt is None or k == 0 or k - 1 >= len(m['steps']):
                    continue
                doc = documented_sharing(m['steps'][k - 1], tgt)
                for kind, idx in r['changed'][k]:
                    if doc is not None and idx not in doc[kind]:
                        what = {'a': 'tensor', 'p': 'MPS', 'o': 'MPO'}[kind]
                        res.fail('property', f"c03.ext.{r['ops'][k]}.changed-{what}-without-documented-sharing",
                                 f"[{cfg}] step {k}: in-place {r['ops'][k]} on tensor #{tgt} changed {what} #{idx}; according to the "
                                 'model (documented copies / views / stored tensors) they share no writable container', dict(case, upto=k))
                        bad = True
                        break
            if bad:
                continue
            for k, (fr, fm) in enumerate(zip(r['fps'], m['steps'])):
                cr, cm = canon_step(fr), canon_step(fm)
                for a_r, a_m in zip(cr['arrs'], cm['arrs']):
                    if a_r.get('keys') is None:
                        a_m['keys'] = None
                if cr != cm:
                    op = r['ops'][k]
                    what = 'result' if cr['res'] != cm['res'] else 'sharing'
                    res.fail('correspondence', f'c03.ext.{what}.{op}',
                             f'[{cfg}] step {k} ({op}): real vs model ' + first_diff(cr, cm), dict(case, upto=k))
                    break
    return res


def run_ext(ctx, n_cases, batch=400):
    """batches keep the fingerprints (≈100 kB per walk and configuration) out of memory"""
    from vlib import core
    rng = ctx.sub_rng('ext')
    cases = [gen_case(rng, i) for i in range(n_cases)]
    res = core.Result()
    malformed = 0
    for k in range(0, len(cases), batch):
        r = evaluate(ctx, cases[k:k + batch])
        malformed += r.extra.get('ext_malformed_calls', 0)
        res.merge(r)
    res.extra['ext_malformed_calls'] = malformed
    res.extra['ext_walks'] = len(cases)
    return res


def search_ext(ctx, n_cases):
    rng = ctx.sub_rng('ext-search')
    cases = [gen_case(rng, i) for i in range(n_cases)]
    return evaluate(ctx, cases, use_model=False)


if __name__ == '__main__':
    main(sys.argv[1], sys.argv[2])
