"""Coverage-round extras for C07/C08/C09: cheap, targeted calls of the public MPS / MPSEnvironment / TransferMatrix
methods and option branches that the main generators did not reach, each with an independent oracle (dense numpy
reference, documented contract, or sanity + conservation law).  A case is {'kind': 'extra', 'sub': <name>, 'seed': n}.
"""
import itertools
import random
import warnings

import numpy as np

from harness import mps_common as mc

C07_SUBS = ['lat_product', 'random_unitary', 'desired_chi', 'project_sector', 'entropy_opts', 'gauge_charge',
            'full_segment', 'bflat_inf', 'segment_env_canon', 'segment_of_segment', 'misc_ctor', 'segment_history']
C08_SUBS = ['term_list_corr', 'overlap_inf', 'overlap_ignore_form', 'translate', 'entropy_segment', 'terms_sum_inf',
            'env_terms_sum', 'corr_length', 'array_ops', 'segment_env', 'env_cache', 'transfer_matrix', 'sample_opts', 'corr_defaults']
C09_SUBS = ['local_term_opts', 'swap_ops', 'compute_K', 'perturb', 'compress_inf', 'compress_var', 'enlarged_segment',
            'subspace_expansion', 'grouped_copy', 'enlarge_chi_inf', 'local_op_inf', 'error_paths', 'swap_inf', 'add_segment']


def gen_extra(rng, subs):
    return dict(kind='extra', sub=rng.choice(subs), seed=rng.getrandbits(31))


def gen_extras(rng, subs, n):
    """n cases cycling through all mechanisms (every one is exercised in every run), seeds random."""
    return [dict(kind='extra', sub=subs[k % len(subs)], seed=rng.getrandbits(31)) for k in range(n)]


# ----------------------------------------------------------------------------------------------------------------
# helpers


class Orc:
    def __init__(self, prop, sub):
        self.prop, self.sub = prop, sub
        self.fails = []

    def sig(self, what):
        return '%s.extra.%s.%s' % (self.prop, self.sub, what)

    def close(self, what, got, want, tol=1e-9, detail=''):
        got, want = np.asarray(got), np.asarray(want)
        scale = max(1.0, float(np.max(np.abs(want))) if want.size else 1.0)
        if got.shape != want.shape or not np.all(np.abs(got - want) <= tol * scale):
            self.fails.append((self.sig(what), '%s got %s want %s' % (
                detail, np.array2string(got.ravel()[:6], precision=6), np.array2string(want.ravel()[:6], precision=6))))
            return False
        return True

    def true(self, what, cond, detail=''):
        if not cond:
            self.fails.append((self.sig(what), detail))
        return bool(cond)

    def raises(self, what, exc, fn, detail=''):
        try:
            fn()
        except exc:
            return True
        except Exception as e:  # another exception class
            self.fails.append((self.sig(what), 'raised %r instead of %s %s' % (e, exc.__name__, detail)))
            return False
        self.fails.append((self.sig(what), 'did not raise %s %s' % (exc.__name__, detail)))
        return False


def rand_finite(rnd, kinds=None, L=None, cplx=None, kind='full', **kw):
    """random finite canonical MPS + its dense state (with norm)."""
    kinds = kinds or rnd.choice([('SpinHalf', None), ('SpinHalf', 'Sz'), ('Spin1', 'Sz'), ('Fermion', 'N'),
                                 ('Fermion', 'parity'), ('Boson2', 'N'), ('SpinHalf', 'parity'), ('Spin1', None)])
    L = L or rnd.randint(3, 5)
    case = dict(kind=kind, seed=rnd.getrandbits(31), complex=(rnd.random() < 0.3) if cplx is None else cplx,
                sites={'kinds': [[kinds[0], kinds[1]]] * L}, form=kw.get('form', rnd.choice([None, 'A', 'B', 'C'])),
                normalize=kw.get('normalize', rnd.random() < 0.5), density=1.0, max_mult=2, canon=True)
    st = mc.build_state(case)
    return st['psi'], mc.np_state(st['psi']), case


def rand_infinite(rnd, kinds=None, L=None, chi=None, cplx=None):
    kinds = kinds or rnd.choice([('SpinHalf', None), ('Spin1', None), ('Fermion', None), ('SpinHalf', 'parity'),
                                 ('Fermion', 'parity')])
    L = L or rnd.randint(1, 3)
    for _ in range(20):
        case = dict(kind='inf', seed=rnd.getrandbits(31), complex=(rnd.random() < 0.3) if cplx is None else cplx,
                    sites={'kinds': [[kinds[0], kinds[1]]] * L}, chi=chi or [rnd.randint(2, 3) for _ in range(L)])
        b = mc.build_infinite(case)
        w = mc.transfer_spectrum(b['dense'])[0]
        if abs(w[0]) > 1e-6 and (len(w) < 2 or abs(w[1]) < 0.8 * abs(w[0])):
            b['psi'].canonical_form()
            return b['psi'], case
    raise RuntimeError('no injective unit cell found')


def window_rho(psi, i, n):
    """reduced density matrix of sites i..i+n-1 from the stored tensors (independent numpy bookkeeping)."""
    th = mc.np_theta(psi, i, n)
    D = int(np.prod(th.shape[1:-1]))
    th = th.reshape(th.shape[0], D, th.shape[-1])
    rho = np.einsum('asb,atb->st', th, th.conj())
    return rho / np.trace(rho)


def impl_rho(psi, i, n):
    rho = psi.get_rho_segment(list(range(i, i + n)))
    rho = rho.itranspose(['p%d' % k for k in range(n)] + ['p%d*' % k for k in range(n)]).to_ndarray()
    D = int(np.prod(rho.shape[:n]))
    return rho.reshape(D, D)


def renyi(p, n):
    p = np.asarray(p).real
    p = p[p > 1e-30]
    if n == 1:
        return float(-np.sum(p * np.log(p)))
    return float(np.log(np.sum(p ** n)) / (1.0 - n))


def sector_weight_ok(psi, vec, charge):
    """all weight of the dense state in the total-charge sector `charge`."""
    chinfo = psi.chinfo
    if chinfo.qnumber == 0:
        return True
    qs = [s.leg.to_qflat() for s in psi.sites]
    t = vec.reshape([s.dim for s in psi.sites])
    for idx in np.argwhere(np.abs(t) > 1e-10):
        q = chinfo.make_valid(np.sum([qs[i][k] for i, k in enumerate(idx)], axis=0))
        if np.any(q != charge):
            return False
    return True


def finish(o, hist):
    return dict(oracle=o.fails, nontrivial=True, hist=['kind=extra', 'sub=' + o.sub] + hist)


# ----------------------------------------------------------------------------------------------------------------
# C07


def eval_c07(case):
    from tenpy.networks.mps import MPS, MPSEnvironment
    from tenpy.networks import site as S
    import tenpy.linalg.np_conserved as npc
    sub = case['sub']
    rnd = random.Random(case['seed'])
    nprng = np.random.default_rng(case['seed'])
    o = Orc('C07', sub)
    hist = []
    if sub == 'lat_product':
        from tenpy.models import lattice as lat_mod
        cons = rnd.choice(['Sz', None, 'parity'])
        sh = S.SpinHalfSite(cons)
        sp1 = S.SpinSite(1.0, cons)
        bc = rnd.choice(['finite', 'infinite'])
        which = rnd.choice(['chain', 'ladder', 'square', 'honeycomb', 'helical'])
        bcx = 'periodic' if bc == 'infinite' else 'open'
        if which == 'helical':
            # MPS winding as a helix around the cylinder: the p_state is given for the regular lattice and has to be
            # invariant under a translation by the (shorter) helical unit cell
            Lx, Ly = rnd.randint(1, 2), rnd.randint(2, 3)
            reg = lat_mod.Square(Lx, Ly, sh, bc_MPS='infinite', bc=['periodic', -1])
            N = rnd.choice([d for d in range(1, Lx * Ly + 1) if (Lx * Ly) % d == 0])
            hel = lat_mod.HelicalLattice(reg, N)
            tile = (rnd.choice([d for d in range(1, Lx + 1) if Lx % d == 0]), rnd.choice([d for d in range(1, Ly + 1) if Ly % d == 0]), 1)
            labs = sorted(sh.state_labels)
            p = np.empty(tile, dtype=object)
            uniform = rnd.random() < 0.3
            l0 = rnd.choice(labs)
            for idx in itertools.product(*[range(t) for t in tile]):
                p[idx] = l0 if uniform else rnd.choice(labs)
            q = [p[tuple(int(li[k]) % tile[k] for k in range(3))] for li in reg.order]
            invariant = all(q[k] == q[k % N] for k in range(len(q)))
            detail = 'Square %dx%d helical N=%d p_state=%r' % (Lx, Ly, N, p.tolist())
            if invariant:
                psi = MPS.from_lat_product_state(hel, p.tolist())
                got = [int(np.argmax(np.abs(psi.get_B(i).to_ndarray()[0, :, 0]))) for i in range(psi.L)]
                o.true('helical', psi.L == N and got == [sh.state_labels[x] for x in q[:N]] and psi.bc == 'infinite', detail + ' got %r' % (got,))
            else:
                o.raises('helical-not-invariant', ValueError, lambda: MPS.from_lat_product_state(hel, p.tolist()), detail)
            hist.append('helical,invariant=%s' % invariant)
            return finish(o, hist)
        if which == 'chain':
            lat = lat_mod.Chain(rnd.randint(2, 6), sh, bc_MPS=bc, bc=bcx)
        elif which == 'ladder':
            lat = lat_mod.Ladder(rnd.randint(2, 3), [sh, sp1], bc_MPS=bc, bc=bcx)
        elif which == 'square':
            lat = lat_mod.Square(rnd.randint(2, 3), 2, sp1, bc_MPS=bc, bc=[bcx, 'open'],
                                 order=rnd.choice(['default', 'snake', 'Fstyle']))
        else:
            lat = lat_mod.Honeycomb(2, 2, [sh, sh], bc_MPS=bc, bc=[bcx, 'open'])
        shape = lat.shape
        # a p_state tile that divides the lattice shape
        tile = tuple(rnd.choice([d for d in range(1, n + 1) if n % d == 0]) for n in shape[:-1]) + (shape[-1],)
        usites = lat.unit_cell
        p = np.empty(tile, dtype=object)
        for idx in itertools.product(*[range(t) for t in tile]):
            labs = sorted(usites[idx[-1]].state_labels)
            p[idx] = rnd.choice(labs)
        psi = MPS.from_lat_product_state(lat, p.tolist())
        if cons is None and len({u.dim for u in usites}) == 1:
            # entries given as local vectors (one extra array dimension), tiled the same way
            dloc = usites[0].dim
            pv = nprng.integers(-2, 3, size=tile + (dloc,)).astype(float)
            pv[..., 0] += 3.0
            psiv = MPS.from_lat_product_state(lat, pv.tolist(), permute=False)
            for i in range(psiv.L):
                li = lat.order[i]
                wantv = pv[tuple(int(li[k]) % tile[k] for k in range(len(tile)))]
                if not o.close('site-vector', psiv.get_B(i).to_ndarray()[0, :, 0], wantv, detail='mps site %d' % i):
                    break
        o.true('L', psi.L == lat.N_sites and psi.bc == bc, 'L=%d bc=%s' % (psi.L, psi.bc))
        for i in range(psi.L):
            li = lat.order[i]
            lab = p[tuple(int(li[k]) % tile[k] for k in range(len(tile)))]
            want = psi.sites[i].state_labels[lab]
            B = psi.get_B(i).to_ndarray()
            got = int(np.argmax(np.abs(B[0, :, 0])))
            if not o.true('site-state', got == want and abs(abs(B[0, got, 0]) - 1) < 1e-14 and B.shape == (1, psi.sites[i].dim, 1),
                          '%s order=%s: mps site %d (lattice index %s) is in state %d, expected %r=%d' % (
                              which, getattr(lat, 'order', None) is not None, i, li.tolist(), got, lab, want)):
                break
        hist.append('lat=' + which)
    elif sub == 'random_unitary':
        kinds = rnd.choice([('SpinHalf', 'Sz'), ('Fermion', 'N'), ('SpinHalf', None), ('Spin1', 'Sz'), ('Fermion', 'parity')])
        s = mc.make_site(*kinds)
        bc = rnd.choice(['finite', 'finite', 'infinite'])
        L = rnd.randint(4, 6) if bc == 'finite' else 2 * rnd.randint(1, 2)
        labs = sorted(s.state_labels)
        p_state = [rnd.choice(labs[:2] if len(labs) > 1 else labs) for _ in range(L)]
        if len(set(p_state)) == 1 and len(labs) > 1:
            p_state[0] = [x for x in labs if x != p_state[0]][0]
        chi = rnd.randint(2, 4)
        dt = rnd.choice([float, complex])
        psi = MPS.from_random_unitary_evolution([s] * L, chi, p_state, bc=bc, dtype=dt)
        prod = MPS.from_product_state([s] * L, p_state, bc=bc, unit_cell_width=L)
        o.true('norm_test', np.max(psi.norm_test()) < 1e-8, '%.3g' % np.max(psi.norm_test()))
        o.true('chi_max', max(psi.chi) <= chi, 'chi=%r target %d' % (psi.chi, chi))
        if bc == 'finite':
            v = mc.np_state(psi).reshape(-1)
            o.close('normalised', [np.linalg.norm(v), psi.norm], [1.0, 1.0])
            o.true('charge-sector', sector_weight_ok(psi, v, prod.get_total_charge(True)), 'weight outside the sector of the start state')
            o.true('chi_reached', max(psi.chi) >= min(chi, 2), 'chi=%r' % (psi.chi,))
        hist.append('bc=' + bc)
    elif sub == 'desired_chi':
        s = mc.make_site(*rnd.choice([('SpinHalf', None), ('Spin1', None), ('Boson2', None)]))
        bc = rnd.choice(['finite', 'infinite'])
        L = rnd.randint(2, 5)
        if rnd.random() < 0.5:
            chis = rnd.randint(1, 5)
            want = [chis] * (L - 1 if bc == 'finite' else L)
        else:
            chis = [rnd.randint(1, 4) for _ in range(L - 1 if bc == 'finite' else L)]
            if bc == 'infinite':
                # realisable bond dimensions only: chi_{i+1} <= d * chi_i around the unit cell
                for _ in range(2 * L):
                    for k in range(L):
                        chis[(k + 1) % L] = min(chis[(k + 1) % L], s.dim * chis[k])
            want = list(chis)
        arg = list(chis) if isinstance(chis, list) else chis
        try:
            psi = MPS.from_desired_bond_dimension([s] * L, arg, bc=bc, unit_cell_width=L)
        except ValueError as e:
            if 'cannot reshape' in str(e) and bc == 'finite':
                o.fails.append((o.sig('raises[requested last bond dimension above the reachable one]'),
                                'chis=%r d=%d L=%d: %s (documented: chi is capped for finite bc)' % (chis, s.dim, L, e)))
                return finish(o, hist)
            raise
        if bc == 'finite':
            d = s.dim
            cap = [min(d ** (b + 1), d ** (L - 1 - b)) for b in range(L - 1)]
            o.true('chi', all(c <= w and c <= k for c, w, k in zip(psi.chi, want, cap)), 'requested %r got %r' % (want, psi.chi))
            v = mc.np_state(psi).reshape(-1)
            o.close('normalised', [np.linalg.norm(v)], [1.0])
            ds = [np.linalg.svd(v.reshape(d ** b, -1), compute_uv=False) for b in range(1, L)]
            for b in range(1, L):
                sv = np.sort(ds[b - 1])[::-1][:len(psi.get_SL(b))]
                if not o.close('schmidt', np.sort(psi.get_SL(b))[::-1], sv, tol=1e-8, detail='bond %d' % b):
                    break
        else:
            o.true('chi', list(psi.chi) == want or all(c <= w for c, w in zip(psi.chi, want)), 'requested %r got %r' % (want, psi.chi))
        o.true('norm_test', np.max(psi.norm_test()) < 1e-7, '%.3g' % np.max(psi.norm_test()))
        hist.append('bc=' + bc)
    elif sub == 'project_sector':
        # spin-1/2 with conserved Sz: local amplitudes (up, down); projection of the product state on a sector
        s = S.SpinHalfSite('Sz')
        L = rnd.randint(2, 5)
        amps = nprng.normal(size=(L, 2)) + 0.5
        nup = rnd.randint(0, L)
        sector = (2 * nup - L,)
        psi = MPS.project_onto_charge_sector([s] * L, amps, sector, unit_cell_width=L)
        # dense reference in the site's basis order (index 0 = down, 1 = up)
        ref = np.array([1.0])
        for i in range(L):
            ref = np.kron(ref, np.array([amps[i, 1], amps[i, 0]]))
        t = ref.reshape([2] * L)
        for idx in itertools.product(range(2), repeat=L):
            if sum(idx) != nup:
                t[idx] = 0.0
        t = t / np.linalg.norm(t)
        v = mc.np_state(psi)
        ph = np.vdot(t.ravel(), v.ravel())
        o.close('state', [abs(ph)], [1.0], tol=1e-9, detail='|<projected product|psi>| for sector %r' % (sector,))
        o.true('norm_test', np.max(psi.norm_test()) < 1e-9)
        o.true('charge', tuple(psi.get_total_charge(True)) == sector, '%r' % (psi.get_total_charge(True),))
    elif sub == 'entropy_opts':
        psi, v, c = rand_finite(rnd)
        L = psi.L
        vn = v / np.linalg.norm(v)
        dims = list(vn.shape)
        for n in (2, 0.5, 3):
            bonds = sorted(rnd.sample(range(1, L), rnd.randint(1, L - 1)))
            got = psi.entanglement_entropy(n=n, bonds=bonds)
            want = []
            for b in bonds:
                sv = np.linalg.svd(vn.reshape(int(np.prod(dims[:b])), -1), compute_uv=False)
                want.append(renyi(sv ** 2, n))
            o.close('renyi', got, want, tol=1e-7, detail='n=%r bonds=%r' % (n, bonds))
        got = psi.entanglement_entropy(bonds=1)
        sv = np.linalg.svd(vn.reshape(dims[0], -1), compute_uv=False)
        o.close('single-bond', got, [renyi(sv ** 2, 1)], tol=1e-7)
        # trivial outer bonds of a finite chain carry no entropy
        o.close('outer-bonds', psi.entanglement_entropy(bonds=[0, L]), [0.0, 0.0], tol=1e-12)
    elif sub == 'gauge_charge':
        kinds = rnd.choice([('SpinHalf', 'Sz'), ('Fermion', 'N'), ('Spin1', 'Sz'), ('Boson2', 'N'), ('Fermion', 'parity')])
        psi, v, c = rand_finite(rnd, kinds=kinds)
        q0 = psi.get_total_charge(True)
        p2 = psi.copy()
        qnew = psi.chinfo.make_valid(nprng.integers(-2, 3, size=psi.chinfo.qnumber))
        p2.gauge_total_charge(qtotal=qnew)
        o.true('qtotal', np.all(p2.get_total_charge() == qnew), '%r vs %r' % (p2.get_total_charge(), qnew))
        o.true('physical-charge', np.all(p2.get_total_charge(True) == q0), '%r vs %r' % (p2.get_total_charge(True), q0))
        o.close('state', mc.np_state(p2), v)
        p2.test_sanity()
        # per-site list of qtotal
        ql = psi.chinfo.make_valid(nprng.integers(-1, 2, size=(psi.L, psi.chinfo.qnumber)))
        p3 = psi.copy()
        p3.gauge_total_charge(qtotal=ql)
        o.true('qtotal-list', all(np.all(B.qtotal == q) for B, q in zip(p3._B, ql)), 'per-site qtotal not set')
        o.close('state-list', mc.np_state(p3), v)
        # default: total charge 0 on the tensors
        p4 = p3.copy()
        p4.gauge_total_charge()
        o.true('qtotal-default', np.all(p4.get_total_charge() == 0))
        o.close('state-default', mc.np_state(p4), v)
        o.raises('qtotal-wrong-shape', ValueError, lambda: psi.copy().gauge_total_charge(qtotal=np.zeros((psi.L + 1, psi.chinfo.qnumber), dtype=int)))
        # gauging to given outer legs: after that the two copies can be contracted directly, and overlap() /
        # MPSEnvironment do it on their own for states whose outer legs differ
        vL, vR = p2.outer_virtual_legs()
        p5 = p3.copy()
        p5.gauge_total_charge(None, vL, vR)
        o.true('outer-legs', p5.outer_virtual_legs() == (vL, vR) and np.all(p5.get_total_charge() == p2.get_total_charge()))
        o.close('state-outer-legs', mc.np_state(p5), v)
        nv = np.linalg.norm(v) ** 2
        o.close('overlap-differently-gauged', [p2.overlap(p3), p3.overlap(p2), MPSEnvironment(p2, p4).full_contraction(0)], [nv, nv, nv], tol=1e-9,
                detail='same state with qtotal %r / per-site list / 0' % (qnew,))
        # infinite MPS: the per-site charges can be moved as well, the state on a window stays
        inf, ci = rand_infinite(rnd, kinds=('SpinHalf', 'parity') if rnd.random() < 0.5 else ('Fermion', 'parity'), L=rnd.randint(2, 3))
        rho0 = window_rho(inf, 0, inf.L + 1)
        qi = inf.chinfo.make_valid(nprng.integers(0, 2, size=(inf.L, 1)))
        qi[-1] = inf.chinfo.make_valid(-np.sum(qi[:-1], axis=0))     # an infinite MPS needs total charge 0 per unit cell
        inf.gauge_total_charge(qtotal=qi)
        inf.test_sanity()
        o.true('infinite-qtotal-list', all(np.all(B.qtotal == q) for B, q in zip(inf._B, qi)))
        o.close('infinite-state', window_rho(inf, 0, inf.L + 1), rho0, tol=1e-9)
    elif sub == 'full_segment':
        kinds = rnd.choice([('SpinHalf', None), ('Spin1', None), ('Fermion', None)])
        s = mc.make_site(*kinds)
        L = rnd.randint(2, 4)
        cl, cr = rnd.randint(1, 3), rnd.randint(1, 3)
        cplx = rnd.random() < 0.3
        t = nprng.normal(size=[cl] + [s.dim] * L + [cr])
        if cplx:
            t = t + 1j * nprng.normal(size=t.shape)
        legs = [npc.LegCharge.from_trivial(cl, s.leg.chinfo)] + [s.leg] * L + [npc.LegCharge.from_trivial(cr, s.leg.chinfo, qconj=-1)]
        arr = npc.Array.from_ndarray(t, legs, labels=['vL'] + ['p%d' % i for i in range(L)] + ['vR'])
        SL = np.abs(nprng.normal(size=cl)) + 0.1
        SR = np.abs(nprng.normal(size=cr)) + 0.1
        SL, SR = SL / np.linalg.norm(SL), SR / np.linalg.norm(SR)
        normalize = rnd.random() < 0.5
        form = rnd.choice([None, 'B', 'A', 'C'])
        psi = MPS.from_full([s] * L, arr, form=form, normalize=normalize, bc='segment', outer_S=(SL, SR), unit_cell_width=L)
        want = t / np.linalg.norm(t) * (1.0 if normalize else np.linalg.norm(t))
        got = mc.np_theta(psi, 0, L) * psi.norm
        o.close('theta', got, want, detail='form=%r normalize=%r' % (form, normalize))
        th = psi.get_theta(0, L).itranspose(['vL'] + ['p%d' % i for i in range(L)] + ['vR']).to_ndarray() * psi.norm
        o.close('get_theta', th, want)
        o.true('bc', psi.bc == 'segment')
        o.close('outer_S', np.concatenate([psi.get_SL(0), psi.get_SR(L - 1)]), np.concatenate([SL, SR]))
        o.raises('finite-needs-trivial-legs', ValueError, lambda: MPS.from_full([s] * L, arr, bc='finite', unit_cell_width=L)) \
            if cl > 1 else None
    elif sub == 'bflat_inf':
        kinds = rnd.choice([('SpinHalf', None), ('Spin1', None), ('Fermion', None), ('SpinHalf', 'parity'), ('Fermion', 'parity')])
        for _ in range(20):
            L = rnd.randint(1, 3)
            c = dict(kind='inf', seed=rnd.getrandbits(31), complex=rnd.random() < 0.3, sites={'kinds': [list(kinds)] * L},
                     chi=[rnd.randint(2, 3) for _ in range(L)])
            b = mc.build_infinite(c)
            w = mc.transfer_spectrum(b['dense'])[0]
            if abs(w[0]) > 1e-6 and (len(w) < 2 or abs(w[1]) < 0.8 * abs(w[0])):
                break
        sites = b['psi'].sites
        Bflat = []
        permute = rnd.random() < 0.5
        for s, A in zip(sites, b['dense']):
            Bp = A.transpose(1, 0, 2)
            if permute:
                Bp = Bp[np.argsort(s.perm), :, :]
            Bflat.append(Bp)
        legL = b['psi']._B[0].get_leg('vL')
        psi = MPS.from_Bflat(sites, Bflat, SVs=None, bc='infinite', permute=permute, form=None,
                             legL=legL if sites[0].leg.chinfo.qnumber else None, unit_cell_width=L)
        if any(f is None for f in psi.form):
            # from_Bflat only canonicalises for L > 1; a one-site unit cell given with form=None stays as it is
            o.true('form-kept', L == 1, 'forms %r' % (psi.form,))
            psi.canonical_form()
        n = L + 1
        o.close('rho-window', impl_rho(psi, 0, n), mc.np_rho_window(b['dense'], n), tol=1e-6)
        o.true('norm_test', np.max(psi.norm_test()) < 1e-6, '%.3g' % np.max(psi.norm_test()))
        o.true('form', all(f == (0.0, 1.0) for f in psi.form), '%r' % (psi.form,))
    elif sub == 'segment_env_canon':
        psi, v, c = rand_finite(rnd, L=rnd.randint(4, 5), kinds=rnd.choice([('SpinHalf', None), ('SpinHalf', 'Sz'), ('Fermion', 'N')]))
        L = psi.L
        a = rnd.randint(0, 1)
        b_ = rnd.randint(a + 2, L - 1)
        seg = psi.extract_segment(a, b_)
        n = b_ - a + 1
        i = rnd.randrange(n)
        nme = rnd.choice([x for x in sorted(seg.sites[i].opnames) if not seg.sites[i].op_needs_JW(x)])
        seg.apply_local_op(i, nme, unitary=True)   # flag suppresses canonical_form: the segment is now non-canonical
        env = MPSEnvironment(seg, seg)
        e0 = env.expectation_value('Id')
        th0 = mc.np_theta(seg, 0, n) * seg.norm
        nrm2 = np.vdot(th0.ravel(), th0.ravel()).real
        if nrm2 > 1e-8:
            U, V = seg.canonical_form_finite(renormalize=False, envs_to_update=[env])
            e1 = env.expectation_value('Id')
            o.close('env-updated', e1, e0, tol=1e-8, detail='expectation values of the environment before/after canonical_form_finite(envs_to_update)')
            th1 = mc.np_theta(seg, 0, n) * seg.norm
            Ud = U.itranspose(['vL', 'vR']).to_ndarray()
            Vd = V.itranspose(['vL', 'vR']).to_ndarray()
            back = np.tensordot(np.tensordot(Ud, th1, axes=(1, 0)), Vd, axes=(-1, 0))
            o.close('theta', back, th0, tol=1e-8)
            o.true('boundaries-stored', seg.segment_boundaries[0] is not None)
    elif sub == 'segment_history':
        # a segment MPS denotes  norm * U_L . theta . V_R  in the Schmidt bases of the state it was cut out of
        # ((U_L, V_R) = segment_boundaries, identity before the first canonical_form_finite).  This must survive a
        # HISTORY of canonicalisations: non-unitary one-site operators anywhere (both ends included) and explicit
        # canonical_form_finite(renormalize=True/False); checked after every step, together with the overlap with the
        # untouched copy and an MPSEnvironment expectation value.
        from harness.C08 import plain_ops
        if rnd.random() < 0.3:
            parent, ci = rand_infinite(rnd, kinds=rnd.choice([('SpinHalf', None), ('Spin1', None), ('SpinHalf', 'parity'), ('Fermion', 'parity')]), L=rnd.randint(1, 2))
            first = rnd.randint(0, parent.L - 1)
            n = rnd.randint(2, 4 if parent.sites[0].dim == 2 else 3)
            last = first + n - 1
            hist.append('parent=infinite')
        else:
            kinds = rnd.choice([('SpinHalf', None), ('SpinHalf', 'Sz'), ('Fermion', 'N'), ('Spin1', 'Sz'), ('Spin1', None), ('Fermion', 'parity')])
            parent, v_, ci = rand_finite(rnd, kinds=kinds, L=rnd.randint(5, 6), normalize=True)
            first = rnd.randint(0, 2)
            last = rnd.randint(first + 1, max(first + 1, parent.L - 1 - rnd.randint(0, 2)))
            n = last - first + 1
            hist.append('parent=finite')
        seg = parent.extract_segment(first, last)
        seg.norm = rnd.choice([1.0, 1.0, 0.5, 2.0])
        seg0 = seg.copy()

        def denoted(x):
            t = mc.np_theta(x, 0, n) * x.norm
            U, V = x.segment_boundaries
            if U is not None:
                t = np.tensordot(U.itranspose(['vL', 'vR']).to_ndarray(), t, axes=(1, 0))
                t = np.tensordot(t, V.itranspose(['vL', 'vR']).to_ndarray(), axes=(-1, 0))
            return t

        def neutral_op(st, unitary):
            names = [nm for nm in plain_ops(st) if np.all(st.get_op(nm).qtotal == 0)]
            pick = rnd.sample(names, min(2, len(names)))
            A_ = sum(rnd.uniform(0.3, 1.5) * st.get_op(nm).to_ndarray() for nm in pick).astype(complex)
            if unitary:
                from scipy.linalg import expm
                return expm(1j * (A_ + A_.conj().T) / 2), 'exp(i(%s))' % '+'.join(pick)
            A_ = A_ + rnd.uniform(0.5, 1.5) * np.eye(st.dim) + (1j * rnd.uniform(-0.5, 0.5) * A_ if rnd.random() < 0.3 else 0)
            return A_, 'Id+' + '+'.join(pick)

        T0 = denoted(seg0)
        T = T0.copy()
        steps = []
        k = rnd.randint(2, 4)
        ok = True
        for step in range(k):
            kind = rnd.choice(['op', 'op', 'op', 'canon'])
            pos = rnd.choice([0, n - 1, n - 1, rnd.randrange(n)])     # both ends often: non-trivial outer gauges
            st = seg.sites[pos]
            if kind == 'op':
                M, nm = neutral_op(st, False)
                ren = rnd.random() < 0.3
                seg.apply_local_op(pos, npc.Array.from_ndarray(M, [st.leg, st.leg.conj()], labels=['p', 'p*'], dtype=complex), unitary=False, renormalize=ren)
                T2 = np.moveaxis(np.tensordot(M, T, axes=(1, pos + 1)), 0, pos + 1)
                T = T2 / np.linalg.norm(T2) * np.linalg.norm(T) if ren else T2
                steps.append('%s@%d%s' % (nm, pos, ',renormalize' if ren else ''))
            else:
                M, nm = neutral_op(st, True)
                seg.apply_local_op(pos, npc.Array.from_ndarray(M, [st.leg, st.leg.conj()], labels=['p', 'p*'], dtype=complex), unitary=True)
                T = np.moveaxis(np.tensordot(M, T, axes=(1, pos + 1)), 0, pos + 1)
                ren = rnd.random() < 0.5
                seg.canonical_form_finite(renormalize=ren)
                steps.append('%s@%d,canonical_form_finite(renormalize=%s)' % (nm, pos, ren))
            tag = '[after %d canonicalisation%s]' % (min(step + 1, 2), 's or more' if step >= 1 else '')
            detail = 'segment %d..%d of %s, steps %s' % (first, last, hist[0], steps)
            ok = o.close('denoted-tensor' + tag, denoted(seg), T, tol=1e-8, detail=detail) and ok
            ok = o.close('overlap' + tag, [seg0.overlap(seg)], [np.vdot(T0.ravel(), T.ravel())], tol=1e-8, detail=detail) and ok
            j = rnd.randrange(n)
            Mj, nmj = neutral_op(seg.sites[j], False)
            opj = npc.Array.from_ndarray(Mj, [seg.sites[j].leg, seg.sites[j].leg.conj()], labels=['p', 'p*'], dtype=complex)
            want = np.vdot(T0.ravel(), np.moveaxis(np.tensordot(Mj, T, axes=(1, j + 1)), 0, j + 1).ravel())
            got = MPSEnvironment(seg0, seg).expectation_value(opj, sites=[j])
            ok = o.close('env-expectation' + tag, got, [want], tol=1e-8, detail=detail + ' op %s@%d' % (nmj, j)) and ok
            o.true('norm_test' + tag, np.max(seg.norm_test()) < 1e-8, detail)
            if not ok:
                break
        hist.append('steps=%d' % k)
    elif sub == 'segment_of_segment':
        psi, v, c = rand_finite(rnd, L=5)
        seg = psi.extract_segment(1, 4)
        seg.canonical_form_finite()
        ref = mc.np_theta(seg, 0, 4) * seg.norm
        for (a, b_) in [(0, 3), (1, 3), (0, 2), (1, 2)]:
            sub_ = seg.extract_segment(a, b_)
            got = mc.np_theta(sub_, 0, b_ - a + 1) * sub_.norm
            want = mc.np_theta(seg, a, b_ - a + 1) * seg.norm
            o.close('theta', got, want, detail='extract_segment(%d,%d) of a segment' % (a, b_))
            UL, VR = sub_.segment_boundaries
            o.true('boundaries', (UL is None) == (a != 0 and b_ != 3), 'segment_boundaries kept/dropped wrongly for (%d,%d)' % (a, b_))
        o.raises('out-of-range', ValueError, lambda: psi.extract_segment(2, psi.L))
    elif sub == 'misc_ctor':
        # from_product_state on segment/infinite bc with chargeL, from_Bflat with explicit SVs and form, copy, __str__
        kinds = rnd.choice([('SpinHalf', 'Sz'), ('Fermion', 'N'), ('Spin1', 'Sz')])
        s = mc.make_site(*kinds)
        L = rnd.randint(1, 4)
        labs = sorted(s.state_labels)
        p_state = [rnd.choice(labs) for _ in range(L)]
        bc = rnd.choice(['segment', 'infinite', 'finite'])
        chargeL = [rnd.randint(-2, 2)]
        psi = MPS.from_product_state([s] * L, p_state, bc=bc, chargeL=chargeL, form=rnd.choice(['A', 'B', 'C', 'G']), unit_cell_width=L)
        o.true('chargeL', np.all(psi._B[0].get_leg('vL').charges[0] == s.leg.chinfo.make_valid(chargeL)) or bc == 'infinite',
               '%r' % psi._B[0].get_leg('vL').charges)
        cp = psi.copy()
        o.true('copy-independent', all(a is not b_ for a, b_ in zip(cp._B, psi._B)) and cp.form == psi.form and cp.bc == psi.bc)
        o.true('str', isinstance(str(psi), str) and ('L=%d' % L) in str(psi))
        th = mc.np_theta(psi, 0, L)
        want = np.zeros([1] + [s.dim] * L + [1])
        want[(0,) + tuple(s.state_labels[x] for x in p_state) + (0,)] = 1.0
        o.close('theta', th, want)
        o.raises('wrong-length', ValueError, lambda: MPS.from_product_state([s] * L, p_state + [labs[0]], unit_cell_width=L))
        o.raises('bad-form', ValueError, lambda: MPS.from_full([s, s], None, form='X', unit_cell_width=2))
        o.raises('from_full-infinite', ValueError, lambda: MPS.from_full([s, s], None, bc='infinite', unit_cell_width=2))
        triv = npc.LegCharge.from_trivial(2, s.leg.chinfo)
        wide = npc.Array.from_func(np.ones, [triv, s.leg, s.leg], labels=['vL', 'p0', 'p1'])
        o.raises('from_full-finite-nontrivial-vL', ValueError, lambda: MPS.from_full([s, s], wide, unit_cell_width=2))
        wide = npc.Array.from_func(np.ones, [s.leg, s.leg, triv.conj()], labels=['p0', 'p1', 'vR'])
        o.raises('from_full-finite-nontrivial-vR', ValueError, lambda: MPS.from_full([s, s], wide, unit_cell_width=2))
        if bc == 'finite' and L >= 2:
            # negative site indices on a finite chain: deprecated (FutureWarning), still counted from the right end
            with warnings.catch_warnings(record=True) as wl:
                warnings.simplefilter('always')
                Bm = psi.get_B(-1)
            o.true('negative-index-warns', any(issubclass(w_.category, FutureWarning) for w_ in wl))
            o.close('negative-index', Bm.to_ndarray(), psi.get_B(L - 1).to_ndarray())
            o.raises('index-out-of-range', ValueError, lambda: psi.get_B(-L - 1))
    else:
        raise ValueError(sub)
    return finish(o, hist)


# ----------------------------------------------------------------------------------------------------------------
# C08


def eval_c08(case):
    from tenpy.networks.mps import MPS, MPSEnvironment, TransferMatrix
    from tenpy.networks.terms import TermList
    from harness.C08 import Dense, plain_ops, jw_ops, rdm, hc_name
    import tenpy.linalg.np_conserved as npc
    sub = case['sub']
    rnd = random.Random(case['seed'])
    nprng = np.random.default_rng(case['seed'])
    o = Orc('C08', sub)
    hist = []

    def ev(op, bra, ket):
        return np.vdot(bra, op @ ket)

    def diag_ops(site):
        return [n for n in plain_ops(site)
                if np.count_nonzero(site.get_op(n).to_ndarray() - np.diag(np.diagonal(site.get_op(n).to_ndarray()))) == 0]

    if sub == 'term_list_corr':
        kinds = rnd.choice([('SpinHalf', 'Sz'), ('SpinHalf', None), ('Fermion', 'N'), ('Fermion', 'parity'), ('Spin1', 'Sz'), ('Boson2', 'N')])
        psi, v, c = rand_finite(rnd, kinds=kinds, L=rnd.randint(5, 6))
        L = psi.L
        s = psi.sites[0]
        D = Dense(psi.sites)
        vn = v.reshape(-1) / np.linalg.norm(v)
        fermi = bool(jw_ops(s)) and rnd.random() < 0.6

        def rterm(width):
            if fermi and width == 2 and rnd.random() < 0.7:
                a = rnd.choice(jw_ops(s))
                return [(a, 0), (rnd.choice(jw_ops(s)), 1)]
            if fermi and rnd.random() < 0.5:
                return [(rnd.choice(jw_ops(s)), rnd.randrange(width))]
            return [(rnd.choice(plain_ops(s)), k) for k in sorted(rnd.sample(range(width), rnd.randint(1, width)))]

        tl_terms = [rterm(2) for _ in range(rnd.randint(1, 3))]
        tr_terms = [rterm(2) for _ in range(rnd.randint(1, 3))]
        sL = [rnd.choice([1.0, -0.5, 2.0]) for _ in tl_terms]
        sR = [rnd.choice([1.0, 0.25, -1.5]) for _ in tr_terms]
        tlL, tlR = TermList(tl_terms, sL), TermList(tr_terms, sR)
        maxL = max(i for t in tl_terms for _, i in t)
        minR = min(i for t in tr_terms for _, i in t)
        maxR = max(i for t in tr_terms for _, i in t)
        iL = rnd.randint(0, 1)
        j0 = iL + maxL + 1 - minR
        jR = list(range(j0, L - maxR))
        if jR:
            use_default = rnd.random() < 0.4 and iL + maxL + 1 - min(i for t in tl_terms for _, i in t) == j0
            got = psi.term_list_correlation_function_right(tlL, tlR, iL, None if use_default else jR)
            want = []
            for j in (range(iL + maxL + 1 - min(i for t in tl_terms for _, i in t), L - max(0, maxR)) if use_default else jR):
                tot = 0.0
                for t1, a in zip(tl_terms, sL):
                    for t2, b_ in zip(tr_terms, sR):
                        tot = tot + a * b_ * ev(D.term([(n, i + iL) for n, i in t1] + [(n, i + j) for n, i in t2]), vn, vn)
                want.append(tot)
            o.close('value', got, want, tol=1e-8, detail='L=%s R=%s i_L=%d j_R=%r' % (tl_terms, tr_terms, iL, None if use_default else jR))
        hist.append('fermi=%s' % fermi)
    elif sub == 'corr_defaults':
        def chain_expect(psi, term):
            """<prod of the factors of `term`> on an (infinite or finite) canonical MPS by a plain numpy contraction along
            the chain; fermionic signs through explicit JW factors right of which the string cancels."""
            k0, k1 = min(i for _, i in term), max(i for _, i in term)
            S = psi.get_SL(k0)
            env = np.diag(np.asarray(S, dtype=complex) ** 2)            # (ket, bra)
            for k in range(k0, k1 + 1):
                st = psi.sites[k % psi.L]
                M = np.eye(st.dim, dtype=complex)
                for name, i in term:
                    if k == i:
                        M = M @ st.get_op(name).to_ndarray()
                    elif k < i and st.op_needs_JW(name):
                        M = M @ st.get_op('JW').to_ndarray()
                Bk = psi.get_B(k, 'B').to_ndarray()
                env = np.einsum('ab,apc,qp,bqd->cd', env, Bk, M, Bk.conj())
            return np.trace(env)

        def rterm(s_, lo):
            if jw_ops(s_) and rnd.random() < 0.6:
                if rnd.random() < 0.6:
                    return [(rnd.choice(jw_ops(s_)), lo), (rnd.choice(jw_ops(s_)), lo + 1)], 0
                return [(rnd.choice(jw_ops(s_)), lo + rnd.randint(0, 1))], 1
            return [(rnd.choice(plain_ops(s_)), lo + k) for k in sorted(rnd.sample(range(2), rnd.randint(1, 2)))], 0

        if rnd.random() < 0.6:
            psi, c = rand_infinite(rnd, kinds=rnd.choice([('SpinHalf', None), ('Fermion', None), ('Fermion', 'parity'), ('SpinHalf', 'parity'), ('Spin1', None)]),
                                   L=rnd.randint(1, 2))
            L = psi.L
            s_ = psi.sites[0]
            for _ in range(20):
                (tL, pL), (tR, pR) = rterm(s_, -1), rterm(s_, 0)
                if (pL + pR) % 2 == 0:
                    break
            else:
                (tL, pL), (tR, pR) = ([(plain_ops(s_)[0], 0)], 0), ([(plain_ops(s_)[0], 0)], 0)
            with warnings.catch_warnings():
                warnings.simplefilter('ignore')
                got = psi.term_correlation_function_right(tL, tR)
                want = [chain_expect(psi, tL + [(n_, i + j) for n_, i in tR]) for j in range(L, 11 * L, L)]
                o.close('right-default-infinite', got, want, tol=1e-8, detail='term_L=%s term_R=%s, documented default j_R=range(L, 11L, L)' % (tL, tR))
                got = psi.term_correlation_function_left(tL, tR)
                want = [chain_expect(psi, [(n_, i + j) for n_, i in tL] + tR) for j in range(-L, -11 * L, -L)]
                o.close('left-default-infinite', got, want, tol=1e-8, detail='term_L=%s term_R=%s, documented default i_L=range(-L, -11L, -L)' % (tL, tR))
                (tL2, pL2), (tR2, pR2) = rterm(s_, -1), rterm(s_, 0)
                if pL2 == pL and pR2 == pR:
                    aL, aR = [1.0, -0.5], [2.0, 0.25]
                    got = psi.term_list_correlation_function_right(TermList([tL, tL2], aL), TermList([tR, tR2], aR))
                    want = [sum(x * y * chain_expect(psi, t1 + [(n_, i + j) for n_, i in t2]) for t1, x in zip([tL, tL2], aL) for t2, y in zip([tR, tR2], aR))
                            for j in range(L, 11 * L, L)]
                    o.close('list-right-default-infinite', got, want, tol=1e-8, detail='L=%s R=%s' % ([tL, tL2], [tR, tR2]))
            hist.append('infinite')
        else:
            kinds = rnd.choice([('SpinHalf', 'Sz'), ('SpinHalf', None), ('Fermion', 'N'), ('Fermion', 'parity'), ('Spin1', 'Sz')])
            psi, v, c = rand_finite(rnd, kinds=kinds, L=rnd.randint(4, 6))
            L = psi.L
            s_ = psi.sites[0]
            D = Dense(psi.sites)
            vn = v.reshape(-1) / np.linalg.norm(v)
            for _ in range(20):
                (tL, pL), (tR, pR) = rterm(s_, 0), rterm(s_, 0)
                if (pL + pR) % 2 == 0:
                    break
            else:
                (tL, pL), (tR, pR) = ([(plain_ops(s_)[0], 0)], 0), ([(plain_ops(s_)[0], 0)], 0)
            iL = rnd.randint(0, 1)
            j0 = iL + max(i for _, i in tL) + 1 - min(i for _, i in tR)
            js = list(range(j0, L - max(i for _, i in tR)))
            with warnings.catch_warnings():
                warnings.simplefilter('ignore')
                if js:
                    got = psi.term_correlation_function_right(tL, tR, iL)
                    want = [ev(D.term([(n_, i + iL) for n_, i in tL] + [(n_, i + j) for n_, i in tR]), vn, vn) for j in js]
                    o.close('right-default-finite', got, want, tol=1e-8, detail='term_L=%s term_R=%s i_L=%d: j_R from one site right of term_L to the end' % (tL, tR, iL))
                o.raises('left-default-finite', ValueError, lambda: psi.term_correlation_function_left(tL, tR))
                a1, a2 = rnd.choice(plain_ops(s_)), rnd.choice(plain_ops(s_))
                got = psi.correlation_function(a1, a2)
                o.close('correlation_function-all-sites', got, [[ev(D.op(i, a1) @ D.op(j, a2), vn, vn) for j in range(L)] for i in range(L)], detail='%s %s' % (a1, a2))
                k = rnd.randint(1, L)
                got = psi.correlation_function(a1, a2, k)
                o.close('correlation_function-sites1-int', got, [[ev(D.op(i, a1) @ D.op(j, a2), vn, vn) for j in range(L)] for i in range(k)], detail='%s %s sites1=%d' % (a1, a2, k))
                if jw_ops(s_):
                    f = rnd.choice(jw_ops(s_))
                    o.raises('mixed-JW', ValueError, lambda: psi.correlation_function(f, a1))
                    o.raises('str_on_first-False-with-JW', ValueError, lambda: psi.correlation_function(f, f, str_on_first=False))
            hist.append('finite')
    elif sub == 'overlap_inf':
        kinds = rnd.choice([('SpinHalf', None), ('Spin1', None), ('Fermion', None)])
        L = rnd.randint(1, 2)
        chi = [rnd.randint(2, 3) for _ in range(L)]
        cplx = rnd.random() < 0.4
        psi, c1 = rand_infinite(rnd, kinds=kinds, L=L, chi=chi, cplx=cplx)
        phi, c2 = rand_infinite(rnd, kinds=kinds, L=L, chi=[rnd.randint(2, 3) for _ in range(L)], cplx=cplx)
        psi.norm, phi.norm = rnd.choice([1.0, 0.5]), rnd.choice([1.0, 2.0])
        A = [psi.get_B(i, 'B').to_ndarray() for i in range(L)]   # bra
        Bk = [phi.get_B(i, 'B').to_ndarray() for i in range(L)]  # ket
        T = np.eye(A[0].shape[0] * Bk[0].shape[0], dtype=complex).reshape(Bk[0].shape[0], A[0].shape[0], Bk[0].shape[0], A[0].shape[0])
        for a_, b_ in zip(A, Bk):
            T = np.einsum('xyab,apc,bpd->xycd', T, b_, a_.conj())
        w = np.linalg.eigvals(T.reshape(T.shape[0] * T.shape[1], -1))
        w = w[np.argsort(-np.abs(w))]
        if len(w) < 2 or abs(w[1]) < 0.95 * abs(w[0]):
            got = psi.overlap(phi, understood_infinite=True)
            o.close('eta', [got], [w[0] * psi.norm * phi.norm], tol=1e-8, detail='dominant eigenvalue of the mixed transfer matrix')
        o.close('self', [psi.overlap(psi, understood_infinite=True, charge_sector=0)], [psi.norm ** 2], tol=1e-8)
        fin = MPS.from_product_state([psi.sites[0]] * L, [0] * L, unit_cell_width=L)
        o.raises('bc-mismatch', ValueError, lambda: psi.overlap(fin))
    elif sub == 'overlap_ignore_form':
        psi, v, c = rand_finite(rnd)
        c2 = dict(c, seed=rnd.getrandbits(31), form=rnd.choice(['A', 'C', None]))
        phi = mc.build_state(c2)['psi']
        same = np.all(phi.get_total_charge(True) == psi.get_total_charge(True))
        if same:
            got = phi.overlap(psi, ignore_form=True, charge_sector=None)
            a = mc.np_plain(mc.stored_tensors(phi)[0]) * phi.norm
            b_ = mc.np_plain(mc.stored_tensors(psi)[0]) * psi.norm
            o.close('plain-contraction', [got], [np.vdot(a.ravel(), b_.ravel())], tol=1e-9, detail='forms %r / %r' % (phi.form, psi.form))
            o.close('with-form', [phi.overlap(psi)], [np.vdot(mc.np_state(phi).ravel(), v.ravel())], tol=1e-9)
    elif sub == 'translate':
        kinds = rnd.choice([('SpinHalf', None), ('SpinHalf', 'Sz'), ('Spin1', 'Sz'), ('Boson2', 'N'), ('Spin1', None)])
        psi, v, c = rand_finite(rnd, kinds=kinds, L=rnd.randint(3, 5), normalize=True)
        c2 = dict(c, seed=rnd.getrandbits(31), form='B', normalize=True)
        st2 = mc.build_state(c2)
        phi = st2['psi']
        L = psi.L
        if np.all(phi.get_total_charge(True) == psi.get_total_charge(True)):
            w = mc.np_state(phi)
            for sh in [rnd.randint(1, L - 1), -rnd.randint(1, L - 1)]:
                got = psi.overlap_translate_finite(phi, sh)
                want = np.vdot(v.ravel(), np.transpose(w, [(j - sh) % L for j in range(L)]).ravel())
                o.close('value', [got], [want], tol=1e-9, detail='shift=%d' % sh)
    elif sub == 'entropy_segment':
        psi, v, c = rand_finite(rnd, L=rnd.randint(4, 5))
        L = psi.L
        vn = v.reshape(-1) / np.linalg.norm(v)
        dims = [s.dim for s in psi.sites]
        seg = sorted(rnd.sample(range(L), rnd.randint(1, 3)))
        for n in (1, 2):
            with warnings.catch_warnings():
                warnings.simplefilter('ignore')
                got = psi.entanglement_entropy_segment2(seg, n=n)
            want = renyi(np.linalg.eigvalsh(rdm(vn, dims, seg)), n)
            o.close('segment2', [got], [want], tol=1e-7, detail='segment=%r n=%d' % (seg, n))
        pat = sorted(rnd.sample(range(3), 2))
        firsts = [f for f in range(L) if f + pat[-1] < L]
        n = rnd.choice([1, 2])
        got = psi.entanglement_entropy_segment(segment=pat, first_site=firsts, n=n)
        want = [renyi(np.linalg.eigvalsh(rdm(vn, dims, [f + k for k in pat])), n) for f in firsts]
        o.close('segment', got, want, tol=1e-7, detail='segment=%r first_site=%r n=%d' % (pat, firsts, n))
        got = psi.entanglement_entropy_segment(segment=pat)
        want = [renyi(np.linalg.eigvalsh(rdm(vn, dims, [f + k for k in pat])), 1) for f in range(L - pat[-1])]
        o.close('segment-default', got, want, tol=1e-7)
    elif sub == 'terms_sum_inf':
        psi, c = rand_infinite(rnd)
        L = psi.L
        s = psi.sites[0]
        d0 = s.dim
        n = L + 1
        while n < 2 * L + 3 and d0 ** (n + 1) <= 256:
            n += 1
        D = Dense([psi.sites[i % L] for i in range(n)])
        rho = window_rho(psi, 0, n)
        terms, strengths = [], []
        for _ in range(rnd.randint(1, 4)):
            i = rnd.randrange(L)
            j = rnd.randint(i, min(n - 1, i + 2))
            if j == i:
                terms.append([(rnd.choice(diag_ops(s)), i)])
            elif jw_ops(s) and rnd.random() < 0.5:
                a = rnd.choice(jw_ops(s))
                terms.append([(a, i), (hc_name(s, a), j)])
            else:
                terms.append([(rnd.choice(diag_ops(s)), i), (rnd.choice(diag_ops(s)), j)])
            strengths.append(rnd.choice([1.0, -0.5, 2.0]))
        want = sum(st * np.trace(rho @ D.term(t)) for t, st in zip(terms, strengths))
        # shift one term out of the unit cell: the documented re-folding must not change the sum
        shift = rnd.choice([0, L, -L])
        terms_sh = [[(nme, i + shift) for nme, i in terms[0]]] + terms[1:]
        r = max(max(i for _, i in t) - min(i for _, i in t) for t in terms)
        # the MPO power method is told to contract max(r,1)*L sites, but a term starting in the first unit cell
        # ends as late as site L-1+r
        tag = '[unit cell shorter than needed: max(r,1)*L < L+r]' if max(r, 1) * L < L + r else ''
        if L == 1 and r == 0:
            tag = '[one-site unit cell, on-site terms only]'   # same cause: the loop over sites 1..max_range*L-1 is empty
        try:
            got, _ = psi.expectation_value_terms_sum(TermList(terms_sh, strengths))
            o.close('value' + tag, [got], [want], tol=1e-7, detail='L=%d range=%d terms=%s strengths=%s' % (L, r, terms_sh, strengths))
        except UnboundLocalError as e:
            o.fails.append((o.sig('value' + tag), 'L=%d range=%d raises %r' % (L, r, e)))
    elif sub == 'env_terms_sum':
        psi, v, c = rand_finite(rnd, L=rnd.randint(3, 5))
        c2 = dict(c, seed=rnd.getrandbits(31), form='B', normalize=False)
        phi = mc.build_state(c2)['psi']
        if np.all(phi.get_total_charge(True) == psi.get_total_charge(True)):
            L = psi.L
            D = Dense(psi.sites)
            terms, strengths = [], []
            for _ in range(rnd.randint(1, 3)):
                i, j = sorted(rnd.sample(range(L), 2))
                terms.append([(rnd.choice(diag_ops(psi.sites[i])), i), (rnd.choice(diag_ops(psi.sites[j])), j)])
                strengths.append(rnd.choice([1.0, -0.5, 2.0]))
            env = MPSEnvironment(phi, psi)
            got, _ = env.expectation_value_terms_sum(TermList(terms, strengths))
            a = mc.np_state(phi, with_norm=False).reshape(-1)
            b_ = mc.np_state(psi, with_norm=False).reshape(-1)
            want = sum(st * ev(D.term(t), a, b_) for t, st in zip(terms, strengths))
            o.close('value', [got], [want], tol=1e-8, detail='documented: no norm factors; terms=%s' % (terms,))
    elif sub == 'corr_length':
        psi, c = rand_infinite(rnd, kinds=rnd.choice([('SpinHalf', None), ('Spin1', None), ('SpinHalf', 'parity'), ('Fermion', 'parity'),
                                                      ('SpinHalf', 'parity'), ('Fermion', 'parity')]))
        L = psi.L
        A = [psi.get_B(i, 'B').to_ndarray() for i in range(L)]
        # dense transfer matrix of the unit cell acting on vectors (b, b') living on the last right bond
        T = None
        for a_ in A:
            t = np.einsum('apb,cpd->acbd', a_, a_.conj())
            t = t.reshape(a_.shape[0] ** 2, a_.shape[2] ** 2)
            T = t if T is None else T @ t
        w = np.linalg.eigvals(T)
        aw = np.sort(np.abs(w))[::-1]

        def gap_ok(vals, k):
            """|vals[k]| is nonzero and separated from |vals[k+1]| (the k-th magnitude is well defined and stable)."""
            return len(vals) > k and vals[k] > 1e-6 and (len(vals) == k + 1 or vals[k] - vals[k + 1] > 1e-3 * vals[k])
        qn = psi.chinfo.qnumber
        if gap_ok(aw, 1):
            want = -L / np.log(aw[1] / aw[0])
            if qn == 0:
                o.close('xi', [psi.correlation_length()], [want], tol=1e-6)
                o.close('xi2', [psi.correlation_length2()], [want], tol=1e-6, detail='chain: N_sites_per_hor_spacing = 1')
                o.close('xi-tol_ev0-None', [psi.correlation_length(tol_ev0=None)], [want], tol=1e-6)
            o.close('xi-all-sectors', [psi.correlation_length(charge_sector=None)], [want], tol=1e-6)
            if gap_ok(aw, 2):
                with warnings.catch_warnings():
                    warnings.simplefilter('ignore')
                    xi2, chs = psi.correlation_length(target=2, charge_sector=None, return_charges=True)
                    xi2b = psi.correlation_length(target=2, charge_sector=None)
                want2 = np.sort([-L / np.log(aw[1] / aw[0]), -L / np.log(aw[2] / aw[0])])
                o.close('xi-target2', np.sort(np.asarray(xi2, dtype=float)), want2, tol=1e-6)
                o.close('xi-target2-nocharges', np.sort(np.asarray(xi2b, dtype=float)), want2, tol=1e-6)
                o.true('charges-returned', len(chs) == len(xi2))
        secs = psi.correlation_length_charge_sectors()
        if qn == 0:
            o.true('charge-sectors-trivial', len(secs) == 0, '%r' % (secs,))
        else:
            # sector-resolved reference: the vector index (b, b') carries the charge q[b] - q[b']
            q = psi.get_B(L - 1).get_leg('vR').to_qflat()
            mod = psi.chinfo.mod
            cq = (q[:, None, :] - q[None, :, :]).reshape(-1, qn)
            cq = psi.chinfo.make_valid(cq)
            allsecs = np.unique(cq, axis=0)
            full = psi.correlation_length_charge_sectors(drop_symmetric=False)
            o.true('charge-sectors-all', sorted(map(tuple, np.asarray(full))) == sorted(map(tuple, allsecs)), '%r vs %r' % (full, allsecs))
            neg = lambda x: tuple(psi.chinfo.make_valid(-np.asarray(x)))
            o.true('charge-sectors-dropped', all(tuple(x) in set(map(tuple, allsecs)) for x in secs)
                   and all(tuple(x) in set(map(tuple, secs)) or neg(x) in set(map(tuple, secs)) for x in allsecs), '%r of %r' % (secs, allsecs))
            spec = {}
            for sct in allsecs:
                idx = np.nonzero(np.all(cq == sct, axis=1))[0]
                off = np.linalg.norm(T[np.ix_([k for k in range(T.shape[0]) if k not in set(idx)], idx)])
                o.true('transfer-matrix-conserves-charge', off < 1e-10, 'sector %r leak %g' % (sct, off))
                spec[tuple(sct)] = np.sort(np.abs(np.linalg.eigvals(T[np.ix_(idx, idx)])))[::-1]
            zero = tuple(psi.chinfo.make_valid())
            e0 = spec[zero]
            with warnings.catch_warnings():
                warnings.simplefilter('ignore')
                if gap_ok(e0, 1):
                    want0 = -L / np.log(e0[1] / e0[0])
                    o.close('xi-zero-sector', [psi.correlation_length()], [want0], tol=1e-6)
                    o.close('xi-zero-sector-explicit', [psi.correlation_length(charge_sector=list(zero))], [want0], tol=1e-6)
                    got, ch = psi.correlation_length(return_charges=True)
                    o.close('xi-zero-sector-return_charges', [got], [want0], tol=1e-6)
                    o.true('xi-zero-sector-charge', tuple(ch) == zero, '%r' % (ch,))
                others = [s_ for s_ in spec if s_ != zero]
                for s_ in others:
                    es = spec[s_]
                    if gap_ok(es, 0) and es[0] < 0.98 * e0[0]:
                        wants = -L / np.log(es[0] / e0[0])
                        o.close('xi-sector', [psi.correlation_length(charge_sector=list(s_))], [wants], tol=1e-6, detail='sector %r' % (s_,))
                        o.close('xi-sector-tol_ev0-None', [psi.correlation_length(charge_sector=list(s_), tol_ev0=None)], [wants], tol=1e-6,
                                detail='sector %r, eigenvalue of the zero sector set to 1 by hand' % (s_,))
                        o.close('xi-sector-symmetric', [psi.correlation_length(charge_sector=list(neg(s_)))], [wants], tol=1e-6,
                                detail='documented: sectors q and -q have the same correlation length; sector %r' % (s_,))
                if gap_ok(aw, 1):
                    got = psi.correlation_length(charge_sector=np.asarray(full))
                    o.close('xi-sector-list', [got], [-L / np.log(aw[1] / aw[0])], tol=1e-6)
                    if others:
                        lst = np.asarray(others)
                        eo = np.sort(np.concatenate([spec[s_] for s_ in others]))[::-1]
                        if gap_ok(eo, 0) and eo[0] < 0.98 * e0[0]:
                            got, ch = psi.correlation_length(charge_sector=lst, return_charges=True)
                            o.close('xi-sector-list-without-zero', [got], [-L / np.log(eo[0] / e0[0])], tol=1e-6)
                            o.true('xi-sector-list-charge', tuple(ch) in set(others), '%r' % (ch,))
        # product states: correlation length zero in every calling convention
        ps = MPS.from_product_state(psi.sites, [rnd.randrange(s_.dim) for s_ in psi.sites], bc='infinite')
        o.true('xi-product', ps.correlation_length() == 0 and list(ps.correlation_length(target=2)) == [0, 0], 'product state')
        r1 = ps.correlation_length(return_charges=True)
        r2 = ps.correlation_length(target=2, return_charges=True)
        o.true('xi-product-return_charges', r1[0] == 0 and len(r2[0]) == 2 and len(r2[1]) == 2, '%r %r' % (r1, r2))
    elif sub == 'array_ops':
        psi, v, c = rand_finite(rnd)
        L = psi.L
        D = Dense(psi.sites)
        vn = v.reshape(-1) / np.linalg.norm(v)
        names = [rnd.choice(plain_ops(s)) for s in psi.sites]
        arrs = [s.get_op(n) for s, n in zip(psi.sites, names)]
        got = psi.expectation_value(arrs)
        o.close('expectation_value-arrays', got, [ev(D.op(i, names[i]), vn, vn) for i in range(L)], detail=str(names))
        names2 = [rnd.choice(plain_ops(s)) for s in psi.sites]
        arrs2 = [s.get_op(n) for s, n in zip(psi.sites, names2)]
        s1 = sorted(rnd.sample(range(L), 2))
        with warnings.catch_warnings():
            warnings.simplefilter('ignore')
            got = psi.correlation_function(arrs, arrs2, s1, L)
        want = [[ev(D.op(i, names[i]) @ D.op(j, names2[j]), vn, vn) for j in range(L)] for i in s1]
        o.close('correlation_function-arrays', got, want, detail='%s %s sites1=%r sites2=int' % (names, names2, s1))
        # a two-site operator given with explicit axes
        if L >= 2:
            i = rnd.randrange(L - 1)
            op2 = npc.outer(arrs[i].replace_labels(['p', 'p*'], ['a', 'a*']), arrs2[i + 1].replace_labels(['p', 'p*'], ['b', 'b*']))
            got = psi.expectation_value(op2, sites=[i], axes=(['a', 'b'], ['a*', 'b*']))
            o.close('axes', got, [ev(D.op(i, names[i]) @ D.op(i + 1, names2[i + 1]), vn, vn)])
            o.raises('axes-length', ValueError, lambda: psi.expectation_value(op2, sites=[i], axes=(['a'], ['a*'])))
    elif sub == 'segment_env':
        kinds = rnd.choice([('SpinHalf', None), ('SpinHalf', 'Sz'), ('Fermion', 'N'), ('Spin1', 'Sz')])
        psi, v, c = rand_finite(rnd, kinds=kinds, L=rnd.randint(4, 5))
        L = psi.L
        a = rnd.randint(0, 1)
        b_ = rnd.randint(a + 1, L - 1)
        n = b_ - a + 1
        bra = psi.extract_segment(a, b_)
        ket = bra.copy()
        i = rnd.randrange(n)
        un = [x for x in plain_ops(ket.sites[i]) if np.allclose(ket.sites[i].get_op(x).to_ndarray() @ ket.sites[i].get_op(x).to_ndarray().conj().T, np.eye(ket.sites[i].dim))
              and np.all(ket.sites[i].get_op(x).qtotal == 0)]
        nme = rnd.choice(un)
        ket.apply_local_op(i, nme, unitary=True)
        env = MPSEnvironment(bra, ket)
        tb = mc.np_theta(bra, 0, n) * bra.norm
        tk = mc.np_theta(ket, 0, n) * ket.norm
        o.close('full_contraction', [env.full_contraction(rnd.randrange(n))], [np.vdot(tb.ravel(), tk.ravel())], tol=1e-9)
        D = Dense(bra.sites)
        j = rnd.randrange(n)
        nm2 = rnd.choice([x for x in plain_ops(bra.sites[j]) if np.all(bra.sites[j].get_op(x).qtotal == 0)])
        M = D.op(j, nm2)
        cl, cr = tb.shape[0], tb.shape[-1]
        want = sum(np.vdot(tb[x, ..., y].ravel(), M @ tk[x, ..., y].ravel()) for x in range(cl) for y in range(cr))
        o.close('expectation_value', env.expectation_value(nm2, sites=[j]), [want], tol=1e-9, detail='segment bc, %s@%d after %s@%d' % (nm2, j, nme, i))
        o.true('bc', env.bc == 'segment')
        # after canonical_form_finite the ket carries segment_boundaries (U_L, V_R): the environment must use them
        ket2 = ket.copy()
        U, V = ket2.canonical_form_finite()
        env2 = MPSEnvironment(bra, ket2)
        tk2 = mc.np_theta(ket2, 0, n) * ket2.norm
        back = np.tensordot(np.tensordot(U.itranspose(['vL', 'vR']).to_ndarray(), tk2, axes=(1, 0)),
                            V.itranspose(['vL', 'vR']).to_ndarray(), axes=(-1, 0))
        o.close('boundaries.theta', back, tk, tol=1e-8)
        o.close('boundaries.full_contraction', [env2.full_contraction(0)], [np.vdot(tb.ravel(), tk.ravel())], tol=1e-8,
                detail='ket with segment_boundaries after canonical_form_finite')
        # all four combinations of bra/ket carrying boundaries; re-initialisation from get_initialization_data
        want_ov = np.vdot(tb.ravel(), tk.ravel())
        for vb in (False, True):
            for vk in (False, True):
                br, kt = bra.copy(), ket.copy()
                if vb:
                    br.canonical_form_finite()
                if vk:
                    kt.canonical_form_finite()
                e3 = MPSEnvironment(br, kt)
                k0 = rnd.randrange(n)
                o.close('boundaries.full_contraction[bra=%s,ket=%s]' % (vb, vk), [e3.full_contraction(k0)], [want_ov], tol=1e-8)
                data = e3.get_initialization_data(include_bra=vb, include_ket=vk)
                o.true('init-data.keys', ('bra' in data) == vb and ('ket' in data) == vk and (not vb or data['bra'] is e3.bra) and (not vk or data['ket'] is kt))
                data.pop('bra', None)
                data.pop('ket', None)
                e4 = MPSEnvironment(br, kt, **data)
                o.close('init-data.roundtrip[bra=%s,ket=%s]' % (vb, vk), [e4.full_contraction(rnd.randrange(n))], [want_ov], tol=1e-8,
                        detail='MPSEnvironment(bra, ket, **env.get_initialization_data())')
        # canonical_form_finite(envs_to_update=[env]) keeps the environment valid
        kt = ket.copy()
        e5 = MPSEnvironment(bra, kt)
        e5.full_contraction(rnd.randrange(n))
        kt.canonical_form_finite(envs_to_update=[e5])
        o.close('envs_to_update', [e5.full_contraction(rnd.randrange(n))], [want_ov], tol=1e-8, detail='ket.canonical_form_finite(envs_to_update=[env])')
        o.raises('envs_to_update-foreign', ValueError, lambda: ket.copy().canonical_form_finite(envs_to_update=[e5]))
        # an initial LP with the wrong legs is dropped with a warning, the result stays right
        if bra.chi[0] > 1:
            bad = npc.Array.from_ndarray_trivial(np.eye(bra.chi[0] + 1), labels=['vR*', 'vR'])
            if psi.chinfo.qnumber == 0:
                with warnings.catch_warnings(record=True) as wl:
                    warnings.simplefilter('always')
                    e6 = MPSEnvironment(bra, ket, init_LP=bad)
                o.true('bad-init_LP-warns', any('incompatible virtual legs' in str(w_.message) for w_ in wl))
                o.close('bad-init_LP-dropped', [e6.full_contraction(0)], [want_ov], tol=1e-8)
        if psi.chinfo.qnumber > 0 and a > 0:
            cv, pr = bra.probability_per_charge(n)
            o.close('prob-per-charge-right-end', [np.sum(pr)], [1.0], tol=1e-9)
    elif sub == 'env_cache':
        psi, v, c = rand_finite(rnd, L=rnd.randint(3, 5))
        c2 = dict(c, seed=rnd.getrandbits(31), form='B', normalize=True)
        phi = mc.build_state(c2)['psi']
        if np.all(phi.get_total_charge(True) == psi.get_total_charge(True)):
            L = psi.L
            env = MPSEnvironment(phi, psi)
            nme = 'Id' if len(set(map(repr, psi.sites))) > 1 else rnd.choice([x for x in plain_ops(psi.sites[0]) if np.all(psi.sites[0].get_op(x).qtotal == 0)])
            e0 = np.array(env.expectation_value(nme))
            D = Dense(psi.sites)
            a = mc.np_state(phi).reshape(-1)
            want = [ev(D.op(i, nme), a, v.reshape(-1)) for i in range(L)]
            o.close('value', e0, want)
            o.true('has', env.has_LP(0) and env.has_RP(L - 1) and env.get_LP_age(0) == 0 and env.get_RP_age(L - 1) == 0)
            k = rnd.randrange(1, L)
            env.del_LP(k)
            env.del_RP(k - 1)
            o.true('deleted', not env.has_LP(k) and not env.has_RP(k - 1))
            o.close('after-del', env.expectation_value(nme), want)
            o.true('ages', env.get_LP_age(L - 1) == L - 1 and env.get_RP_age(0) == L - 1, 'LP age %r RP age %r' % (env.get_LP_age(L - 1), env.get_RP_age(0)))
            env.clear()
            o.true('cleared', env.has_LP(0) and not env.has_LP(L - 1))
            o.close('after-clear', env.expectation_value(nme), want)
            first, last = 0, L - 1
            data = env.get_initialization_data(first, last)
            env2 = MPSEnvironment(phi, psi, **data)
            o.close('from-init-data', env2.expectation_value(nme), want)
            env.cache_optimize(short_term_LP=[0], short_term_RP=[L - 1])
            o.close('after-cache_optimize', env.expectation_value(nme), want)
            o.close('full_contraction-everywhere', [env.full_contraction(i) for i in range(L)], [np.vdot(a, v.reshape(-1))] * L)
    elif sub == 'transfer_matrix':
        kinds = rnd.choice([('SpinHalf', None), ('Spin1', None), ('Fermion', None), ('SpinHalf', 'parity')])
        psi, c = rand_infinite(rnd, kinds=kinds)
        L = psi.L
        sb, sk = rnd.randint(0, L), rnd.randint(0, L)
        tr = rnd.random() < 0.5
        form = rnd.choice(['B', 'A', 'C'])
        TM = TransferMatrix(psi, psi, shift_bra=sb, shift_ket=sk, transpose=tr, charge_sector=None, form=form)
        M = [psi.get_B(i, form).to_ndarray() for i in range(sk, sk + L)]
        N = [psi.get_B(i, form).to_ndarray() for i in range(sb, sb + L)]
        if sb % L == sk % L:
            g = TM.initial_guess(1.0)
            out = TM.matvec(g)
            if not tr:
                X = np.eye(M[-1].shape[2], dtype=complex)
                for m, nn in zip(reversed(M), reversed(N)):
                    X = np.einsum('apb,bc,dpc->ad', m, X, nn.conj())
                got = out.itranspose(['vL', 'vL*']).to_ndarray()
            else:
                X = np.eye(M[0].shape[0], dtype=complex)   # indices (vR*, vR)
                for m, nn in zip(M, N):
                    X = np.einsum('ab,bpc,apd->dc', X, m, nn.conj())
                got = out.itranspose(['vR*', 'vR']).to_ndarray()
            o.close('matvec', got, X, tol=1e-9, detail='transpose=%r form=%s shift=%d' % (tr, form, sk))
            if form == ('A' if tr else 'B'):
                o.close('identity-is-fixed-point', got, np.eye(len(X)), tol=1e-8)
            eta, vecs = TM.eigenvectors(num_ev=1)
            o.close('dominant-eigenvalue', [abs(eta[0])], [1.0], tol=1e-8)
        TM2 = TransferMatrix.from_Ns_Ms([psi.get_B(i, 'B') for i in range(L)], [psi.get_B(i, 'B') for i in range(L)],
                                        transpose=False, charge_sector=0, unit_cell_width=psi.unit_cell_width)
        eta2, _ = TM2.eigenvectors(num_ev=1)
        o.close('from_Ns_Ms', [abs(eta2[0])], [1.0], tol=1e-8)
        TM2.charge_sector = 0
        o.true('charge_sector-setter', TM2.charge_sector is not None and np.all(np.asarray(TM2.charge_sector) == 0))
        # already conjugated bra tensors (conjugate_Ns=False), both directions; mixed transfer matrix of two states
        phi, c2 = rand_infinite(rnd, kinds=kinds, L=L)
        for tr2 in (False, True):
            Ns = [phi.get_B(i, 'B').conj() for i in range(L)]
            Ms = [psi.get_B(i, 'B') for i in range(L)]
            with warnings.catch_warnings(record=True) as wl:
                warnings.simplefilter('always')
                TM3 = TransferMatrix.from_Ns_Ms(Ns, Ms, transpose=tr2, charge_sector=None, conjugate_Ns=False)
            o.true('from_Ns_Ms-warns-without-unit_cell_width', any('unit_cell_width' in str(w_.message) for w_ in wl))
            TM4 = TransferMatrix(phi, psi, transpose=tr2, charge_sector=None)
            g = npc.Array.from_func(np.ones, TM4.pipe.legs, dtype=float, labels=TM4.label_split)   # ones in all allowed blocks
            V0 = g.to_ndarray().astype(complex)
            a3 = TM3.matvec(g.copy()).itranspose(TM3.label_split).to_ndarray()
            a4 = TM4.matvec(g.copy()).itranspose(TM4.label_split).to_ndarray()
            Mn = [x.to_ndarray() for x in Ms]
            Nn = [phi.get_B(i, 'B').to_ndarray() for i in range(L)]
            X = V0
            if not tr2:
                for m, nn in zip(reversed(Mn), reversed(Nn)):
                    X = np.einsum('apb,bc,dpc->ad', m, X, nn.conj())
            else:
                for m, nn in zip(Mn, Nn):
                    X = np.einsum('ab,bpc,apd->dc', X, m, nn.conj())
            o.close('mixed-matvec[transpose=%s]' % tr2, a4, X, tol=1e-9)
            o.close('conjugate_Ns-False[transpose=%s]' % tr2, a3, a4, tol=1e-10)
        # a transfer matrix carrying a total charge has no charge conserving eigenvectors: refused at construction
        for cons_, st_ in (('Sz', 'SpinHalf'), ('parity', 'SpinHalf')):
            st = mc.make_site(st_, cons_)
            up = MPS.from_product_state([st], ['up'], bc='infinite')
            dn = MPS.from_product_state([st], ['down'], bc='infinite')
            o.raises('charged-transfer-matrix[%s]' % cons_, ValueError, lambda: TransferMatrix(up, dn))
        o.raises('incompatible-charges', ValueError,
                 lambda: TransferMatrix(MPS.from_product_state([mc.make_site('SpinHalf', 'Sz')], ['up'], bc='infinite'),
                                        MPS.from_product_state([mc.make_site('SpinHalf', None)], ['up'], bc='infinite')))
    elif sub == 'sample_opts':
        psi, v, c = rand_finite(rnd, normalize=True)
        L = psi.L
        vn = (v / np.linalg.norm(v))
        sig, wgt = psi.sample_measurements()        # rng=None: a fresh generator
        o.close('default-rng', [wgt], [vn[tuple(int(x) for x in sig)]], detail='sigmas=%r' % (list(sig),))
        first, last = sorted([rnd.randrange(L), rnd.randrange(L)])
        sig, wgt = psi.sample_measurements(first, last, complex_amplitude=False)
        dims = [s.dim for s in psi.sites]
        pr = np.real(np.diag(rdm(vn.reshape(-1), dims, list(range(first, last + 1)))).reshape(dims[first:last + 1])[tuple(int(x) for x in sig)])
        o.close('probability', [wgt], [pr], detail='range %d..%d' % (first, last))
        # a non-normalised theta is refused
        p2 = psi.copy()
        p2._B[0] = p2._B[0] * 1.5
        o.raises('norm_tol', ValueError, lambda: p2.sample_measurements())
        herm = [n for n in plain_ops(psi.sites[0]) if np.all(psi.sites[0].get_op(n).qtotal == 0)]
        nonh = [n for n in sorted(psi.sites[0].opnames) if np.linalg.norm(psi.sites[0].get_op(n).to_ndarray() - psi.sites[0].get_op(n).to_ndarray().conj().T) > 1e-6
                and np.all(psi.sites[0].get_op(n).qtotal == 0)]
        if nonh:
            o.raises('non-hermitian-op', ValueError, lambda: psi.sample_measurements(ops=[nonh[0]]))
    else:
        raise ValueError(sub)
    return finish(o, hist)


# ----------------------------------------------------------------------------------------------------------------
# C09


def eval_c09(case):
    from tenpy.networks.mps import MPS, MPSEnvironment
    from harness.C08 import Dense, plain_ops, jw_ops
    from harness.C09 import dense_permute, parities
    import tenpy.linalg.np_conserved as npc
    sub = case['sub']
    rnd = random.Random(case['seed'])
    nprng = np.random.default_rng(case['seed'])
    o = Orc('C09', sub)
    hist = []
    if sub == 'local_term_opts':
        kinds = rnd.choice([('SpinHalf', 'Sz'), ('Fermion', 'N'), ('Fermion', 'parity'), ('Spin1', None), ('Boson2', 'N')])
        psi, v, c = rand_finite(rnd, kinds=kinds)
        L = psi.L
        D = Dense(psi.sites)
        off = rnd.randint(0, 1)
        can_jw = psi.chinfo.qnumber > 0
        term = []
        for _ in range(rnd.randint(1, 3)):
            i = rnd.randrange(L - off)
            pool = plain_ops(psi.sites[i]) + (jw_ops(psi.sites[i]) * 2 if can_jw else [])
            term.append((rnd.choice(pool), i))
        new = D.term([(n, i + off) for n, i in term]) @ v.reshape(-1)
        if np.linalg.norm(new) > 1e-3 * np.linalg.norm(v):
            canon = rnd.random() < 0.5
            renorm = rnd.random() < 0.5
            amb = any(np.any(B.qtotal != 0) for B in psi._B)
            psi.apply_local_term(term, i_offset=off, canonicalize=canon, renormalize=renorm)
            want = new if not (canon and renorm) else new / np.linalg.norm(new) * np.linalg.norm(v)
            got = mc.np_state(psi).reshape(-1)
            if amb and np.linalg.norm(got + want) < np.linalg.norm(got - want):
                want = -want
            o.close('state', got, want, tol=1e-8, detail='term=%s i_offset=%d canonicalize=%r renormalize=%r' % (term, off, canon, renorm))
            if canon:
                o.true('norm_test', np.max(psi.norm_test()) < 1e-7)
        # an odd number of fermionic operators without parity information must be refused
        if kinds[0] == 'Fermion':
            s0 = mc.make_site('Fermion', None)
            p0 = MPS.from_product_state([s0] * 3, [0, 1, 0], unit_cell_width=3)
            o.raises('JW-without-charges', ValueError, lambda: p0.apply_local_term([('Cd', 1)]))
    elif sub == 'swap_ops':
        kinds = rnd.choice([('SpinHalf', 'Sz'), ('Spin1', None), ('Boson2', 'N'), ('Fermion', 'N'), ('Fermion', None), ('SHFermion', ('N', 'Sz'))])
        psi, v, c = rand_finite(rnd, kinds=kinds, L=rnd.randint(2, 4))
        L = psi.L
        sites = list(psi.sites)
        i = rnd.randrange(L - 1)
        perm = list(range(L))
        perm[i], perm[i + 1] = i + 1, i
        fermi = parities(sites[i]).any()
        mode = rnd.choice(['none', 'array', 'autoInv'] if not fermi else ['autoInv', 'array', 'none'])
        dims = [s.dim for s in sites]
        t = v.reshape(dims).astype(complex)
        dL, dR = dims[i], dims[i + 1]
        if mode == 'none':
            # plain transposition of the two physical legs (no fermionic sign)
            want = np.swapaxes(t, i, i + 1)
            psi.swap_sites(i, swap_op=None)
        elif mode == 'array':
            # the explicit bosonic swap operator of the doc-string
            legL, legR = sites[i].leg, sites[i + 1].leg
            sw = npc.Array.from_ndarray(np.eye(dL * dR).reshape([dL, dR, dL, dR]), [legL, legR, legL.conj(), legR.conj()],
                                        labels=['p1', 'p0', 'p0*', 'p1*'])
            want = np.swapaxes(t, i, i + 1)
            psi.swap_sites(i, swap_op=sw)
        else:
            new, _ = dense_permute(v.reshape(-1), sites, perm)
            want = new.reshape([dims[k] for k in np.argsort(perm)])
            if fermi:
                ni, nj = parities(sites[i]), parities(sites[i + 1])
                sh_i = [1] * L
                sh_i[i + 1] = dL     # after the swap the old left site sits at i+1
                sh_j = [1] * L
                sh_j[i] = dR
                ph = ((-1.0j) ** ni).reshape(sh_i) * ((-1.0j) ** nj).reshape(sh_j)
                want = want * ph
            psi.swap_sites(i, swap_op='autoInv')
        o.close('state', mc.np_state(psi), want, tol=1e-8, detail='swap_op=%s fermionic=%s site %d' % (mode, fermi, i))
        o.raises('bad-swap_op', ValueError, lambda: psi.swap_sites(0, swap_op=3.14))
        if fermi:
            o.raises('bad-swap_op-string', ValueError, lambda: psi.swap_sites(0, swap_op='nonsense'))
    elif sub == 'compute_K':
        kinds = rnd.choice([('SpinHalf', None), ('SpinHalf', 'Sz'), ('Spin1', 'Sz')])
        s = mc.make_site(*kinds)
        npairs = rnd.randint(1, 2)
        L = 2 * npairs
        pairs = [(2 * k, 2 * k + 1) for k in range(npairs)]
        psi = MPS.from_singlets(s, L, pairs, bc='infinite', unit_cell_width=L)
        swapped = [k for k in range(npairs) if rnd.random() < 0.6]
        perm = list(range(L))
        for k in swapped:
            perm[2 * k], perm[2 * k + 1] = 2 * k + 1, 2 * k
        with warnings.catch_warnings():
            warnings.simplefilter('ignore')
            U, W, q, ov, err = psi.compute_K(perm)
        o.close('ov', [ov], [(-1.0) ** len(swapped)], tol=1e-8, detail='swapping the partners of %d singlets' % len(swapped))
        o.close('W', np.sort(np.abs(W)), np.sort(psi.get_SL(0) ** 2), tol=1e-8)
        o.true('trunc', err.eps < 1e-12)
        fin = MPS.from_singlets(s, L, pairs, bc='finite', unit_cell_width=L)
        o.raises('finite', ValueError, lambda: fin.compute_K(perm))
        # the permutation given as a lattice: translation by one site around the cylinder.  Rings of two sites holding a
        # singlet (odd under the translation) or two parallel spins (even)
        from tenpy.models import lattice as lat_mod
        Lx = rnd.randint(1, 2)
        lat = lat_mod.Square(Lx, 2, s, bc_MPS='infinite', bc='periodic')
        rings = [(int(lat.lat2mps_idx([x, 0, 0])), int(lat.lat2mps_idx([x, 1, 0]))) for x in range(Lx)]
        sing = [r for r in rings if rnd.random() < 0.6]
        lonely = [i for r in rings if r not in sing for i in r]
        up = sorted(s.state_labels, key=lambda l_: s.state_labels[l_])[-1] if 'up' not in s.state_labels else 'up'
        dn = sorted(s.state_labels, key=lambda l_: s.state_labels[l_])[0] if 'down' not in s.state_labels else 'down'
        psi2 = MPS.from_singlets(s, 2 * Lx, [tuple(sorted(r)) for r in sing], up=up, down=dn, lonely=lonely, lonely_state=up, bc='infinite')
        with warnings.catch_warnings():
            warnings.simplefilter('ignore')
            U, W, q, ov, err = psi2.compute_K(lat)
        o.close('ov-lattice', [ov], [(-1.0) ** len(sing)], tol=1e-8, detail='Square %dx2 cylinder, %d singlet rings, %d parallel rings' % (Lx, len(sing), Lx - len(sing)))
        o.close('W-lattice', np.sort(np.abs(W)), np.sort(psi2.get_SL(0) ** 2), tol=1e-8)
    elif sub == 'perturb':
        kinds = rnd.choice([('SpinHalf', 'Sz'), ('Fermion', 'N'), ('Spin1', 'Sz'), ('SpinHalf', None)])
        psi, v, c = rand_finite(rnd, kinds=kinds, L=rnd.randint(3, 5), normalize=True, form='B')
        q0 = psi.get_total_charge(True)
        close_1 = rnd.random() < 0.5
        canon = rnd.choice([None, True])
        psi.perturb({'N_steps': rnd.randint(1, 2)}, close_1=close_1, canonicalize=canon)
        w = mc.np_state(psi).reshape(-1)
        o.close('norm', [np.linalg.norm(w)], [1.0], tol=1e-8)
        o.true('charge-sector', sector_weight_ok(psi, w, q0), 'perturb left the charge sector')
        if canon or not close_1:
            o.true('norm_test', np.max(psi.norm_test()) < 1e-8, '%.3g' % np.max(psi.norm_test()))
        if close_1:
            o.true('close', abs(np.vdot(v.reshape(-1), w)) > 0.5, 'overlap with the unperturbed state %.3g' % abs(np.vdot(v.reshape(-1), w)))
    elif sub == 'compress_inf':
        psi, c = rand_infinite(rnd)
        L = psi.L
        n = L + 1
        rho0 = window_rho(psi, 0, n)
        chi0 = list(psi.chi)
        err = psi.compress_svd({'chi_max': max(chi0) + 2, 'svd_min': 1e-14})
        o.close('no-truncation' + ('[unit cell of one site]' if L == 1 else ''), window_rho(psi, 0, n), rho0, tol=1e-7,
                detail='compress_svd on infinite bc (L=%d) with chi_max above chi' % L)
        o.true('eps', err.eps < 1e-10, '%.3g' % err.eps)
        cm = max(1, max(chi0) - 1)
        err = psi.compress({'compression_method': 'SVD', 'trunc_params': {'chi_max': cm}})
        try:
            psi.test_sanity()
        except ValueError as e:
            o.fails.append((o.sig('invalid-mps-after-truncation' + ('[unit cell of one site]' if L == 1 else '')),
                            'compress_svd(chi_max=%d) on an infinite MPS with L=%d, chi=%r leaves tensors %r with S of length %r: %s' % (
                                cm, L, chi0, [B.shape for B in psi._B], [len(x) for x in psi._S], e)))
            return finish(o, hist)
        o.true('chi_max', max(psi.chi) <= cm, '%r > %d' % (psi.chi, cm))
        o.true('eps>=0', err.eps >= 0)
        seg = psi.extract_segment(0, L)
        o.raises('segment-unsupported', NotImplementedError, lambda: seg.compress_svd({'chi_max': 2}))
        o.raises('unknown-method', ValueError, lambda: psi.compress({'compression_method': 'nope', 'trunc_params': {}}))
    elif sub == 'compress_var':
        psi, v, c = rand_finite(rnd, L=rnd.randint(3, 4), normalize=True, kinds=rnd.choice([('SpinHalf', None), ('SpinHalf', 'Sz'), ('Fermion', 'N')]))
        cm = max(psi.chi) + 1
        with warnings.catch_warnings():
            warnings.simplefilter('ignore')
            psi.compress({'compression_method': 'variational', 'trunc_params': {'chi_max': cm}, 'max_sweeps': 2, 'min_sweeps': 1})
        w = mc.np_state(psi).reshape(-1)
        o.close('fidelity', [abs(np.vdot(v.reshape(-1), w)) / np.linalg.norm(w)], [1.0], tol=1e-8, detail='variational compression without truncation')
    elif sub == 'enlarged_segment':
        mode = rnd.random()
        if mode < 0.4:
            # two segments of the same background, enlarged on one or both sides, must stay comparable:
            # <enl(seg) | enl(O seg)> = <psi| O |psi>  (this is what segment_boundaries are for)
            kinds = rnd.choice([('SpinHalf', None), ('SpinHalf', 'Sz'), ('Fermion', 'N'), ('Spin1', 'Sz'), ('Spin1', None)])
            psi, v, c = rand_finite(rnd, kinds=kinds, L=5, normalize=True)
            L = psi.L
            first = rnd.randint(1, 2)
            last = rnd.randint(first + 1, 3)
            opts = [(x, y) for x in range(0, first + 1) for y in range(last, L) if (x, y) != (first, last)]
            one = [xy for xy in opts if xy[0] == first or xy[1] == last]
            nf, nl = rnd.choice(one if rnd.random() < 0.7 else opts)
            seg = psi.extract_segment(first, last)
            seg2 = seg.copy()
            from scipy.linalg import expm
            dims = [s_.dim for s_ in psi.sites]
            w2 = v.reshape(dims).astype(complex)
            applied = []
            for j in sorted(rnd.sample(range(seg.L), rnd.randint(1, 2))):
                st = seg2.sites[j]
                names = [x for x in plain_ops(st) if np.all(st.get_op(x).qtotal == 0)]
                pick = rnd.sample(names, min(2, len(names)))
                A_ = sum(rnd.uniform(0.3, 1.5) * st.get_op(x).to_ndarray() for x in pick)
                u = expm(1j * (A_ + A_.conj().T) / 2)     # a charge-neutral one-site unitary
                seg2.apply_local_op(j, npc.Array.from_ndarray(u, [st.leg, st.leg.conj()], labels=['p', 'p*'], dtype=complex), unitary=True)
                w2 = np.moveaxis(np.tensordot(u, w2, axes=(1, first + j)), 0, first + j)
                applied.append('exp(i(%s))@%d' % ('+'.join(pick), first + j))
            canon = rnd.random() < 0.5
            if canon:
                seg2.canonical_form_finite()
            if rnd.random() < 0.3:
                seg.canonical_form_finite()
            side = 'both sides' if nf < first and nl > last else ('right only' if nf == first else 'left only')
            tag = 'one-sided' if side != 'both sides' else 'two-sided'
            detail = 'segment %d..%d of L=5 enlarged to %d..%d (%s), ops %s, canonical_form_finite before=%s' % (first, last, nf, nl, side, applied, canon)
            try:
                b1, _, _ = seg.extract_enlarged_segment(psi, psi, first, last, new_first_last=(nf, nl))
                b2, _, _ = seg2.extract_enlarged_segment(psi, psi, first, last, new_first_last=(nf, nl))
                got = b1.overlap(b2) if b1.bc == 'finite' else MPSEnvironment(b1, b2).full_contraction(0)
            except (ValueError, NotImplementedError) as e:
                if isinstance(e, ValueError) and 'incompatible LegCharge' not in str(e):
                    raise
                o.fails.append((o.sig('overlap-raises[%s]' % tag), detail + ': %s: %s' % (type(e).__name__, str(e).splitlines()[0])))
            else:
                vn = v.reshape(-1)
                o.close('overlap[%s]' % tag, [got], [np.vdot(vn, w2.reshape(-1))], tol=1e-8, detail=detail)
            hist.append('parent=finite,' + side)
        elif mode < 0.7:
            psi, c = rand_infinite(rnd, L=rnd.randint(1, 2))
            L = psi.L
            first = rnd.randint(0, L - 1)
            last = first + rnd.randint(1, 2)
            seg = psi.extract_segment(first, last)
            addl, addr = rnd.randint(0, 1), rnd.randint(0, 1)
            big, nf, nl = seg.extract_enlarged_segment(psi, psi, first, last, add_unitcells=(addl, addr))
            n = nl - nf + 1
            if psi.sites[0].dim ** n <= 256:
                o.true('range', nf <= first and nl >= last and nf % L == 0 and (nl + 1) % L == 0, 'new range %d..%d' % (nf, nl))
                rho = np.einsum('asb,atb->st', *(2 * [mc.np_theta(big, 0, n).reshape(big.chi[0], -1, big.chi[-1])]))
                rho = np.einsum('asb,atb->st', mc.np_theta(big, 0, n).reshape(big.chi[0], -1, big.chi[-1]),
                                mc.np_theta(big, 0, n).reshape(big.chi[0], -1, big.chi[-1]).conj())
                o.close('rho', rho / np.trace(rho), window_rho(psi, nf, n), tol=1e-7, detail='enlarged segment %d..%d of an infinite MPS' % (nf, nl))
                o.true('norm_test', np.max(big.norm_test()) < 1e-7)
            hist.append('parent=infinite')
        else:
            psi, v, c = rand_finite(rnd, L=rnd.randint(4, 5), normalize=True)
            L = psi.L
            first = rnd.randint(1, L - 3)
            last = rnd.randint(first + 1, L - 2)
            seg = psi.extract_segment(first, last)
            big, nf, nl = seg.extract_enlarged_segment(psi, psi, first, last, add_unitcells=0)
            o.true('range', (nf, nl) == (0, L - 1) and big.bc == 'finite', 'new range %d..%d bc=%s' % (nf, nl, big.bc))
            o.close('state', [abs(np.vdot(v.reshape(-1), mc.np_state(big).reshape(-1)))], [1.0], tol=1e-8, detail='completing a segment of a finite MPS gives back the state')
            same, f2, l2 = seg.extract_enlarged_segment(psi, psi, first, last, new_first_last=(first, last))
            # (the same state on the same range; whether `self` or a copy is returned is not part of the property)
            o.true('nothing-to-do', (f2, l2) == (first, last) and same.L == seg.L and all(
                np.allclose(same.get_B(i).to_ndarray(), seg.get_B(i).to_ndarray()) for i in range(seg.L)))
            o.raises('both-or-none', ValueError, lambda: seg.extract_enlarged_segment(psi, psi, first, last))
            o.raises('outside-finite', ValueError, lambda: seg.extract_enlarged_segment(psi, psi, first, last, new_first_last=(-1, last)))
            hist.append('parent=finite')
    elif sub == 'subspace_expansion':
        psi, v, c = rand_finite(rnd, L=rnd.randint(3, 5))
        chi0 = list(psi.chi)
        if rnd.random() < 0.5:
            c2 = dict(c, seed=rnd.getrandbits(31), form='B', normalize=True)
            other = mc.build_state(c2)['psi']
            ok = np.all(other.get_total_charge(True) == psi.get_total_charge(True))
            psi.subspace_expansion(expand_into=[other] if ok else [])
        else:
            psi.subspace_expansion()
        o.close('state', mc.np_state(psi), v, tol=1e-8)
        o.true('chi', all(a >= b_ for a, b_ in zip(psi.chi, chi0)), '%r -> %r' % (chi0, psi.chi))
    elif sub == 'grouped_copy':
        psi, v, c = rand_finite(rnd, L=rnd.choice([2, 4, 4, 6]) if rnd.random() < 0.7 else 3, kinds=rnd.choice([('SpinHalf', None), ('SpinHalf', 'Sz'), ('Fermion', 'N')]))
        B0 = [B.copy() for B in mc.stored_tensors(psi)[0]]
        g = psi.get_grouped_mps(2)
        o.true('original-untouched', psi.L == len(B0) and all(np.array_equal(a, b_) for a, b_ in zip(mc.stored_tensors(psi)[0], B0)) and psi.grouped == 1)
        g2 = psi.copy()
        g2.group_sites(2)
        o.close('same-as-group_sites', mc.np_state(g), mc.np_state(g2))
        o.true('grouped', g.grouped == 2 and g.L == (psi.L + 1) // 2)
        g.group_split({'chi_max': 1000})
        o.close('roundtrip', mc.np_state(g), v, tol=1e-8)
    elif sub == 'enlarge_chi_inf':
        psi, c = rand_infinite(rnd, kinds=rnd.choice([('SpinHalf', None), ('Spin1', None), ('Fermion', None)]))
        L = psi.L
        n = L + 1
        rho0 = window_rho(psi, 0, n)
        chi0 = list(psi.chi)
        extra = [rnd.randint(0, 1) for _ in range(L)]
        if not any(extra):
            extra[0] = 1
        psi.enlarge_chi(extra, random_fct=lambda size: nprng.normal(size=size))
        o.true('chi', list(psi.chi) == [a + b_ for a, b_ in zip(chi0, extra)], '%r + %r -> %r' % (chi0, extra, psi.chi))
        o.close('rho', impl_rho(psi, 0, n), rho0, tol=1e-8, detail='enlarge_chi on infinite bc')
        o.raises('wrong-length', ValueError, lambda: psi.enlarge_chi([1] * (L + 2)))
    elif sub == 'local_op_inf':
        psi, c = rand_infinite(rnd, kinds=rnd.choice([('SpinHalf', None), ('Spin1', None), ('Fermion', None)]))
        L = psi.L
        s = psi.sites[0]
        n = L + 1 if s.dim ** (L + 2) > 256 else L + 2
        i = rnd.randrange(L)
        un = [x for x in plain_ops(s) if np.allclose(s.get_op(x).to_ndarray() @ s.get_op(x).to_ndarray().conj().T, np.eye(s.dim))
              and not np.allclose(s.get_op(x).to_ndarray(), np.eye(s.dim))]
        if un:
            nme = rnd.choice(un)
            u = s.get_op(nme).to_ndarray()
            rho0 = window_rho(psi, 0, n)
            from harness.C08 import Dense as _D
            D = _D([psi.sites[k % L] for k in range(n)])
            Uw = D.product([u if k % L == i else None for k in range(n)])
            psi.apply_local_op(i, nme, understood_infinite=True)
            o.close('rho', impl_rho(psi, 0, n), Uw @ rho0 @ Uw.conj().T, tol=1e-8, detail='%s on site %d of every unit cell' % (nme, i))
        if jw_ops(s):
            o.raises('JW-on-infinite', ValueError, lambda: psi.apply_local_op(0, jw_ops(s)[0], understood_infinite=True))
    elif sub == 'error_paths':
        psi, v, c = rand_finite(rnd, L=3)
        o.raises('roll-finite', ValueError, lambda: psi.copy().roll_mps_unit_cell(1))
        inf, ci = rand_infinite(rnd, L=2)
        o.raises('enlarge-factor-1', ValueError, lambda: inf.copy().enlarge_mps_unit_cell(1))
        o.raises('enlarge-noninteger', ValueError, lambda: inf.copy().enlarge_mps_unit_cell(1.5))
        seg = inf.extract_segment(0, 2)
        o.raises('enlarge-segment', ValueError, lambda: seg.enlarge_mps_unit_cell(2))
        o.raises('get_B-out-of-range', ValueError, lambda: psi.get_B(psi.L))
        nc = psi.copy()
        nc.form = [None] * nc.L
        o.raises('theta-noncanonical', ValueError, lambda: nc.get_theta(0, 2))
        o.raises('get_B-noncanonical', ValueError, lambda: nc.get_B(0, 'B'))
        o.raises('theta-n0', ValueError, lambda: psi.get_theta(0, 0))
        o.raises('convert-wrong-len', ValueError, lambda: psi.copy().convert_form(['A', 'B']))
        o.raises('op-labels', ValueError, lambda: psi.copy().apply_local_op(0, psi.sites[0].get_op('Id').replace_labels(['p', 'p*'], ['p', 'q'])))
        o.raises('add-different-bc', AssertionError, lambda: psi.add(inf, 1.0, 1.0))
        o.raises('product_op-length', ValueError, lambda: psi.copy().apply_product_op(['Id', 'Id']))
        # destroying the state is reported
        s = psi.sites[0]
        zero = s.get_op('Id') * 0.0
        o.raises('destroys-state', ValueError, lambda: psi.copy().apply_local_op(0, zero, unitary=False))
        if psi.L >= 2:
            two = npc.outer(zero.replace_labels(['p', 'p*'], ['p0', 'p0*']), psi.sites[1].get_op('Id').replace_labels(['p', 'p*'], ['p1', 'p1*']))
            o.raises('destroys-state-two-site', ValueError, lambda: psi.copy().apply_local_op(0, two, unitary=False))
            mixed = npc.outer(s.get_op('Id').replace_labels(['p', 'p*'], ['p0', 'p0*']), psi.sites[1].get_op('Id').replace_labels(['p', 'p*'], ['q', 'q*']))
            o.raises('op-labels-mixed', ValueError, lambda: psi.copy().apply_local_op(0, mixed))
            mixed2 = npc.outer(s.get_op('Id').replace_labels(['p', 'p*'], ['q', 'q*']), psi.sites[1].get_op('Id').replace_labels(['p', 'p*'], ['p1', 'p1*']))
            o.raises('op-labels-mixed2', ValueError, lambda: psi.copy().apply_local_op(0, mixed2))
            o.raises('op-labels-single-with-0', ValueError, lambda: psi.copy().apply_local_op(0, s.get_op('Id').replace_labels(['p', 'p*'], ['p0', 'p0*'])))
        # extract_enlarged_segment: argument checks
        sg = psi.extract_segment(0, 1)
        o.raises('enlarged-add_unitcells-3', ValueError, lambda: sg.extract_enlarged_segment(psi, psi, 0, 1, add_unitcells=(1, 1, 1)))
        o.raises('enlarged-bad-order', ValueError, lambda: sg.extract_enlarged_segment(psi, psi, 0, 1, new_first_last=(1, 2)))
        o.raises('enlarged-not-segment', ValueError, lambda: psi.extract_enlarged_segment(inf, inf, 0, 2, add_unitcells=1))
        o.raises('total-charge-only-physical-infinite', ValueError, lambda: inf.get_total_charge(only_physical_legs=True))
        # set_svd_theta without truncation parameters: the state and (optionally) the norm are kept
        if psi.L >= 2:
            i = rnd.randrange(psi.L - 1)
            fac = rnd.choice([1.0, 0.5, 3.0])
            th = psi.get_theta(i, 2).combine_legs([['vL', 'p0'], ['p1', 'vR']], qconj=[+1, -1]) * fac
            for upd in (False, True):
                q = psi.copy()
                n0 = q.norm
                err = q.set_svd_theta(i, th, None, update_norm=upd)
                o.close('set_svd_theta-no-trunc[update_norm=%s]' % upd, mc.np_state(q), v * (fac if upd else 1.0), tol=1e-9, detail='theta scaled by %g on bond %d' % (fac, i))
                o.true('set_svd_theta-no-trunc-err', err is None)
                q2 = psi.copy()
                err = q2.set_svd_theta(i, th, {'chi_max': 100, 'svd_min': 1e-14}, update_norm=upd)
                o.close('set_svd_theta-trunc_par[update_norm=%s]' % upd, mc.np_state(q2), v * (fac if upd else 1.0), tol=1e-9)
    elif sub == 'add_segment':
        # alpha |x> + beta |y> for two segment states sharing the outside (documented for 'segment' bc), with and
        # without segment_boundaries; compared in the basis of the original Schmidt states
        from scipy.linalg import expm
        kinds = rnd.choice([('SpinHalf', None), ('SpinHalf', 'Sz'), ('Fermion', 'N'), ('Spin1', 'Sz'), ('Spin1', None)])
        psi, v, c = rand_finite(rnd, kinds=kinds, L=5, normalize=True)
        a = rnd.randint(0, 1)
        b_ = rnd.randint(a + 1, 4 - rnd.randint(0, 1))
        n = b_ - a + 1
        seg = psi.extract_segment(a, b_)

        def variant():
            x = seg.copy()
            for j in sorted(rnd.sample(range(n), rnd.randint(0, 2))):
                st = x.sites[j]
                names = [nm for nm in plain_ops(st) if np.all(st.get_op(nm).qtotal == 0)]
                A_ = sum(rnd.uniform(0.3, 1.5) * st.get_op(nm).to_ndarray() for nm in rnd.sample(names, min(2, len(names))))
                u = expm(1j * (A_ + A_.conj().T) / 2)
                x.apply_local_op(j, npc.Array.from_ndarray(u, [st.leg, st.leg.conj()], labels=['p', 'p*'], dtype=complex), unitary=True)
            x.norm = rnd.choice([1.0, 0.5, 2.0])
            if rnd.random() < 0.5:
                x.canonical_form_finite()
            return x

        def orig_theta(x):
            t = mc.np_theta(x, 0, n) * x.norm
            U, V = x.segment_boundaries
            if U is not None:
                t = np.tensordot(U.itranspose(['vL', 'vR']).to_ndarray(), t, axes=(1, 0))
                t = np.tensordot(t, V.itranspose(['vL', 'vR']).to_ndarray(), axes=(-1, 0))
            return t
        x, y = variant(), variant()
        al = rnd.choice([1.0, -0.5, 0.3 + 0.4j])
        be = rnd.choice([1.0, 2.0, -1j])
        want = al * orig_theta(x) + be * orig_theta(y)
        if np.linalg.norm(want) > 1e-6:
            z = x.add(y, al, be)
            o.close('theta', orig_theta(z), want, tol=1e-8, detail='segment %d..%d of L=5, boundaries x=%s y=%s, alpha=%r beta=%r' % (
                a, b_, x.segment_boundaries[0] is not None, y.segment_boundaries[0] is not None, al, be))
            o.true('bc', z.bc == 'segment' and z.segment_boundaries[0] is not None)
            o.true('norm_test', np.max(z.norm_test()) < 1e-8)
            qx = x.get_total_charge()
            o.true('total-charge', np.all(z.get_total_charge() == qx), '%r vs %r' % (z.get_total_charge(), qx))
    elif sub == 'swap_inf':
        # swap / permute inside the unit cell of an infinite MPS, compared on a window
        psi, c = rand_infinite(rnd, L=rnd.randint(2, 3), kinds=rnd.choice([('SpinHalf', None), ('Fermion', None), ('Spin1', None)]))
        L = psi.L
        s = psi.sites[0]
        n = 2 * L if s.dim ** (2 * L) <= 256 else L
        i = rnd.randrange(L - 1)
        rho0 = window_rho(psi, 0, n)
        dims = [s.dim] * n
        perm = list(range(n))
        for k in range(0, n, L):
            perm[k + i], perm[k + i + 1] = k + i + 1, k + i
        # dense permutation operator with fermionic signs on the window
        Dn = int(np.prod(dims))
        P = np.zeros((Dn, Dn), dtype=complex)
        for col in range(Dn):
            e = np.zeros(Dn)
            e[col] = 1.0
            P[:, col] = dense_permute(e, [s] * n, perm)[0]
        err = psi.swap_sites(i)
        o.close('rho', impl_rho(psi, 0, n), P @ rho0 @ P.conj().T, tol=1e-8, detail='swap_sites(%d) in every unit cell' % i)
        o.true('norm_test', np.max(psi.norm_test()) < 1e-7)
    else:
        raise ValueError(sub)
    return finish(o, hist)
