"""Fault injector for `Simulation.save_results` (C18).  No source edit: module attributes are wrapped.

A *scenario* is run in a forked child of the calling process:
  fresh run   `run_simulation(**params)`            in directory `spec['dir']`
  resumed run `resume_from_checkpoint(filename=..)` in the same directory
Every file-system step on the two watched names (output file, backup file) is appended to a trace
file *before* it is executed and counted; when the counter reaches `spec['crash'][0]` the child dies
with `os._exit(77)` *instead of* executing that step (so exactly `k` steps went through).  For a write
step a sub-specification describes a crash inside the step:
  pickle: a float `f` in (0,1): write the first `int(f*len)` bytes of this chunk, fsync, die
  hdf5  : 'flush'  -> `file.flush()` (everything created so far reaches the disk), die
          a float at the `close` step: close the file, truncate it to `int(f*size)` bytes, die
          (= only a byte prefix of the file reached the disk)

Trace lines (JSON): ["exists",name,bool] ["unlink",name] ["rename",src,dst] ["create",name]
["write",name,n] (n = bytes on disk for pickle / objects created for hdf5) ["close",name] ["stub",name]
and markers that are not file-system steps: ["save_begin"] ["save_end"] ["done"] ["error",text].
"""
import json
import os
import sys
import traceback

EXIT_CRASH = 77
EXIT_ERROR = 3


class Injector:
    def __init__(self, names, trace_path, crash=None, snapshot_dir=None):
        # names: {'out': 'a.pkl', 'backup': 'a.backup.pkl'}
        self.by_file = {v: k for k, v in names.items()}
        self.names = names
        self.fd = os.open(trace_path, os.O_WRONLY | os.O_CREAT | os.O_APPEND, 0o644)
        self.crash_at = None if crash is None else crash[0]
        self.crash_sub = None if crash is None else crash[1]
        self.n_ops = 0
        self.n_saves = 0
        self.snapshot_dir = snapshot_dir
        self._undo = []

    # ---------------------------------------------------------------- bookkeeping
    def log(self, *ev):
        os.write(self.fd, (json.dumps(list(ev)) + '\n').encode())

    def die(self):
        os._exit(EXIT_CRASH)

    def op(self, *ev):
        """Called before an atomic step.  Returns the sub-spec if the crash is *inside* this step."""
        if self.crash_at is not None and self.n_ops == self.crash_at:
            if self.crash_sub is None:
                self.die()
            return self.crash_sub  # caller performs the partial step and dies
        self.n_ops += 1
        self.log(*ev)
        return None

    def which(self, path):
        try:
            p = os.fspath(path)
        except TypeError:
            return None
        if os.path.dirname(os.path.abspath(p)) != os.getcwd():
            return None
        return self.by_file.get(os.path.basename(p))

    # ---------------------------------------------------------------- patches
    def install(self):
        import pathlib
        import h5py
        from tenpy.tools import hdf5_io
        from tenpy.simulations import simulation
        inj = self
        P = pathlib.Path
        o_exists, o_unlink, o_rename, o_open = P.exists, P.unlink, P.rename, P.open

        def exists(self, *a, **k):
            w = inj.which(self)
            r = o_exists(self, *a, **k)
            if w is not None:
                if inj.op('exists', w, bool(r)) is not None:
                    inj.die()
            return r

        def unlink(self, *a, **k):
            w = inj.which(self)
            if w is not None and inj.op('unlink', w) is not None:
                inj.die()
            return o_unlink(self, *a, **k)

        def rename(self, target, *a, **k):
            w, t = inj.which(self), inj.which(target)
            if w is not None or t is not None:
                if inj.op('rename', w, t) is not None:
                    inj.die()
            return o_rename(self, target, *a, **k)

        def p_open(self, mode='r', *a, **k):
            w = inj.which(self)
            if w is not None and 'w' in mode:
                if inj.op('stub', w) is not None:
                    inj.die()
            return o_open(self, mode, *a, **k)

        P.exists, P.unlink, P.rename, P.open = exists, unlink, rename, p_open
        self._undo.append(lambda: (setattr(P, 'exists', o_exists), setattr(P, 'unlink', o_unlink),
                                   setattr(P, 'rename', o_rename), setattr(P, 'open', o_open)))

        # --- pickle: `open(filename, 'wb')` inside hdf5_io.save ---------------------------------
        import builtins

        class FileProxy:
            def __init__(self, name, filename, mode):
                self.name_ = name
                self.f = builtins.open(filename, mode, buffering=0)
                self.n = 0

            def write(self, data):
                data = bytes(data)
                sub = inj.op('write', self.name_, self.n + len(data))
                if sub is not None:
                    m = min(len(data) - 1, max(0, int(float(sub) * len(data)))) if sub != 'flush' else 0
                    self.f.write(data[:m])
                    os.fsync(self.f.fileno())
                    inj.log('write', self.name_, self.n + m, 'partial')
                    inj.die()
                self.n += len(data)
                return self.f.write(data)

            def __enter__(self):
                return self

            def __exit__(self, *exc):
                if exc[0] is None:
                    if inj.op('close', self.name_) is not None:
                        inj.die()
                self.f.close()
                return False

            def close(self):
                self.f.close()

        def h_open(filename, mode='r', *a, **k):
            w = inj.which(filename)
            if w is not None and 'w' in mode:
                if inj.op('create', w) is not None:
                    inj.die()
                return FileProxy(w, filename, mode)
            return builtins.open(filename, mode, *a, **k)

        hdf5_io.open = h_open
        self._undo.append(lambda: delattr(hdf5_io, 'open'))

        # --- hdf5: `h5py.File(filename, 'w')` ----------------------------------------------------
        RealFile = h5py.File
        o_cds, o_cgr = h5py.Group.create_dataset, h5py.Group.create_group
        state = {'file': None, 'name': None, 'n': 0}

        class File(RealFile):
            def __init__(self, name, mode='r', *a, **k):
                w = inj.which(name)
                self._c18 = w if (w is not None and mode == 'w') else None
                if self._c18 is not None:
                    if inj.op('create', w) is not None:
                        inj.die()
                super().__init__(name, mode, *a, **k)
                if self._c18 is not None:
                    state.update(file=self, name=w, n=0, path=os.fspath(name))

            def __exit__(self, *exc):
                if self._c18 is not None and exc[0] is None:
                    sub = inj.op('close', self._c18)
                    if sub is not None:
                        path = state['path']
                        state['file'] = None
                        RealFile.close(self)
                        if sub != 'flush':
                            size = os.path.getsize(path)
                            m = min(size - 1, max(0, int(float(sub) * size)))
                            os.truncate(path, m)
                            inj.log('write', self._c18, state['n'], 'partial', m)
                        inj.die()
                    state['file'] = None
                return super().__exit__(*exc)

        def node(self_grp):
            f = state['file']
            if f is None:
                return
            try:
                same = self_grp.file.id == f.id
            except Exception:
                same = False
            if not same:
                return
            sub = inj.op('write', state['name'], state['n'] + 1)
            if sub is not None:
                if sub == 'flush':
                    f.flush()
                    inj.log('write', state['name'], state['n'], 'partial', 'flush')
                else:
                    inj.log('write', state['name'], state['n'], 'partial', 'noflush')
                inj.die()
            state['n'] += 1

        def create_dataset(self, *a, **k):
            node(self)
            return o_cds(self, *a, **k)

        def create_group(self, *a, **k):
            node(self)
            return o_cgr(self, *a, **k)

        h5py.File = File
        h5py.Group.create_dataset, h5py.Group.create_group = create_dataset, create_group
        self._undo.append(lambda: (setattr(h5py, 'File', RealFile), setattr(h5py.Group, 'create_dataset', o_cds),
                                   setattr(h5py.Group, 'create_group', o_cgr)))

        # --- markers around save_results (not file-system steps) ---------------------------------
        Sim = simulation.Simulation
        o_save = Sim.save_results

        def save_results(sim, results=None):
            if sim.output_filename is None:
                return o_save(sim, results)
            inj.log('save_begin')
            r = o_save(sim, results)
            inj.n_saves += 1
            inj.log('save_end')
            if inj.snapshot_dir is not None:
                import shutil
                shutil.copy(str(sim.output_filename),
                            os.path.join(inj.snapshot_dir, 'snap%d%s' % (inj.n_saves, sim.output_filename.suffix)))
            return r

        Sim.save_results = save_results
        self._undo.append(lambda: setattr(Sim, 'save_results', o_save))

    def uninstall(self):
        for u in reversed(self._undo):
            u()
        self._undo = []


def backup_name(out):
    root, ext = os.path.splitext(out)
    return root + '.backup' + ext


def run_scenario(spec):
    """Fork; run the scenario in the child; return (exit_code, trace)."""
    trace_path = spec['trace']
    if os.path.exists(trace_path):
        os.unlink(trace_path)
    sys.stdout.flush()
    sys.stderr.flush()
    pid = os.fork()
    if pid == 0:
        code = EXIT_ERROR
        try:
            _child(spec)
            code = 0
        except SystemExit as e:
            code = e.code if isinstance(e.code, int) else EXIT_ERROR
        except BaseException:
            try:
                fd = os.open(trace_path, os.O_WRONLY | os.O_CREAT | os.O_APPEND, 0o644)
                os.write(fd, (json.dumps(['error', traceback.format_exc()[-3000:]]) + '\n').encode())
            except BaseException:
                pass
        finally:
            os._exit(code)
    _, status = os.waitpid(pid, 0)
    code = os.waitstatus_to_exitcode(status)
    trace = []
    if os.path.exists(trace_path):
        with open(trace_path) as f:
            for line in f:
                line = line.strip()
                if line:
                    trace.append(json.loads(line))
    return code, trace


def _child(spec):
    import warnings
    import logging
    warnings.simplefilter('ignore')
    logging.disable(logging.CRITICAL)
    import copy
    import tenpy
    import tenpy.tools.misc
    tenpy.tools.misc.skip_logging_setup = True
    from tenpy.simulations import simulation
    os.chdir(spec['dir'])
    out = spec['out']
    inj = Injector({'out': out, 'backup': backup_name(out)}, spec['trace'], spec.get('crash'),
                   spec.get('snapshot_dir'))
    inj.install()
    if spec['mode'] == 'fresh':
        params = copy.deepcopy(spec['params'])
        params['output_filename'] = out
        simulation.run_simulation(**params)
    else:
        simulation.resume_from_checkpoint(filename=spec['resume_from'],
                                          update_sim_params=spec.get('update_sim_params'))
    inj.log('done')
