"""C08 — MPS measurements equal dense quantum mechanics.

Real code: every measurement function of tenpy.networks.mps.MPS / MPSEnvironment on generated states (identical
and different bra/ket, fermionic and mixed sites, all orderings i<j, i=j, i>j, operator strings, hermitian flag).
Oracle (no model): <bra|O|ket> with dense numpy operators built by kron, Jordan-Wigner strings explicit.
Model: the Lean driver evaluates overlaps and product-operator matrix elements by transfer matrices
(`overlapTM`, model of MPSEnvironment), one-site expectation values by the canonical short cut and the Born weight
of sample_measurements on the implementation's own tensors.
"""
import copy
import itertools
import random
import sys
import warnings

import numpy as np

from vlib import core
from harness import mps_common as mc
from harness import mps_extra as mx
from harness import c08_ext as cx

sys.path.insert(0, str(core.ROOT / 'tools'))

PROP = 'C08'
MODEL_MODULES = ['TenpyModel.Util.J', 'TenpyModel.MPS.Eval', 'TenpyModel.C08.ExtCorr', 'TenpyModel.C08.ExtSample',
                 'TenpyModel.C08.ExtArgs', 'TenpyModel.C08.ExtEval']
PROPS_MODULES = ['TenpyModel.C08.Props', 'TenpyModel.C08.PropsMPS', 'TenpyModel.C08.Props2',
                 'TenpyModel.C08.PropsExtCorr', 'TenpyModel.C08.PropsExtCorrMat', 'TenpyModel.C08.PropsExtSample',
                 'TenpyModel.C08.PropsExtArgs']
LEVEL = 'proof'
BUDGET = {'quick': 200, 'thorough': 1500}
RULE = ('kets and bras from from_full / random block-sparse tensors + canonical_form / from_singlets / product states '
        'on L=2..7 over all site kinds (fermionic, bosonic, spinful fermions, mixed chains, every conserve option), '
        'norms != 1; per state a random selection of: overlap, expectation_value (1- and 2-site operators, all '
        'operator names), expectation_value_multi_sites, expectation_value_term (random order, repeated sites, '
        'fermionic with autoJW), correlation_function (all site pairs, fermionic autoJW, explicit opstr with '
        'str_on_first True/False, hermitian flag), term_correlation_function_right/left, '
        'expectation_value_terms_sum, get_rho_segment (consecutive and not), mutinf_two_site, '
        'probability_per_charge/average_charge/charge_variance, sample_measurements (amplitude and probability, '
        'partial ranges, eigenbases), MPSEnvironment(bra, ket) variants of the expectation values; infinite MPS on '
        'a window and segment MPS. Non-trivial: some bond dimension > 1; distinct by content hash. '
        'Extension part (harness/c08_ext.py, own PRNG stream "ext", driver C08): _corr_up_diag with 1..L-1 targets and both '
        'operator orders, correlation_function matrices with sites None/int/list, hermitian flag used properly / '
        'switched off / misused, duplicate sites (malformed), sample_measurements on windows of finite and infinite '
        'MPS with lists of measurement bases and the probability flag, empty / out-of-range windows, '
        'expectation_value argument parsing (n-site operators, default and explicit sites, wrong axes, windows '
        'beyond the chain), get_op on every index of -2L..3L, mutinf_two_site coordinates, default j_R; repeated evaluation '
        '(2-3 times) of the same TermList / term / ops lists / site arrays / caller-owned numpy strength arrays on fermionic '
        'finite and infinite MPS (unordered fermionic terms, terms beyond the first unit cell, shift() copies): every '
        'evaluation equals the dense value, caller-owned arguments bit-identical afterwards, an evaluated TermList still '
        'describes the same operator.')
TRUSTED = ['Lean 4.33 kernel; axioms of every C08_* theorem ⊆ {propext, Classical.choice, Quot.sound}',
           'model lean/TenpyModel/MPS/{Chain,Basic,Measure}.lean tied to tenpy/networks/mps.py by this run',
           'dense oracle: numpy kron operators built from Site.get_op(...).to_ndarray() (operator tables are C12), '
           'Jordan-Wigner strings inserted explicitly from Site.JW',
           'serialiser harness/mps_common.py, drivers lean/drivers/C07.lean and lean/drivers/C08.lean '
           '(tabulated evaluation lean/TenpyModel/C08/ExtEval.lean, cross-checked against the literal definitions by selfcheck lines)']
ASSUMPTIONS = ['LAPACK eigh/eigvalsh inside mutinf/entropy functions and the MPO route of expectation_value_terms_sum '
               'are compared numerically (1e-9 / 1e-8), not modelled']

TOL = 1e-9


def regenerate(ctx):
    import gen_C07
    return gen_C07.regenerate(ctx.repo, core.LEAN_DIR)


# ----------------------------------------------------------------------------------------------------------------
# dense operators


class Dense:
    """dense operator algebra on a chain of sites (site basis order = the sites' own order)."""

    def __init__(self, sites):
        self.sites = sites
        self.dims = [s.dim for s in sites]
        self.L = len(sites)
        self.D = int(np.prod(self.dims))
        self._jw = [s.get_op('JW').to_ndarray() for s in sites]

    def local(self, k, mat):
        """kron(Id, ..., mat at k, ..., Id)"""
        out = np.array([[1.0]])
        for i in range(self.L):
            out = np.kron(out, mat if i == k else np.eye(self.dims[i]))
        return out

    def product(self, mats):
        """kron of one matrix per site (None = identity)"""
        out = np.array([[1.0]])
        for i in range(self.L):
            out = np.kron(out, np.eye(self.dims[i]) if mats[i] is None else mats[i])
        return out

    def op(self, k, name, with_jw=True):
        """full operator of the (possibly fermionic) one-site operator `name` at site k; JW string on sites < k."""
        s = self.sites[k]
        m = s.get_op(name).to_ndarray()
        mats = [None] * self.L
        mats[k] = m
        if with_jw and s.op_needs_JW(name):
            for i in range(k):
                mats[i] = self._jw[i]
        return self.product(mats)

    def term(self, term):
        """operator of a term [(name, i), ...] in the mathematical order (last acts first), fermionic signs
        through explicit JW strings."""
        out = np.eye(self.D)
        for name, i in term:
            out = out @ self.op(i, name)
        return out


def rdm(vec, dims, keep):
    """reduced density matrix of the sites in `keep` (sorted), row index = ket."""
    L = len(dims)
    psi = vec.reshape(dims)
    other = [i for i in range(L) if i not in keep]
    psi = np.transpose(psi, list(keep) + other).reshape(int(np.prod([dims[i] for i in keep])), -1)
    return psi @ psi.conj().T


def entropy(p, n=1):
    p = np.asarray(p).real
    p = p[p > 1e-30]
    if n == 1:
        return float(-np.sum(p * np.log(p)))
    return float(np.log(np.sum(p ** n)) / (1.0 - n))


# ----------------------------------------------------------------------------------------------------------------


def gen_cases(rng, n, quick):
    cases = []
    Lmax = 5 if quick else 7
    while len(cases) < n:
        r = rng.random()
        if r < 0.12:
            L = rng.randint(1, 3)
            k = rng.choice(INF_KINDS)
            lo = rng.choice([1, 2])
            case = dict(kind='inf', seed=rng.getrandbits(31), complex=rng.random() < 0.3,
                        sites={'kinds': [[k[0], list(k[1]) if isinstance(k[1], tuple) else k[1]]] * L},
                        chi=[rng.randint(lo, lo + 1) for _ in range(L)])
            if max(case['chi']) == 1:
                case['chi'][0] = 2
            cases.append(case)
            continue
        kind = rng.choice(['full', 'full', 'randB', 'randB', 'singlets', 'product'])
        dmax = 128 if quick else 512
        ket = mc.gen_case(rng, [kind], Lmax=Lmax, dmax=dmax)
        if kind == 'randB':
            ket['canon'] = rng.choice([True, False])
        if kind == 'full':
            ket['form'] = rng.choice([None, 'A', 'B', 'C'])
        if kind == 'product':
            ket['p_modes'] = ['label' if rng.random() < 0.7 else 'int' for _ in ket['p_modes']]
            if len(ket['p_modes']) < 2:
                continue
        if int(np.prod([mc.site_dim(k) for k, _ in ket['sites']['kinds']])) > (128 if quick else 512):
            continue   # dense operators are D x D
        # bra: same sites, other random state
        bra = dict(kind='full', seed=rng.getrandbits(31), complex=ket['complex'], sites=ket['sites'],
                   form=rng.choice([None, 'B']), normalize=rng.random() < 0.5, density=1.0)
        if rng.random() < 0.3:
            bra = dict(kind='randB', seed=rng.getrandbits(31), complex=ket['complex'], sites=ket['sites'],
                       max_mult=2, canon=False)
        cases.append(dict(kind='finite', seed=rng.getrandbits(31), ket=ket, bra=bra, sites=ket['sites'],
                          segment=rng.random() < 0.15))
    return cases


INF_KINDS = [('SpinHalf', None), ('SpinHalf', 'parity'), ('Spin1', None), ('Spin1', 'parity'), ('Fermion', None),
             ('Fermion', 'parity'), ('Boson2', None), ('SHFermion', (None, None))]


def hc_name(site, name):
    try:
        return site.get_hc_op_name(name)
    except Exception:
        return None


def plain_ops(site):
    """operator names without JW need"""
    return sorted(n for n in site.opnames if not site.op_needs_JW(n))


def jw_ops(site):
    return sorted(n for n in site.opnames if site.op_needs_JW(n) and n != 'JW' and not n.startswith('JW'))


def mat_enc(m):
    return mc.enc_flat(np.asarray(m))


def eval_case(case):
    if case['kind'] == 'ext':
        return cx.eval_ext(case)
    if case['kind'] == 'extra':
        return mx.eval_c08(case)
    if case['kind'] == 'inf':
        return eval_inf(case)
    return eval_finite(case)


def same_total_charge(a, b):
    try:
        return bool(np.all(a.get_total_charge(True) == b.get_total_charge(True)))
    except Exception:
        return True


def eval_finite(case):
    from tenpy.networks.mps import MPS, MPSEnvironment
    from tenpy.networks.terms import TermList
    import tenpy.linalg.np_conserved as npc
    rnd = random.Random(case['seed'])
    oracle, lines, expects = [], [], []
    stk = mc.build_state(case['ket'])
    psi = stk['psi']
    sites = psi.sites
    L = psi.L
    hist = ['kind=' + case['ket']['kind'], 'L=%d' % L, 'complex=%s' % case['ket'].get('complex'),
            'sites=' + '+'.join(sorted({'%s/%s' % (k, str(c)) for k, c in case['sites']['kinds']}))[:60]]
    ferm = [mc.is_fermionic(s) for s in sites]
    hist.append('fermionic=%s' % any(ferm))
    D = Dense(sites)
    ketv = (mc.np_state(psi)).reshape(-1)          # includes norm
    ketn = ketv / np.linalg.norm(ketv)             # normalised (what MPS-level functions use)
    ref = stk['ref'].reshape(-1)
    if not mc.close(ketv, ref, 1e-8 * max(1.0, np.max(np.abs(ref)))):
        return dict(skip='ket does not denote its input (C07 territory)')
    hist.append('chimax=%d' % max(psi.chi))

    def add(sig, got, want, tol=TOL, detail=''):
        got = np.asarray(got)
        want = np.asarray(want)
        scale = max(1.0, float(np.max(np.abs(want))) if want.size else 1.0)
        if got.shape != want.shape or not np.all(np.abs(got - want) <= tol * scale):
            oracle.append((sig, '%s got %s want %s' % (detail, np.array2string(got.ravel()[:6], precision=6),
                                                       np.array2string(want.ravel()[:6], precision=6))))

    def ev(op, bra=ketn, ket=ketn):
        return bra.conj() @ (op @ ket)

    # ---------------- expectation_value, one-site, all plain operator names
    for name in plain_ops(sites[0]) if len(set(map(id, sites))) == 1 else ['Id']:
        got = psi.expectation_value(name)
        want = [ev(D.op(i, name)) for i in range(L)]
        add('C08.expectation_value.one-site', got, want, detail=name)
    # per-site list of operators on a site subset
    sub = sorted(rnd.sample(range(L), rnd.randint(1, L)))
    names = [rnd.choice(plain_ops(sites[i])) for i in range(L)]
    got = psi.expectation_value(names, sites=sub)
    add('C08.expectation_value.site-list', got, [ev(D.op(i, names[i])) for i in sub], detail=str((names, sub)))
    # operators needing JW must be refused by MPS.expectation_value
    jw_sites = [i for i in range(L) if jw_ops(sites[i])]
    if jw_sites:
        i = rnd.choice(jw_sites)
        try:
            psi.expectation_value(rnd.choice(jw_ops(sites[i])), sites=[i])
            oracle.append(('C08.expectation_value.JW-not-refused', 'site %d' % i))
        except ValueError:
            pass
    # two-site operator
    if L >= 2:
        i = rnd.randrange(L - 1)
        n1, n2 = rnd.choice(plain_ops(sites[i])), rnd.choice(plain_ops(sites[i + 1]))
        op2 = npc.outer(sites[i].get_op(n1).replace_labels(['p', 'p*'], ['p0', 'p0*']),
                        sites[i + 1].get_op(n2).replace_labels(['p', 'p*'], ['p1', 'p1*']))
        got = psi.expectation_value(op2, sites=[i])
        add('C08.expectation_value.two-site', got, [ev(D.op(i, n1) @ D.op(i + 1, n2))], detail=str((n1, n2, i)))
        # multi_sites
        i0 = rnd.randrange(L - 1)
        m = rnd.randint(2, L - i0)
        ops = [rnd.choice(plain_ops(sites[i0 + k])) for k in range(m)]
        got = psi.expectation_value_multi_sites(ops, i0)
        full = np.eye(D.D)
        for k, nme in enumerate(ops):
            full = full @ D.op(i0 + k, nme)
        add('C08.expectation_value_multi_sites', [got], [ev(full)], detail=str((ops, i0)))
    # ---------------- terms (random order, repeated sites, fermions with autoJW)
    for _ in range(2):
        nops = rnd.randint(1, 4)
        term = []
        for _ in range(nops):
            i = rnd.randrange(L)
            pool = plain_ops(sites[i]) + jw_ops(sites[i]) * 2
            term.append((rnd.choice(pool), i))
        njw = sum(sites[i].op_needs_JW(nme) for nme, i in term)
        try:
            got = psi.expectation_value_term(term)
            if njw % 2 == 1:
                oracle.append(('C08.expectation_value_term.odd-JW-not-refused', str(term)))
            else:
                add('C08.expectation_value_term', [got], [ev(D.term(term))], detail=str(term))
        except ValueError as e:
            if njw % 2 == 0:
                oracle.append(('C08.expectation_value_term.raises', '%s: %r' % (term, e)))
    # ---------------- correlation_function
    def corr_want(o1, o2, s1, s2, opstr=None, str_on_first=True, bra=ketn, ket=ketn):
        C = np.zeros((len(s1), len(s2)), dtype=complex)
        for x, i in enumerate(s1):
            for y, j in enumerate(s2):
                A = sites[i].get_op(o1[i % len(o1)]).to_ndarray()
                B = sites[j].get_op(o2[j % len(o2)]).to_ndarray()
                mats = [None] * L
                if i == j:
                    mats[i] = A @ B
                else:
                    lo, hi = min(i, j), max(i, j)
                    if i < j:
                        mats[i], mats[j] = A, B
                    else:
                        mats[j], mats[i] = B, A
                    if opstr is not None:
                        for r in range(lo, hi):
                            S = sites[r].get_op(opstr[r % len(opstr)]).to_ndarray()
                            if r == lo:
                                if not str_on_first:
                                    continue
                                # i<j: op1·str (string acts first);  i>j: str·op2 (op2 acts first)
                                mats[r] = (mats[r] @ S) if i < j else (S @ mats[r])
                            else:
                                mats[r] = S
                C[x, y] = ev(D.product(mats), bra, ket)
        return C

    s1 = sorted(rnd.sample(range(L), rnd.randint(1, L)))
    s2 = sorted(rnd.sample(range(L), rnd.randint(1, L)))
    # (a) bosonic / plain operators, optional explicit string
    o1 = [rnd.choice(plain_ops(sites[i])) for i in range(L)]
    o2 = [rnd.choice(plain_ops(sites[i])) for i in range(L)]
    use_str = rnd.random() < 0.6
    opstr = [rnd.choice(plain_ops(sites[i])) for i in range(L)] if use_str else None
    sof = rnd.random() < 0.6
    got = psi.correlation_function(o1, o2, s1, s2, opstr=opstr, str_on_first=sof)
    add('C08.correlation_function.plain', got, corr_want(o1, o2, s1, s2, opstr, sof),
        detail='ops1=%s ops2=%s sites1=%s sites2=%s opstr=%s str_on_first=%s' % (o1, o2, s1, s2, opstr, sof))
    # (b) fermionic with autoJW: both operators need JW
    if all(jw_ops(s) for s in sites):
        f1 = [rnd.choice(jw_ops(sites[i])) for i in range(L)]
        f2 = [rnd.choice(jw_ops(sites[i])) for i in range(L)]
        got = psi.correlation_function(f1, f2, s1, s2)
        want = np.zeros((len(s1), len(s2)), dtype=complex)
        for x, i in enumerate(s1):
            for y, j in enumerate(s2):
                want[x, y] = ev(D.op(i, f1[i]) @ D.op(j, f2[j]))
        add('C08.correlation_function.autoJW', got, want, detail='ops1=%s ops2=%s sites1=%s sites2=%s' % (f1, f2, s1, s2))
        # hermitian flag: ops2 = hc(ops1) on the same site lists
        h1 = [rnd.choice(jw_ops(sites[i])) for i in range(L)]
        h2 = [hc_name(sites[i], h1[i]) for i in range(L)]
        if all(h2):
            got = psi.correlation_function(h1, h2, s1, s1, hermitian=True)
            want = np.zeros((len(s1), len(s1)), dtype=complex)
            for x, i in enumerate(s1):
                for y, j in enumerate(s1):
                    want[x, y] = ev(D.op(i, h1[i]) @ D.op(j, h2[j]))
            add('C08.correlation_function.hermitian-flag', got, want, detail='ops1=%s sites=%s' % (h1, s1))
    else:
        h1 = [rnd.choice(plain_ops(sites[i])) for i in range(L)]
        h2 = [hc_name(sites[i], h1[i]) for i in range(L)]
        if all(h2):
            got = psi.correlation_function(h1, h2, s1, s1, hermitian=True)
            add('C08.correlation_function.hermitian-flag', got, corr_want(h1, h2, s1, s1), detail='ops1=%s sites=%s' % (h1, s1))
    # ---------------- term_correlation_function_right / left
    if L >= 4:
        iL = 0
        tL = [(rnd.choice(plain_ops(sites[0]) + jw_ops(sites[0])), 0), (rnd.choice(plain_ops(sites[1])), 1)]
        nj = sites[0].op_needs_JW(tL[0][0])
        jR = list(range(2, L - 1))
        if jR and len(set(map(id, sites))) == 1:
            pool = jw_ops(sites[0]) if nj else plain_ops(sites[0])
            tR = [(rnd.choice(pool), 0), (rnd.choice(plain_ops(sites[0])), 1)]
            try:
                got = psi.term_correlation_function_right(tL, tR, iL, jR)
                want = [ev(D.term([(n, i + iL) for n, i in tL] + [(n, i + j) for n, i in tR])) for j in jR]
                add('C08.term_correlation_function_right', got, want, detail=str((tL, tR, jR)))
                got = psi.term_correlation_function_left(tR, tL, [0], L - 2)
                want = [ev(D.term([(n, i) for n, i in tR] + [(n, i + L - 2) for n, i in tL]))]
                add('C08.term_correlation_function_left' + ('[Jordan-Wigner string between the two terms]' if nj else ''),
                    got, want, detail=str((tR, tL)))
            except Exception as e:
                oracle.append(('C08.term_correlation_function.raises:%s' % type(e).__name__, repr(e)[:200]))
    # ---------------- terms sum (MPO route)
    terms, strengths = [], []

    def diag_ops(site):
        return [n for n in plain_ops(site) if np.count_nonzero(site.get_op(n).to_ndarray() - np.diag(np.diagonal(site.get_op(n).to_ndarray()))) == 0]

    for _ in range(rnd.randint(1, 4)):
        i, j = sorted(rnd.sample(range(L), 2)) if L >= 2 else (0, 0)
        r = rnd.random()
        if r < 0.3 or i == j:
            terms.append([(rnd.choice(diag_ops(sites[i])), i)])
        elif r < 0.6:
            terms.append([(rnd.choice(diag_ops(sites[i])), i), (rnd.choice(diag_ops(sites[j])), j)])
        else:
            # charge-neutral hopping-like term: an operator and its hermitian conjugate on another site
            a = rnd.choice(sorted(n for n in sites[i].opnames if not n.startswith('JW') and n in sites[j].opnames))
            h = hc_name(sites[j], a)
            if h is None or repr(sites[i]) != repr(sites[j]) or sites[i].op_needs_JW(a) != sites[j].op_needs_JW(h):
                terms.append([(rnd.choice(diag_ops(sites[i])), i)])
            else:
                terms.append([(a, i), (h, j)] if rnd.random() < 0.5 else [(h, j), (a, i)])
        strengths.append(rnd.choice([1.0, -0.5, 2.0, 0.25]) * (1j if (psi.dtype.kind == 'c' and rnd.random() < 0.3) else 1.0))
    try:
        tl = TermList(terms, strengths)
        got, _ = psi.expectation_value_terms_sum(tl)
        want = sum(st * ev(D.term(t)) for t, st in zip(terms, strengths))
        add('C08.expectation_value_terms_sum', [got], [want], tol=1e-8, detail=str((terms, strengths)))
    except Exception as e:
        oracle.append(('C08.expectation_value_terms_sum.raises:%s' % type(e).__name__, repr(e)[:200] + str(terms)))
    # ---------------- reduced density matrices, mutual information
    seg = sorted(rnd.sample(range(L), rnd.randint(1, min(3, L))))
    rho = psi.get_rho_segment(seg)
    k = len(seg)
    rho = rho.itranspose(['p%d' % a for a in range(k)] + ['p%d*' % a for a in range(k)]).to_ndarray()
    dk = int(np.prod([D.dims[i] for i in seg]))
    add('C08.get_rho_segment', rho.reshape(dk, dk), rdm(ketn, D.dims, seg), detail=str(seg))
    if L >= 2 and D.D <= 256:
        coords, mi = psi.mutinf_two_site()
        want = []
        for (i, j) in coords:
            si = entropy(np.linalg.eigvalsh(rdm(ketn, D.dims, [i])))
            sj = entropy(np.linalg.eigvalsh(rdm(ketn, D.dims, [j])))
            sij = entropy(np.linalg.eigvalsh(rdm(ketn, D.dims, [i, j])))
            want.append(si + sj - sij)
        add('C08.mutinf_two_site', mi, want, tol=1e-7)
    # ---------------- charge statistics
    # (bond charges are the sum of the physical charges to the left only if no tensor carries a qtotal)
    if psi.chinfo.qnumber > 0 and all(np.all(B.qtotal == 0) for B in psi._B) \
            and np.all(psi._B[0].get_leg('vL').charges == 0):
        b = rnd.randint(1, L - 1) if L > 1 else 0
        try:
            charges, ps = psi.probability_per_charge(b)
            amp2 = np.abs(ketn.reshape(D.dims)) ** 2
            want = {}
            qs = [s.leg.to_qflat() for s in sites]
            for idx in itertools.product(*[range(d) for d in D.dims]):
                if amp2[idx] == 0:
                    continue
                q = tuple(int(x) for x in psi.chinfo.make_valid(np.sum([qs[i][idx[i]] for i in range(b)], axis=0)))
                want[q] = want.get(q, 0.0) + amp2[idx]
            gotd = {}
            for c, p_ in zip(charges, ps):
                gotd[tuple(int(x) for x in c)] = gotd.get(tuple(int(x) for x in c), 0.0) + p_
            keys = sorted(set(want) | set(k2 for k2, v in gotd.items() if v > 1e-12))
            add('C08.probability_per_charge', [gotd.get(k2, 0.0) for k2 in keys], [want.get(k2, 0.0) for k2 in keys],
                detail='bond %d charges %s' % (b, keys))
            if all(m == 1 for m in psi.chinfo.mod):
                avg = psi.average_charge(b)
                var = psi.charge_variance(b)
                wavg = sum(np.array(k2) * v for k2, v in want.items())
                wvar = sum((np.array(k2) - wavg) ** 2 * v for k2, v in want.items())
                add('C08.average_charge', avg, wavg)
                add('C08.charge_variance', var, wvar)
        except ValueError as e:
            if 'not blocked' not in str(e):
                oracle.append(('C08.probability_per_charge.raises', repr(e)[:200]))
    # ---------------- sampling: Born weights
    ref_t = ketn.reshape(D.dims)
    for trial in range(2):
        first = 0 if trial == 0 else rnd.randint(0, L - 1)
        last = L - 1 if trial == 0 else rnd.randint(first, L - 1)
        cplx = rnd.random() < 0.5
        sig, wgt = psi.sample_measurements(first, last, rng=np.random.default_rng(rnd.getrandbits(31)),
                                           complex_amplitude=cplx)
        sig = [int(x) for x in sig]
        if first == 0 and last == L - 1:
            amp = ref_t[tuple(sig)]
            add('C08.sample_measurements.weight' + ('' if cplx or L == 1 else '[complex_amplitude=False, more than one site]'),
                [wgt], [amp if cplx else abs(amp) ** 2], detail='sigmas=%s complex_amplitude=%s' % (sig, cplx))
            if trial == 0:
                lines.append({'op': 'sample', 'num': 'f', 'mps': mc.dump_mps(psi), 'sigma': sig})
                expects.append(('sample', amp, 'C08.model.sample-weight'))
        else:
            keep = list(range(first, last + 1))
            pr = np.real(np.diag(rdm(ketn, D.dims, keep)).reshape([D.dims[i] for i in keep])[tuple(sig)])
            add('C08.sample_measurements.partial-range' + ('' if cplx or last == first else '[complex_amplitude=False, more than one site]'),
                [abs(wgt) ** 2 if cplx else wgt], [pr], detail='range %d..%d sigmas=%s' % (first, last, sig))
    # eigenbasis sampling with a diagonal operator
    diag_ops = [n for n in ('Sz', 'N', 'Ntot') if all(n in s.opnames for s in sites)]
    if diag_ops:
        nme = diag_ops[0]
        vals, wgt = psi.sample_measurements(ops=[nme], rng=np.random.default_rng(rnd.getrandbits(31)))
        idx = []
        ok = True
        for i, v in enumerate(vals):
            dg = np.real(np.diag(sites[i].get_op(nme).to_ndarray()))
            cand = np.nonzero(np.abs(dg - v) < 1e-9)[0]
            if len(cand) != 1:
                ok = False
                break
            idx.append(int(cand[0]))
        if ok:
            add('C08.sample_measurements.eigenbasis', [abs(wgt) ** 2], [abs(ref_t[tuple(idx)]) ** 2], detail='%s %s' % (nme, vals))
    # sampling in a *list* of eigenbases on a window that does not start at a multiple of len(ops):
    # site i of the window is measured with ops[(i - first_site) % len(ops)]
    def nondeg_herm(site):
        out = []
        for nme_ in plain_ops(site):
            if np.any(site.get_op(nme_).qtotal != 0):
                continue   # npc.eigh needs a charge-neutral operator (e.g. not Sx with conserved parity)
            m_ = site.get_op(nme_).to_ndarray()
            if np.linalg.norm(m_ - m_.conj().T) < 1e-13:
                w_ = np.linalg.eigvalsh(m_)
                if len(w_) == 1 or np.min(np.diff(np.sort(w_))) > 1e-6:
                    out.append(nme_)
        return set(out)

    common = set.intersection(*[nondeg_herm(s_) for s_ in sites]) - {'Id', 'JW'}
    if L >= 2 and len(common) >= 2:
        for trial in range(2):
            k_ = rnd.randint(2, min(3, len(common)))
            ops_l = rnd.sample(sorted(common), k_)
            first = rnd.choice([f_ for f_ in range(1, L) if f_ % k_ != 0] or [1])
            last = rnd.randint(first, L - 1)
            vals, wgt = psi.sample_measurements(first, last, ops=ops_l, rng=np.random.default_rng(rnd.getrandbits(31)))
            t_ = ref_t
            okv = True
            # project site by site (from the right so that axis numbers stay valid)
            for i_ in range(last, first - 1, -1):
                m_ = sites[i_].get_op(ops_l[(i_ - first) % k_]).to_ndarray()
                w_, v_ = np.linalg.eigh(m_)
                cand = np.nonzero(np.abs(w_ - vals[i_ - first]) < 1e-9)[0]
                if len(cand) != 1:
                    okv = False
                    break
                t_ = np.tensordot(t_, v_[:, cand[0]].conj(), axes=(i_, 0))
            det_ = 'first_site=%d last_site=%d ops=%s outcomes=%s' % (first, last, ops_l, np.round(np.real(vals), 6).tolist())
            if not okv:
                oracle.append(('C08.sample_measurements.ops-list.outcome-not-an-eigenvalue',
                               det_ + ': an outcome is not an eigenvalue of the operator documented for that site'))
            else:
                add('C08.sample_measurements.ops-list', [abs(wgt) ** 2], [float(np.sum(np.abs(t_) ** 2))], tol=1e-8, detail=det_)
    # ---------------- different bra and ket: overlap and environment expectation values
    stb = mc.build_state(case['bra'])
    phi = stb['psi']
    brav = mc.np_state(phi).reshape(-1)
    if not mc.close(brav, stb['ref'].reshape(-1), 1e-8 * max(1.0, np.max(np.abs(brav)))):
        return dict(skip='bra does not denote its input (C07 territory)')
    compatible = same_total_charge(phi, psi)
    ov = phi.overlap(psi)
    add('C08.overlap', [ov], [brav.conj() @ ketv], detail='norms %r %r' % (phi.norm, psi.norm))
    add('C08.overlap.self', [psi.overlap(psi)], [ketv.conj() @ ketv])
    lines.append({'op': 'overlap', 'num': 'f', 'bra': mc.dump_mps(phi), 'ket': mc.dump_mps(psi)})
    expects.append(('scalar', brav.conj() @ ketv, 'C08.model.overlap'))
    env = MPSEnvironment(phi, psi)
    if compatible:
        nme = rnd.choice(plain_ops(sites[0])) if len(set(map(id, sites))) == 1 else 'Id'
        got = env.expectation_value(nme)
        add('C08.env.expectation_value', got, [ev(D.op(i, nme), brav, ketv) for i in range(L)], detail=nme)
        got = np.array(env.correlation_function(o1, o2, s1, s2, opstr=opstr, str_on_first=sof))
        wantc = corr_want(o1, o2, s1, s2, opstr, sof, brav, ketv)
        on = np.array([[i == j for j in s2] for i in s1])
        det = 'ops1=%s ops2=%s sites1=%s sites2=%s opstr=%s sof=%s' % (o1, o2, s1, s2, opstr, sof)
        add('C08.env.correlation_function', got[~on], wantc[~on], detail=det)
        unit = abs(phi.norm * psi.norm - 1.0) < 1e-12
        add('C08.env.correlation_function.i=j' + ('' if unit else '[norm(bra)*norm(ket) != 1]'), got[on], wantc[on], detail=det)
        if L >= 2:
            got = env.expectation_value_multi_sites(ops, i0)
            add('C08.env.expectation_value_multi_sites', [got], [ev(full, brav, ketv)], detail=str((ops, i0)))
    # fermionic one-site operator between states of different parity (JW applied on the virtual leg)
    if jw_sites and psi.chinfo.qnumber > 0 and all(getattr(s, 'charge_to_JW_parity', None) is not None for s in sites):
        i = rnd.choice(jw_sites)
        nme = rnd.choice(jw_ops(sites[i]))
        p3 = psi.copy()
        try:
            p3.apply_local_op(i, nme, unitary=True)   # changes the parity sector; state = O|psi> (unnormalised)
            ket3 = D.op(i, nme) @ ketv
            got3 = mc.np_state(p3).reshape(-1)
            if mc.close(got3, ket3, 1e-8) and np.linalg.norm(ket3) > 1e-6:
                env3 = MPSEnvironment(p3, psi)
                got = env3.expectation_value(nme, sites=[i])
                add('C08.env.expectation_value.JW', got, [ket3.conj() @ (D.op(i, nme) @ ketv)], detail='%s@%d' % (nme, i))
        except ValueError:
            pass
    # model: product-operator matrix elements through transfer matrices
    items, wants = [], []
    for _ in range(3):
        mats = [None] * L
        for i in rnd.sample(range(L), rnd.randint(1, L)):
            mats[i] = sites[i].get_op(rnd.choice(sorted(sites[i].opnames))).to_ndarray()
        items.append([None if m is None else mat_enc(m) for m in mats])
        wants.append(brav.conj() @ (D.product(mats) @ ketv))
    lines.append({'op': 'sandwich', 'num': 'f', 'bra': mc.dump_mps(phi), 'ket': mc.dump_mps(psi), 'items': items})
    expects.append(('list', wants, 'C08.model.sandwich'))
    e1 = []
    w1 = []
    for i in rnd.sample(range(L), min(L, 3)):
        nme = rnd.choice(plain_ops(sites[i]))
        e1.append({'i': i, 'op': mat_enc(sites[i].get_op(nme).to_ndarray())})
        w1.append(ev(D.op(i, nme)))
    lines.append({'op': 'expval1', 'num': 'f', 'mps': mc.dump_mps(psi), 'items': e1})
    expects.append(('list', w1, 'C08.model.expval-canonical'))

    def compare(outs):
        bad = []
        for (what, want, sig), out in zip(expects, outs):
            if 'error' in out:
                bad.append((sig, 'driver error ' + str(out['error'])[:200]))
            elif what == 'scalar':
                g = mc.dec_scalar(out['v'])
                if abs(g - want) > TOL * max(1.0, abs(want)):
                    bad.append((sig, 'model %r dense %r' % (g, want)))
            elif what == 'list':
                g = np.array([mc.dec_scalar(x) for x in out['v']])
                if not mc.close(g, np.array(want), TOL):
                    bad.append((sig, 'model %r dense %r' % (g.tolist(), list(want))))
            elif what == 'sample':
                g = mc.dec_scalar(out['weight'])
                a = mc.dec_scalar(out['amp'])
                if abs(g - want) > TOL or abs(a - want) > TOL:
                    bad.append((sig, 'model weight %r amplitude %r dense %r' % (g, a, want)))
        return bad

    return dict(oracle=oracle, lines=lines, compare=compare, nontrivial=max(psi.chi) > 1, hist=hist)


def eval_inf(case):
    """infinite MPS: expectation values / correlation functions on the window vs the reduced density matrix of a long
    window computed from the stored tensors with numpy (boundary Schmidt vectors)."""
    rnd = random.Random(case['seed'])
    oracle = []
    b = mc.build_infinite(case)
    psi, dense = b['psi'], b['dense']
    w = mc.transfer_spectrum(dense)[0]
    if (len(w) > 1 and abs(w[1]) > 0.9 * abs(w[0])) or abs(w[0]) < 1e-8:
        return dict(skip='inf: degenerate/zero (generator)')
    psi.canonical_form()
    L = psi.L
    sites = psi.sites
    d0 = max(s.dim for s in sites)
    n = L + 1
    while n < 2 * L + 2 and d0 ** (n + 1) <= 256:
        n += 1
    hist = ['kind=inf', 'L=%d' % L, 'complex=%s' % case.get('complex')]
    th = mc.np_theta(psi, 0, n)   # independent numpy bookkeeping of the canonical tensors
    dims = list(th.shape[1:-1])
    wsites = [sites[i % L] for i in range(n)]
    D = Dense(wsites)
    rho = np.tensordot(th, th.conj(), axes=([0, n + 1], [0, n + 1])).reshape(D.D, D.D)
    rho = rho / np.trace(rho)

    def ev(op):
        return np.trace(rho @ op)

    def add(sig, got, want, tol=1e-8, detail=''):
        got, want = np.asarray(got), np.asarray(want)
        if got.shape != want.shape or not np.all(np.abs(got - want) <= tol * (1 + np.abs(want))):
            oracle.append((sig, '%s got %s want %s' % (detail, np.array2string(got.ravel()[:6], precision=6),
                                                       np.array2string(want.ravel()[:6], precision=6))))

    nme = rnd.choice(plain_ops(sites[0]))
    got = psi.expectation_value(nme, sites=list(range(n)))
    add('C08.inf.expectation_value', got, [ev(D.op(i, nme)) for i in range(n)], detail=nme)
    s1 = sorted(rnd.sample(range(n), rnd.randint(1, 3)))
    s2 = sorted(rnd.sample(range(n), rnd.randint(1, 3)))
    if jw_ops(sites[0]) and rnd.random() < 0.6:
        f1, f2 = rnd.choice(jw_ops(sites[0])), rnd.choice(jw_ops(sites[0]))
        got = psi.correlation_function(f1, f2, s1, s2)
        want = [[ev(D.op(i, f1) @ D.op(j, f2)) for j in s2] for i in s1]
        add('C08.inf.correlation_function.autoJW', got, want, detail=str((f1, f2, s1, s2)))
    else:
        o1, o2 = rnd.choice(plain_ops(sites[0])), rnd.choice(plain_ops(sites[0]))
        got = psi.correlation_function(o1, o2, s1, s2)
        want = [[ev(D.op(i, o1) @ D.op(j, o2)) for j in s2] for i in s1]
        add('C08.inf.correlation_function', got, want, detail=str((o1, o2, s1, s2)))
    term = [(rnd.choice(plain_ops(sites[0])), rnd.randrange(n)) for _ in range(rnd.randint(1, 3))]
    got = psi.expectation_value_term(term)
    add('C08.inf.expectation_value_term', [got], [ev(D.term(term))], detail=str(term))
    seg = sorted(rnd.sample(range(n), 2))
    r2 = psi.get_rho_segment(seg).itranspose(['p0', 'p1', 'p0*', 'p1*']).to_ndarray()
    dk = D.dims[seg[0]] * D.dims[seg[1]]
    # reduced density matrix from the dense window
    full = rho.reshape(D.dims + D.dims)
    keep = seg
    other = [i for i in range(n) if i not in keep]
    t = np.transpose(full, keep + other + [n + i for i in keep] + [n + i for i in other])
    do = int(np.prod([D.dims[i] for i in other])) if other else 1
    t = t.reshape(dk, do, dk, do)
    want = np.einsum('aibi->ab', t)
    add('C08.inf.get_rho_segment', r2.reshape(dk, dk), want, detail=str(seg))
    # segment MPS cut out of the infinite one: same expectation values with trivial environments
    segm = psi.extract_segment(1, n - 2)
    got = segm.expectation_value(nme)
    add('C08.segment.expectation_value', got, [ev(D.op(i, nme)) for i in range(1, n - 1)], detail=nme)
    return dict(oracle=oracle, lines=[], nontrivial=True, hist=hist)


def shrink(case, sig):
    return case


ANCHOR_COVERAGE_NOTE = ("coverage round 2026-09-26 (measured outside the check, quick tier seed 0, coverage --branch on tenpy/networks/mps.py incl. MPSEnvironment/TransferMatrix): this property's quick tier 44.4% -> 57.2% (lines 47.8% -> 59.5%, branches 36.1% -> 51.6%); C07+C08+C09 together 57.5% -> 83.5% (lines 61.2% -> 85.5%, branches 48.5% -> 78.6%). 14 extra mechanisms with dense oracles in harness/mps_extra.py (C08_SUBS); see notes/C08.md 'Coverage round'.")


def run(ctx):
    res = core.Result()
    res.extra['anchor_coverage_note'] = ANCHOR_COVERAGE_NOTE
    rng = ctx.sub_rng('cases')
    n = 150 if ctx.quick else 4000
    cases = [c for c in corpus_cases() if c.get('kind') != 'ext'] + gen_cases(rng, n, ctx.quick)
    xr = ctx.sub_rng('extra')
    cases += mx.gen_extras(xr, mx.C08_SUBS, 70 if ctx.quick else 1050)
    results, derrs = mc.run_cases(ctx, PROP, 'harness.C08', 'eval_case', cases,
                                  budget_s=ctx.budget_s * 0.6 if not ctx.quick else None)
    # extension part: newly modelled code (own PRNG stream, own driver)
    er = ctx.sub_rng('ext')
    ecases = [c for c in corpus_cases() if c.get('kind') == 'ext'] + cx.gen_cases(er, 120 if ctx.quick else 3000, ctx.quick)
    eres, ederrs = mc.run_cases(ctx, PROP, 'harness.c08_ext', 'eval_ext', ecases, driver='C08',
                                budget_s=ctx.budget_s * 0.25 if not ctx.quick else None)
    res.extra['ext_cases'] = len(eres)
    return mc.fold_results(res, results + eres, derrs + ederrs, PROP)


def corpus_cases():
    import json
    d = core.CORPUS_DIR / PROP
    return [json.loads(f.read_text()) for f in sorted(d.glob('*.json'))] if d.exists() else []


def eval_oracle_only(case):
    ev = eval_case(case)
    ev.pop('lines', None)
    ev.pop('compare', None)
    return ev


def search(ctx, reasons):
    res = core.Result()
    rng = ctx.sub_rng('search')
    cases = [c for c in corpus_cases() if c.get('kind') != 'ext'] + gen_cases(rng, 200 if ctx.quick else 3000, ctx.quick)
    results, _ = mc.run_cases(ctx, PROP, 'harness.C08', 'eval_oracle_only', cases)
    eres, _ = mc.run_cases(ctx, PROP, 'harness.c08_ext', 'eval_ext_oracle_only',
                           cx.gen_cases(ctx.sub_rng('search-ext'), 150 if ctx.quick else 2000, ctx.quick))
    for r in results + eres:
        if r['skip']:
            continue
        res.note_case(r['case'], r['nontrivial'])
        for sig, detail in r['oracle']:
            res.fail('property', sig, detail, r['case'])
    return res


def replay(ctx, payload):
    res = core.Result()
    case = payload.get('case') or {}
    if not case:
        return run(ctx)
    results, derrs = mc.run_cases(ctx, PROP, 'harness.C08', 'eval_case', [case], procs=1,
                                  driver='C08' if case.get('kind') == 'ext' else 'C07')
    return mc.fold_results(res, results, derrs, PROP)
