"""C19 — lattice geometry: index maps are bijections and couplings are enumerated exactly."""
import copy
import json
import multiprocessing as mp
import os
import time
import traceback
import warnings

from vlib import core
from harness import c19_gen as G
from harness import c19_real as R
from harness import c19_pairs as P
from harness import c19_api as A
from harness import c19_ext as X

PROP = 'C19'
MODEL_MODULES = ['TenpyModel.Util.J', 'TenpyModel.C19.Order', 'TenpyModel.C19.Lattice', 'TenpyModel.C19.Couplings',
                 'TenpyModel.C19.Variants', 'TenpyModel.C19.Ext', 'TenpyModel.C19.ExtBC']
PROPS_MODULES = ['TenpyModel.C19.PropsOrder', 'TenpyModel.C19.PropsIndex', 'TenpyModel.C19.PropsCouplings',
                 'TenpyModel.C19.PropsMulti', 'TenpyModel.C19.PropsVariants', 'TenpyModel.C19.PropsPairs', 'TenpyModel.C19.PropsPairsOutside']
PROPS_MODULES = PROPS_MODULES + ['TenpyModel.C19.Props2']   # second round of theorems (Props2.lean + P2_*.lean)
# extension round: MultiSpeciesLattice bookkeeping / _generate_new_pairs (A), find_coupling_pairs (B); model Ext.lean;
# the bc argument: boundary_conditions setter / getter / test_sanity checks (C); model ExtBC.lean
PROPS_MODULES = PROPS_MODULES + ['TenpyModel.C19.PropsExtA', 'TenpyModel.C19.PropsExtB', 'TenpyModel.C19.PropsExtC']
LEAN_MODULES = PROPS_MODULES
LEVEL = 'proof'
BUDGET = {'quick': 170, 'thorough': 1700}
RULE = ('A case = lattice class (Chain, Ladder, NLegLadder, Square, Triangular, Honeycomb, Kagome, SimpleLattice, '
        'generic Lattice with 1-3 sites per cell; dim 1-2, random cases also dim 3) x sizes (1D: L<=6, 2D: <=4x4) x '
        'ordering (every named ordering of the class, (standard, snake, priority) tuples, (grouped, ...) tuples, '
        'random permutations of the grid) x boundary conditions (open/periodic in x; open/periodic/shift 1,-1,2 in y) '
        'x bc_MPS (finite/infinite/segment) [x variant: MultiSpecies, Irregular (removed/added sites), Helical, '
        'enlarge_mps_unit_cell]. Per case: order, _perm, _mps_fix_u, _mps2lat_vals_idx*, mps2lat_idx on [-2N,3N), '
        'lat2mps_idx on all sites and their translates, mps2lat_values(_masked), possible_couplings for EVERY '
        '(u1,u2,dx) with |dx_a|<=L_a, detailed couplings (lat_indices, coupling_shape, strengths), random '
        'multi-couplings. quick: corpus + seeded random sample; thorough: the whole family (exhaustive=True) '
        '+ random variants. A case is non-trivial when it has >=4 sites and is not (all-open, default order, no '
        'variant); distinct by content hash. Extension part (harness/c19_ext.py): MultiSpeciesLattice over every predefined class x '
        '1-4 species x plain/default/colliding/odd/wrong-number name lists (pairs dict, u maps, positions, unit cell, count_neighbors) '
        'and find_coupling_pairs on generic lattices with integer basis (dim 1-3), 1-3 sites, max_dx 0-3, default/explicit/too-large '
        'cutoff, zero basis vectors; the bc argument (one string / lists and tuples of open, periodic, int shifts, dim 1-3, malformed: '
        'unknown strings, shift in x, wrong lengths, open x with an infinite MPS) through the boundary_conditions setter, getter and '
        'Lattice.__init__; non-trivial: >= 2 species resp. max_dx >= 1 resp. a list argument with dim >= 2.')
TRUSTED = ['Lean 4.33 kernel; axioms of every C19_* theorem within {propext, Classical.choice, Quot.sound}',
           'hand-written model lean/TenpyModel/C19/{Order,Lattice,Couplings,Variants}.lean, tied to '
           'tenpy/models/lattice.py by this correspondence run (identical cases, answers diffed exactly)',
           'extension models lean/TenpyModel/C19/{Ext,ExtBC}.lean (MultiSpecies bookkeeping, bc argument, find_coupling_pairs in exact integer '
           'arithmetic: cutoff c stands for a float cutoff sqrt(c+0.5)), tied by harness/c19_ext.py',
           'tools/gen_C19.py (AST translator of the pairs/positions tables) and the JSON driver',
           'np.lexsort modelled by List.mergeSort (stable); np.argsort only used with distinct keys',
           'independent oracle harness/c19_real.py: brute force over all pairs of sites / round trips']
ASSUMPTIONS = ['all sizes Ls >= 1; numpy integer mod / floor-division semantics for positive divisors',
               'np.argsort(priority) is only exercised with pairwise distinct priorities',
               'sites of the unit cell are None placeholders (HelicalLattice: SpinHalfSite without charges)']

KNOWN_TAG = '[shifted-bc,open-x]'
ANCHOR_COVERAGE_NOTE = ('measured 2026-09-26 with coverage 7 --branch on the quick tier (seed 0, real-code side run in-process): '
                        'tenpy/models/lattice.py 62% -> 75% (statements missed 502 -> 336 of 1446, partial branches 52 -> 21); '
                        'tenpy/models/model.py 14% -> 35% (the lattice consumers add_onsite/add_coupling/add_multi_coupling/'
                        'coupling_strength_add_ext_flux/init_lattice; the rest of model.py belongs to C10). Still unexecuted in '
                        'lattice.py: hdf5 save/load, plot_*, reciprocal basis / Brillouin zone (SimpleBZ), DipolarChargeInfo branches '
                        'of test_sanity/mps_sites; see notes/C19.md "Coverage round".')


# ---------------------------------------------------------------------------------------------

def case_tag(case):
    """suffix naming the input class of the one known finding (shifted boundary with an open x direction)"""
    bc = case['bc']
    if bc and bc[0] == 'open' and any(isinstance(b, int) and b != 0 for b in bc[1:]):
        return KNOWN_TAG
    return ''


def oracle_query(geo, lat, q):
    """-> (signature, detail) or None for one query, independent of the model"""
    t = q[0]
    if t == 'values':
        return R.oracle_values(geo, lat, q[1], q[2])
    if t == 'masked':
        return R.oracle_masked(geo, lat, q[1], q[2], q[3])
    if t == 'coup':
        f = R.oracle_couplings(geo, lat, q[1], q[2], q[3])
        if f is None and not geo.tagged:
            f = R.oracle_model_coupling(geo.case, geo, q[1], q[2], q[3])
        return f
    if t == 'coupall':
        for u1 in range(geo.Lu):
            for u2 in range(geo.Lu):
                for dx in R.dx_box(q[1]):
                    f = R.oracle_couplings(geo, lat, u1, u2, dx)
                    if f:
                        return f + (['coup', u1, u2, dx],)
        return None
    if t == 'multi':
        return R.oracle_multi(geo, lat, q[1])
    return None


def oracle_case(case, lat):
    """all oracle failures of a case: list of (signature, detail, minimal query list)"""
    out = []
    geo = R.Geometry(case, lat)
    tag = case_tag(case)
    geo.tagged = bool(tag)
    f = geo.check_bijection()
    if f:
        out.append(('order.not-a-bijection-onto-sites', f, [['order']]))
        return out
    f = R.oracle_order_spec(case, lat)
    if f:
        out.append((f[0], f[1], [['order']]))
    for fn, qq in ((R.oracle_roundtrip, [['order']]), (R.oracle_fix_u, [['order']])):
        f = fn(geo, lat)
        if f:
            out.append((f[0], f[1], qq))
    for q in case['q']:
        try:
            f = oracle_query(geo, lat, q)
        except AttributeError as e:
            f = ('raised.' + type(e).__name__, str(e)[:200])
        if f:
            qmin = [f[2]] if len(f) > 2 else [q]
            out.append((f[0] + (tag if q[0] in ('coup', 'coupall', 'multi') else ''), f[1], qmin))
    return out


def eval_case(case, with_answers=True):
    """Real code + oracle on one case. -> dict(answers, oracle=[(sig, detail, q)], error)"""
    try:
        with warnings.catch_warnings():
            warnings.simplefilter('ignore')
            try:
                lat = R.build_real(case)
            except Exception as e:  # noqa: BLE001
                # every generated specification is valid: an exception while the lattice is constructed / its order
                # is set means that the ordering is not a bijection onto the sites (rows outside the lattice, ...)
                o = case['order']
                kind = o.get('name') or next(iter(o))
                v = case.get('variant')
                sig = f'construction.raised-{type(e).__name__}[order={kind}' + (f',variant={next(iter(v))}]' if v else ']')
                tb = traceback.extract_tb(e.__traceback__)
                where = ' <- '.join(f'{t.name}:{t.lineno}' for t in tb[-3:])
                return {'answers': None, 'oracle': [(sig, f'{type(e).__name__}: {e}'[:300] + ' @ ' + where, [['order']])],
                        'error': None}
            answers = R.run_queries(case, lat)[1] if with_answers else None
            orc = oracle_case(case, lat)
        return {'answers': answers, 'oracle': orc, 'error': None}
    except AssertionError as e:
        return {'answers': None, 'oracle': [('impl.assertion', str(e)[:300], case['q'][:1])], 'error': None}
    except Exception as e:  # noqa: BLE001
        return {'answers': None, 'oracle': [], 'error': f'{type(e).__name__}: {e}'[:300] + traceback.format_exc()[-600:]}


def fails_with(case, sig):
    r = eval_case(case, with_answers=False)
    return any(o[0] == sig for o in r['oracle'])


def shrink(case, sig, qmin):
    """Greedy shrinking of a failing case, keeping the same oracle signature."""
    cur = copy.deepcopy(case)
    cur['q'] = copy.deepcopy(qmin)
    if not fails_with(cur, sig):
        cur['q'] = copy.deepcopy(case['q'])
        if not fails_with(cur, sig):
            return case
    changed, rounds = True, 0
    while changed and rounds < 30:
        changed = False
        rounds += 1
        cands = []
        if cur.get('variant'):
            c = copy.deepcopy(cur)
            c['variant'] = None
            cands.append(c)
            ir = (cur['variant'] or {}).get('irregular')
            if ir:
                for key in ('remove', 'add'):
                    if ir.get(key):
                        c = copy.deepcopy(cur)
                        c['variant']['irregular'][key] = None
                        if key == 'add':
                            c['variant']['irregular']['n_add_uc'] = 0
                        cands.append(c)
                if ir.get('remove') and len(ir['remove']) > 1:
                    for k in range(len(ir['remove'])):
                        c = copy.deepcopy(cur)
                        del c['variant']['irregular']['remove'][k]
                        cands.append(c)
        if cur['order'] != {'name': 'default'}:
            c = copy.deepcopy(cur)
            c['order'] = {'name': 'default'}
            cands.append(c)
        for a in range(len(cur['Ls'])):
            if cur['Ls'][a] > 1:
                c = copy.deepcopy(cur)
                c['Ls'][a] -= 1
                if 'rows' in c['order']:
                    c['order'] = {'name': 'default'}
                if c.get('variant') and 'irregular' in c['variant']:
                    c['variant'] = None
                cands.append(c)
        for a, b in enumerate(cur['bc']):
            for nb in (['periodic', 'open'] if isinstance(b, int) else ['open'] if b == 'periodic' else []):
                if a == 0 and nb == 'open' and cur['bc_MPS'] != 'finite':
                    continue
                c = copy.deepcopy(cur)
                c['bc'][a] = nb
                cands.append(c)
            if isinstance(b, int) and abs(b) > 1:
                c = copy.deepcopy(cur)
                c['bc'][a] = b - 1 if b > 0 else b + 1
                cands.append(c)
        if cur['bc_MPS'] != 'finite':
            c = copy.deepcopy(cur)
            c['bc_MPS'] = 'finite'
            cands.append(c)
        if cur['cls'] not in ('Lattice',) and not cur.get('variant'):
            c = copy.deepcopy(cur)
            c['cls'] = 'Lattice'
            if 'standard' in c['order'] and cur['cls'] in R.SIMPLE:
                c['order'] = {'name': 'default'}
            if c['order'].get('name') in ('folded', 'rings', 'snake_rings'):
                c['order'] = {'name': 'default'}
            cands.append(c)
        # shrink the query
        if len(cur['q']) == 1:
            q = cur['q'][0]
            if q[0] == 'coup':
                for a in range(len(q[3])):
                    if q[3][a] != 0:
                        c = copy.deepcopy(cur)
                        c['q'][0][3][a] += -1 if q[3][a] > 0 else 1
                        cands.append(c)
            if q[0] == 'multi':
                if len(q[1]) > 2:
                    for k in range(len(q[1])):
                        c = copy.deepcopy(cur)
                        del c['q'][0][1][k]
                        cands.append(c)
                for k in range(len(q[1])):
                    for a in range(len(q[1][k][0])):
                        if q[1][k][0][a] != 0:
                            c = copy.deepcopy(cur)
                            c['q'][0][1][k][0][a] += -1 if q[1][k][0][a] > 0 else 1
                            cands.append(c)
        for c in cands:
            try:
                if fails_with(c, sig):
                    cur, changed = c, True
                    break
            except Exception:  # noqa: BLE001
                continue
    return cur


def nontrivial(case):
    Ls, Lu = G.eff_sizes(case)
    n = Lu
    for L in Ls:
        n *= L
    plain = all(b == 'open' for b in case['bc']) and case['order'] in ({'name': 'default'}, {'name': 'Cstyle'}) \
        and not case.get('variant')
    return n >= 4 and not plain


def histogram(res, case):
    res.count('cls=' + case['cls'])
    res.count('dim=%d' % len(case['Ls']))
    res.count('Lu=%d' % case['Lu'])
    res.count('bc_MPS=' + case['bc_MPS'])
    for b in case['bc'][1:]:
        res.count('bc_y=' + ('shift' if isinstance(b, int) else b))
    res.count('bc_x=' + case['bc'][0])
    o = case['order']
    res.count('order=' + (o.get('name') or next(iter(o))))
    v = case.get('variant')
    res.count('variant=' + (next(iter(v)) if v else 'none'))
    for q in case['q']:
        res.count('query.' + q[0])
        if q[0] == 'coupall':
            n = case['Lu'] ** 2
            for m in q[1]:
                n *= 2 * m + 1
            res.count('couplings_compared', n)


def process_chunk(args):
    """Worker: evaluate cases on the real code + oracle, run the Lean model on the same cases, diff."""
    cases, use_model, do_shrink = args[:3]
    qspec = args[3] if len(args) > 3 else None
    if qspec is not None:
        # queries are attached here (in the worker) from a PRNG derived from the run seed and the case itself
        import random
        seed_str, n_detail, n_multi = qspec
        for c in cases:
            if not c['q']:
                rng = random.Random(seed_str + json.dumps({k: v for k, v in c.items() if k != 'q'}, sort_keys=True))
                c['q'] = G.standard_queries(c, rng, n_detail=n_detail, n_multi=n_multi)
    res = core.Result()
    # witnesses of the known findings are in the corpus already: do not spend the budget on shrinking them again
    shrunk = {k['signature'] for k in core.load_known_findings() if k.get('property') == PROP}
    evals = [eval_case(c) for c in cases]
    models = [None] * len(cases)
    if use_model:
        try:
            models = core.run_driver('C19', [G.to_model(c) for c in cases])
        except core.DriverError as e:
            res.extra['driver_error'] = str(e)[:1500]
            models = [{'error': 'driver failed'}] * len(cases)
    for case, ev, mod in zip(cases, evals, models):
        light = {k: v for k, v in case.items() if k != 'q'}
        light['n_queries'] = len(case['q'])
        res.note_case(light, nontrivial(case))
        histogram(res, case)
        if ev['error']:
            res.fail('correspondence', 'harness.case-construction-raised', ev['error'], case)
            continue
        seen = set()
        for sig, detail, qmin in ev['oracle']:
            if sig in seen:
                continue
            seen.add(sig)
            if do_shrink and sig not in shrunk:
                shrunk.add(sig)
                small = shrink(case, sig, qmin)
            else:
                small = dict(case, q=qmin)
            res.fail('property', sig, detail, small)
        if mod is not None:
            res.traces_validated += 1
            if 'error' in mod or '_raw' in mod:
                res.fail('correspondence', 'model.error', str(mod)[:300], case)
                continue
            if ev['answers'] is None:
                continue
            for k, (q, a, m) in enumerate(zip(case['q'], ev['answers'], mod['r'])):
                if isinstance(a, dict) and 'raised' in a:
                    # the real code raised: only acceptable where the model flags an error too
                    mm = m[0] if q[0] == 'masked' and isinstance(m, list) and len(m) == 2 else m
                    if mm != 'error':
                        res.fail('correspondence', f'impl-raised.{q[0]}.{a["raised"]}', a['msg'], dict(case, q=[q]))
                    continue
                if q[0] == 'masked' and isinstance(m, list) and len(m) == 2:
                    # model answers [as coded, with pending_fixes/C19-masked-shape.diff]; either tree is accepted
                    which = 'as-coded' if a == m[0] else 'repaired' if a == m[1] else None
                    if which:
                        res.count('masked.matches=' + which)
                        continue
                    m = m[0]
                if a != m:
                    if q[0] == 'coupall':
                        # locate the first differing (u1, u2, dx)
                        keys = [(u1, u2, dx) for u1 in range(len(a) and G.eff_sizes(case)[1])
                                for u2 in range(G.eff_sizes(case)[1]) for dx in R.dx_box(q[1])]
                        bad = next((i for i, (x, y) in enumerate(zip(a, m)) if x != y), None)
                        where = keys[bad] if bad is not None and bad < len(keys) else None
                        det = f'{where}: impl {a[bad] if bad is not None else len(a)} model {m[bad] if bad is not None else len(m)}'
                        qq = ['coup', where[0], where[1], where[2]] if where else q
                    else:
                        det = f'impl {json.dumps(a)[:300]} model {json.dumps(m)[:300]}'
                        qq = q
                    res.fail('correspondence', f'model-vs-impl.{q[0]}', det, dict(case, q=[qq]))
                    break
    return res


def run_cases(ctx, cases, use_model=True, workers=1, chunk=25, do_shrink=True, deadline=None, qspec=None):
    """-> Result; res.extra['cases_done'] = number of cases processed before the deadline (all, if None)"""
    res = core.Result()
    chunks = [(cases[i:i + chunk], use_model, do_shrink, qspec) for i in range(0, len(cases), chunk)]
    done = 0
    if workers <= 1 or len(chunks) <= 1:
        for ch in chunks:
            res.merge(process_chunk(ch))
            done += len(ch[0])
            if deadline is not None and time.time() > deadline:
                break
    else:
        with mp.get_context('fork').Pool(workers) as pool:
            for r in pool.imap(process_chunk, chunks):
                res.merge(r)
                done += r.evaluations
                if deadline is not None and time.time() > deadline:
                    pool.terminate()
                    break
    res.extra['cases_done'] = done
    return res


def load_corpus():
    out = []
    d = core.CORPUS_DIR / 'C19'
    if d.exists():
        for f in sorted(d.glob('*.json')):
            try:
                out.append(json.loads(f.read_text())['case'])
            except Exception:  # noqa: BLE001
                pass
    return out


def seed_cases(rng):
    """a small deterministic set: every class once with boundary crossings; custom orderings with EVERY priority
    permutation (incl. the 3-cycles, whose argsort is not its own inverse) x snake patterns on non-cubic lattices"""
    import itertools
    out = []
    for cls, dim, Lu in G.class_variants():
        Ls = [4] if dim == 1 else [3, 2]
        for bc, mps in ([(['periodic'], 'infinite'), (['open'], 'finite')] if dim == 1 else
                        [(['periodic', 1], 'infinite'), (['open', 'periodic'], 'finite'), (['periodic', -1], 'finite')]):
            for order in G.named_orders(cls)[-2:]:
                out.append(G.base_case(cls, Ls, Lu, order, bc, mps))
    snakes = ([False, False, False], [True, True, True], [True, False, True], [False, True, False])
    for cls, Ls, Lu in (('Honeycomb', [3, 2], 2), ('Kagome', [2, 4], 3), ('Lattice', [2, 3], 2), ('Lattice', [4, 3], 2),
                        ('Lattice', [3, 1], 3), ('Honeycomb', [2, 2], 2), ('Kagome', [3, 3], 3)):
        for k, prio in enumerate(itertools.permutations(range(3))):
            for j, snake in enumerate(snakes):
                bc, mps = [(['periodic', 'periodic'], 'infinite'), (['open', 'periodic'], 'finite'),
                           (['periodic', -1], 'infinite'), (['open', 'open'], 'finite')][(k + j) % 4]
                out.append(G.base_case(cls, Ls, Lu, {'standard': [list(snake), list(prio)]}, bc, mps))
    for Ls in ([3, 2], [2, 4]):
        for prio in itertools.permutations(range(2)):
            for snake in ([False, False], [True, True], [True, False]):
                out.append(G.base_case('Square', Ls, 1, {'standard': [list(snake), list(prio)]},
                                       ['periodic', 'periodic'], 'infinite'))
    out.append(G.base_case('Lattice', [2, 3, 2], 2, {'standard': [[True, False, True, False], [2, 3, 0, 1]]},
                           ['periodic', 'open', 'periodic'], 'infinite'))
    out.append(G.base_case('Lattice', [2, 1, 3], 1, {'standard': [[False] * 4, [1, 2, 3, 0]]},
                           ['open', 'periodic', 'open'], 'finite'))
    return out


def with_queries(cases, rng, **kw):
    for c in cases:
        if not c['q']:
            c['q'] = G.standard_queries(c, rng, **kw)
    return cases


def quick_cases(ctx):
    rng = ctx.sub_rng('quick')
    cases = seed_cases(rng)
    hel = G.helical_cases(rng, full=False)
    rng.shuffle(hel)
    cases += hel[:12]
    n = 260
    for _ in range(n):
        c = G.random_case(rng)
        cases.append(c)
        if rng.random() < 0.35:
            v = G.random_variant(rng, c)
            if v is not None:
                cases.append(v)
    return with_queries(cases, rng)


def thorough_cases(ctx):
    rng = ctx.sub_rng('thorough')
    family = list(G.exhaustive_family(rng))
    ctx.sub_rng('shuffle').shuffle(family)  # balanced chunks; the family is processed first and completely
    extra = G.helical_cases(rng, full=True)
    for _ in range(2500):
        c = G.random_case(rng)
        v = G.random_variant(rng, c)
        extra.append(v if v is not None else c)
    return family, with_queries(extra, rng, n_detail=3, n_multi=4)


def run(ctx):
    res = core.Result()
    workers = min(16, os.cpu_count() or 1)
    corpus = load_corpus()
    for c in [c for c in corpus if c.get('part') == 'api']:
        res.merge(A.replay_case(c))
    for c in [c for c in corpus if c.get('part') == 'ext']:
        res.merge(X.replay_case(c))
    res.merge(run_cases(ctx, [c for c in corpus if c.get('part') not in ('api', 'ext')], workers=1))
    res.extra['corpus_cases'] = len(corpus)
    res.merge(P.run(ctx))
    res.merge(A.run(ctx, factor=1 if ctx.quick else 25))
    # extension round (harness/c19_ext.py): MultiSpeciesLattice bookkeeping + find_coupling_pairs vs Ext.lean
    res.merge(X.run(ctx, factor=1 if ctx.quick else 12))
    res.extra['anchor_coverage_note'] = ANCHOR_COVERAGE_NOTE
    t0 = time.time()
    if ctx.quick:
        cases = quick_cases(ctx)
        res.merge(run_cases(ctx, cases, workers=workers, chunk=8))
        res.extra['exhaustive'] = False
    else:
        family, extra = thorough_cases(ctx)
        # the Lean build, audit and leanchecker happen before/after: leave them a third of the budget
        deadline = ctx.t0 + 0.72 * ctx.budget_s
        r = run_cases(ctx, family, workers=workers, chunk=40, deadline=deadline,
                      qspec=(f'C19:{ctx.seed}:family:', 2, 2))
        res.merge(r)
        res.extra['exhaustive_family_cases'] = len(family)
        res.extra['exhaustive_family_done'] = r.extra.get('cases_done', 0)
        res.extra['exhaustive'] = r.extra.get('cases_done', 0) >= len(family)
        if res.extra['exhaustive']:
            r2 = run_cases(ctx, extra, workers=workers, chunk=25, deadline=ctx.t0 + 0.8 * ctx.budget_s)
            res.merge(r2)
            res.extra['variant_cases_done'] = r2.extra.get('cases_done', 0)
        else:
            res.extra['note'] = ('time budget reached before the whole family was processed (machine load); '
                                 'exhaustive=False for this run')
    res.extra['cases_wall_s'] = round(time.time() - t0, 1)
    return res


def search(ctx, reasons):
    """failing-input search with the oracle only (no model), bigger sample"""
    rng = ctx.sub_rng('search')
    cases = [c for c in load_corpus() if c.get('part') not in ('api', 'ext')] + seed_cases(rng)
    n = 600 if ctx.quick else 6000
    for _ in range(n):
        c = G.random_case(rng)
        cases.append(c)
        v = G.random_variant(rng, c)
        if v is not None:
            cases.append(v)
    cases += G.helical_cases(rng, full=not ctx.quick)
    with_queries(cases, rng, n_detail=2, n_multi=6)
    res = run_cases(ctx, cases, use_model=False, workers=min(16, os.cpu_count() or 1), chunk=10)
    res.merge(P.search(ctx))
    res.merge(A.run(ctx, factor=4 if ctx.quick else 40))
    res.merge(X.search(ctx, factor=4 if ctx.quick else 40))
    return res


def regenerate(ctx):
    """translator step: rebuild lean/TenpyModel/Gen/C19Pairs.lean from the lattice.py of the tree under test"""
    import importlib.util
    spec = importlib.util.spec_from_file_location('gen_C19', str(core.ROOT / 'tools' / 'gen_C19.py'))
    gen = importlib.util.module_from_spec(spec)
    spec.loader.exec_module(gen)
    text, problems = gen.generate(ctx.repo)
    if problems:
        return problems
    out = core.LEAN_DIR / 'TenpyModel' / 'Gen' / 'C19Pairs.lean'
    out.parent.mkdir(parents=True, exist_ok=True)
    if not out.exists() or out.read_text() != text:
        out.write_text(text)
    return []


def replay(ctx, payload):
    case = payload.get('case') or {}
    if case.get('part') == 'pairs':
        return P.run(ctx)
    if case.get('part') == 'api':
        return A.replay_case(case)
    if case.get('part') == 'ext':
        return X.replay_case(case)
    return run_cases(ctx, [case], workers=1, do_shrink=False)
