"""Shared pieces of the C10 / C11 harnesses (operator representations).

* exact rational transport of (complex) strengths
* site pool and lattice construction from JSON specs (cases are plain JSON → replayable)
* independent numpy/scipy oracle: operators as explicit many-body matrices (Kronecker products,
  Jordan-Wigner strings written out), summed over brute-force enumerated lattice positions
* canonical JSON of MPOGraph keys / edges / term lists
"""
import itertools
import warnings
from fractions import Fraction

import numpy as np
import scipy.sparse as sp

# ---------------------------------------------------------------------------------------------
# exact numbers


def fr(x):
    """exact Fraction of an int / float (numpy scalars included)"""
    if isinstance(x, Fraction):
        return x
    if isinstance(x, (int, np.integer)):
        return Fraction(int(x))
    return Fraction(float(x))


def fr_str(f):
    f = fr(f)
    return int(f.numerator) if f.denominator == 1 else f'{f.numerator}/{f.denominator}'


def gq(z):
    """complex number -> [re, im] with exact rationals"""
    z = complex(z)
    return [fr_str(z.real), fr_str(z.imag)]


def parse_fr(s):
    return Fraction(s) if isinstance(s, str) else Fraction(int(s))


def parse_gq(j):
    if isinstance(j, list):
        return complex(float(parse_fr(j[0])), float(parse_fr(j[1])))
    return complex(float(parse_fr(j)), 0.0)


def gq_key(j):
    """canonical hashable form of a [re, im] pair"""
    return (parse_fr(j[0]), parse_fr(j[1]))


def rand_dyadic(rng, allow_zero=False):
    while True:
        v = Fraction(rng.randint(-6, 6), rng.choice([1, 1, 2, 4]))
        if v != 0 or allow_zero:
            return v


def rand_strength(rng, complex_=False):
    re = rand_dyadic(rng)
    im = rand_dyadic(rng) if complex_ else Fraction(0)
    return [fr_str(re), fr_str(im)]


def strength_to_np(spec):
    """strength spec (scalar [re, im] or nested list of such) -> python scalar / ndarray"""
    def is_scalar(s):
        return isinstance(s, list) and len(s) == 2 and not isinstance(s[0], list)

    def conv(s):
        if is_scalar(s):
            return parse_gq(s)
        return [conv(x) for x in s]

    v = conv(spec)
    arr = np.array(v)
    if np.all(arr.imag == 0):
        arr = arr.real.copy()
    if arr.ndim == 0:
        return arr.item()
    return arr


# ---------------------------------------------------------------------------------------------
# sites and lattices


SITE_POOL = [
    {'cls': 'SpinHalfSite', 'kw': {'conserve': None}},
    {'cls': 'SpinHalfSite', 'kw': {'conserve': 'Sz'}},
    {'cls': 'SpinHalfSite', 'kw': {'conserve': 'parity'}},
    {'cls': 'SpinSite', 'kw': {'S': 1.0, 'conserve': None}},
    {'cls': 'SpinSite', 'kw': {'S': 1.0, 'conserve': 'Sz'}},
    {'cls': 'BosonSite', 'kw': {'Nmax': 1, 'conserve': 'N'}},
    {'cls': 'BosonSite', 'kw': {'Nmax': 2, 'conserve': None}},
    {'cls': 'BosonSite', 'kw': {'Nmax': 2, 'conserve': 'parity'}},
    {'cls': 'FermionSite', 'kw': {'conserve': None}},
    {'cls': 'FermionSite', 'kw': {'conserve': 'N'}},
    {'cls': 'FermionSite', 'kw': {'conserve': 'parity'}},
    {'cls': 'SpinHalfFermionSite', 'kw': {'cons_N': 'N', 'cons_Sz': 'Sz'}},
    {'cls': 'SpinHalfFermionSite', 'kw': {'cons_N': None, 'cons_Sz': None}},
]


def make_site(spec):
    from tenpy.networks import site as S
    cls = getattr(S, spec['cls'])
    return cls(**spec['kw'])


def make_unit_cell(specs, common=None):
    """list of site specs -> list of sites with a common ChargeInfo"""
    from tenpy.networks.site import set_common_charges
    sites = [make_site(s) for s in specs]
    if len(sites) > 1:
        same = all(s == specs[0] for s in specs)
        if same:
            s0 = sites[0]
            sites = [s0] * len(sites)
        else:
            set_common_charges(sites, common or 'drop')
    return sites


def make_lattice(lspec, sites):
    """{'cls', 'Ls', 'bc_MPS', 'bc' (list of 'open'/'periodic'), 'order'} -> Lattice"""
    from tenpy.models import lattice as Lt
    cls = getattr(Lt, lspec['cls'])
    kw = dict(bc_MPS=lspec['bc_MPS'], bc=lspec['bc'] if len(lspec['bc']) > 1 else lspec['bc'][0])
    if lspec.get('order'):
        kw['order'] = lspec['order']
    if lspec['cls'] == 'Chain':
        return cls(lspec['Ls'][0], sites[0], **kw)
    if lspec['cls'] == 'Ladder':
        return cls(lspec['Ls'][0], sites if len(sites) > 1 else sites[0], **kw)
    if lspec['cls'] in ('Square', 'Triangular'):
        return cls(lspec['Ls'][0], lspec['Ls'][1], sites[0], **kw)
    if lspec['cls'] in ('Honeycomb',):
        return cls(lspec['Ls'][0], lspec['Ls'][1], sites if len(sites) > 1 else sites[0], **kw)
    raise ValueError(lspec['cls'])


def site_json(site):
    """what the Lean model needs to know about a site: need_JW_string and hc_ops"""
    return {'njw': sorted(site.need_JW_string), 'hc': sorted([a, b] for a, b in site.hc_ops.items())}


def op_matrix(site, name):
    return site.get_op(name).to_ndarray()


def site_mats_json(site, names):
    """sparse entries of the operators `names` in the site's internal basis"""
    ops = []
    for n in sorted(names):
        m = getattr(site, n).to_ndarray()
        es = [[int(r), int(c), float_bits(np.real(m[r, c])), float_bits(np.imag(m[r, c]))]
              for r, c in zip(*np.nonzero(m))]
        ops.append([n, es])
    return {'d': int(site.dim), 'ops': ops}


def float_bits(x):
    """IEEE-754 bit pattern of a float64 as an integer (exact transport to and from Lean)"""
    import struct
    return struct.unpack('<Q', struct.pack('<d', float(x)))[0]


def bits_float(n):
    import struct
    return struct.unpack('<d', struct.pack('<Q', int(n)))[0]


def op_charge(site, name):
    return tuple(int(x) for x in site.get_op(name).qtotal)


def neutral(site_ops):
    """site_ops: list of (site, opname): is the product charge neutral and JW-even?"""
    chinfo = site_ops[0][0].leg.chinfo
    q = chinfo.make_valid(np.sum([site.get_op(op).qtotal for site, op in site_ops], axis=0))
    even = sum(bool(site.op_needs_JW(op)) for site, op in site_ops) % 2 == 0
    return bool(np.all(q == chinfo.make_valid())) and even


def candidate_ops(site):
    return [n for n in sorted(site.opnames) if not n.startswith('JW')]


def pick_ops(rng, sites, n_tries=40):
    """pick one operator per given site such that the product is neutral and JW-even"""
    cands = [candidate_ops(s) for s in sites]
    for _ in range(n_tries):
        ops = [rng.choice(c) for c in cands]
        if all(o == 'Id' for o in ops):
            continue
        if neutral(list(zip(sites, ops))):
            return ops
    # fall back: hermitian neutral single-site operators
    res = []
    for s, c in zip(sites, cands):
        good = [o for o in c if o != 'Id' and neutral([(s, o)])]
        res.append(rng.choice(good) if good else 'Id')
    return res


# ---------------------------------------------------------------------------------------------
# oracle: explicit many-body matrices


class ManyBody:
    """operators of a chain of sites as scipy.sparse matrices in the Kronecker basis of the sites'
    internal bases; fermionic operators carry their Jordan-Wigner string to the left"""

    def __init__(self, sites):
        self.sites = list(sites)
        self.dims = [s.dim for s in self.sites]
        self.D = int(np.prod(self.dims))
        self._cache = {}

    def local(self, i, name):
        return sp.csr_matrix(self.sites[i].get_op(name).to_ndarray())

    def kron(self, mats):
        res = sp.identity(1, format='csr', dtype=complex)
        for m in mats:
            res = sp.kron(res, m, format='csr')
        return res

    def string(self, ops):
        """ops: dict site -> name (others identity): plain tensor product, no JW added"""
        key = ('s',) + tuple(sorted(ops.items()))
        if key not in self._cache:
            mats = [self.local(i, ops[i]) if i in ops else sp.identity(d, format='csr') for i, d in enumerate(self.dims)]
            self._cache[key] = self.kron(mats)
        return self._cache[key]

    def full(self, i, name):
        """many-body operator `name` on site i; Jordan-Wigner string on sites < i if needed"""
        key = ('f', i, name)
        if key not in self._cache:
            ops = {i: name}
            if self.sites[i].op_needs_JW(name):
                for k in range(i):
                    ops[k] = 'JW'
            self._cache[key] = self.string(ops)
        return self._cache[key]

    def product(self, term):
        """term: list of (name, site) -> product of the many-body operators, left to right"""
        res = sp.identity(self.D, format='csr', dtype=complex)
        for name, i in term:
            res = res @ self.full(i, name)
        return res

    def zero(self):
        return sp.csr_matrix((self.D, self.D), dtype=complex)


def dense(m):
    return np.asarray(m.todense()) if sp.issparse(m) else np.asarray(m)


def herm_defect(H):
    H = dense(H)
    return float(np.max(np.abs(H - H.conj().T))) if H.size else 0.0


def maxdiff(A, B):
    A, B = dense(A), dense(B)
    if A.shape != B.shape:
        return float('inf')
    return float(np.max(np.abs(A - B))) if A.size else 0.0


# ---------------------------------------------------------------------------------------------
# canonical JSON of graph keys, edges and term lists


def key_json(key):
    if isinstance(key, str):
        return key
    if isinstance(key, tuple):
        return [x if isinstance(x, str) else int(x) for x in key]
    return str(key)


def edges_json(graph):
    """sorted list [i, keyL, keyR, opname, [re, im]] of an MPOGraph"""
    import json
    es = []
    for i, G in enumerate(graph.graph):
        for keyL, D in G.items():
            for keyR, lst in D.items():
                for opname, strength in lst:
                    es.append([i, key_json(keyL), key_json(keyR), opname, gq(strength)])
    es.sort(key=lambda e: json.dumps(e, separators=(',', ':')))
    return es


def termlist_json(tl):
    return [[[[op, int(i)] for op, i in term], gq(s)] for term, s in zip(tl.terms, tl.strength)]


def norm_gq(j):
    """normalise a [re, im] JSON pair for comparison"""
    return [fr_str(parse_fr(j[0])), fr_str(parse_fr(j[1]))]


def norm_edges(es):
    import json
    res = [[e[0], e[1], e[2], e[3], norm_gq(e[4])] for e in es]
    res.sort(key=lambda e: json.dumps(e, separators=(',', ':')))
    return res


def canon_sum(terms):
    """[(sited string [(site, name)…], complex Fraction pair)] -> canonical dict"""
    acc = {}
    for t, c in terms:
        k = tuple(sorted((int(i), n) for i, n in t if n != 'Id'))
        re, im = acc.get(k, (Fraction(0), Fraction(0)))
        acc[k] = (re + c[0], im + c[1])
    return {k: v for k, v in acc.items() if v != (0, 0)}


def canon_from_json(j):
    return canon_sum([([(i, n) for i, n in t], gq_key(c)) for t, c in j])
