"""C16 coverage round: solver / wrapper / FlatLinearOperator API paths the main generators did not reach.

Scenarios (each with a dense numpy oracle or the documented contract):
  list_psi0   start vector given as a *list* of Arrays (direct sum), all solvers, small N_cache, E_shift, projection
  errors      documented ValueErrors of the constructors
  wrappers    Shift(0) warning, BoostNpcLinearOperator, empty Orthogonal, nested wrappers: matvec / to_matrix / adjoint /
              unwrapped / attribute delegation
  flat_api    FlatLinearOperator / FlatHermitianOperator: every constructor, charge_sector getter/setter, N x 1 input,
              flat_to_npc_None_sector, eigenvectors (hermitian and not, fixed sector and all sectors, v0_npc), adjoint
  gmres_api   immediate return for a solved system, restarts, plot_stats
"""
import warnings

import numpy as np
import scipy.linalg

from harness import c16_lib as L

SCENARIOS = ['list_psi0', 'list_psi0', 'list_psi0', 'errors', 'wrappers', 'wrappers', 'flat_api', 'flat_api', 'flat_api',
             'gmres_api']


def gen_case(rng):
    sc = rng.choice(SCENARIOS)
    d = rng.choice([2, 3, 4, 5, 6, 8])
    st = L.gen_structure(rng, d)
    return dict(part='api', mode='float', scenario=sc, st=st, d=d, nseed=rng.getrandbits(48), cplx=rng.random() < 0.5,
                opts={'N_cache': rng.choice([2, 3, 20]), 'reortho': rng.random() < 0.3,
                      'E_shift': rng.choice([None, None, -2.5, 1.5]), 'num_ev': rng.choice([1, 2, 3]),
                      'which': rng.choice(['LM', 'LR', 'SR']), 'restart': rng.choice([1, 3, 10]),
                      'N_max': rng.choice([2, 3, 20])})


class MatOp:
    """an npc matrix as NpcLinearOperator with to_matrix / adjoint"""

    def __init__(self, A):
        self.A = A
        self.dtype = A.dtype
        self.marker = 'base-operator'

    def matvec(self, vec):
        return self.A.matvec(vec)

    def to_matrix(self):
        return self.A

    def adjoint(self):
        return MatOp(self.A.conj().itranspose(['p', 'p*']))


class ListOp:
    """Hermitian operator on the direct sum of two copies of the space, acting on lists [a, b]"""

    def __init__(self, H11, H12, H22):
        self.H11, self.H12, self.H22 = H11, H12, H22
        self.H21 = H12.conj().itranspose(['p', 'p*'])

    def matvec(self, w):
        a, b = w
        return [self.H11.matvec(a) + self.H12.matvec(b), self.H21.matvec(a) + self.H22.matvec(b)]


def eval_api(case):
    L.quiet()
    fails = []
    try:
        {'list_psi0': sc_list, 'errors': sc_errors, 'wrappers': sc_wrappers, 'flat_api': sc_flat,
         'gmres_api': sc_gmres}[case['scenario']](case, fails)
    except Exception as e:  # noqa
        import traceback
        fails.append(('property', f'api.{case["scenario"]}.raises', f'{type(e).__name__}: {str(e)[:120]}\n' + traceback.format_exc()[-600:]))
    return fails, [], dict(N=2)


def setup(case, hermitian=True):
    st, d = case['st'], case['d']
    idx = L.sector_indices(st)
    nrng = np.random.default_rng(case['nseed'])
    cplx = case['cplx']
    return st, d, idx, nrng, cplx


def rand_sector_matrix(nrng, st, idx, d, cplx, hermitian):
    Hs = L.gen_hermitian(nrng, d, 'generic', cplx)[0] if hermitian else L.gen_general(nrng, d, cplx)
    return L.fill_other_sectors(nrng, st, idx, Hs, cplx, hermitian=hermitian)


def rand_vec(nrng, st, idx, d, cplx):
    return L.embed(st, idx, nrng.normal(size=d) + (1j * nrng.normal(size=d) if cplx else 0), dtype=complex if cplx else float)


def chk(fails, name, got, want, tol=1e-9):
    got, want = np.asarray(got), np.asarray(want)
    if got.shape != want.shape or np.linalg.norm(got - want) > tol * max(1.0, np.linalg.norm(want)):
        fails.append(('property', f'api.{name}', f'|got - want| = {np.linalg.norm(got - want) if got.shape == want.shape else "shape"}'))


# --------------------------------------------------------------------------------------------


def sc_list(case, fails):
    from tenpy.linalg import krylov_based as kb, sparse
    import tenpy.linalg.np_conserved as npc
    st, d, idx, nrng, cplx = setup(case)
    o = case['opts']
    M11 = rand_sector_matrix(nrng, st, idx, d, cplx, True)
    M22 = rand_sector_matrix(nrng, st, idx, d, cplx, True)
    M12 = rand_sector_matrix(nrng, st, idx, d, cplx, False) * 0.5
    H = ListOp(L.npc_matrix(st, M11), L.npc_matrix(st, M12), L.npc_matrix(st, M22))
    sub = lambda M: M[np.ix_(idx, idx)]  # noqa
    D = np.block([[sub(M11), sub(M12)], [sub(M12).conj().T, sub(M22)]])
    va, vb = rand_vec(nrng, st, idx, d, cplx), rand_vec(nrng, st, idx, d, cplx)
    x0 = np.concatenate([va[idx], vb[idx]])
    lam = np.linalg.eigvalsh(D)
    scale = max(1.0, abs(lam).max())

    def start():
        return [L.npc_vector(st, va), L.npc_vector(st, vb)]

    def flat(w):
        return np.concatenate([w[0].to_ndarray()[idx], w[1].to_ndarray()[idx]])

    opts = {'N_max': 2 * d + 2, 'N_min': 2, 'N_cache': o['N_cache'], 'reortho': o['reortho'], 'cutoff': 1e-9}
    if o['E_shift'] is not None:
        opts['E_shift'] = o['E_shift']
    # ground state, also with a cache smaller than the number of steps (rebuild path on lists)
    res = {}
    for nc in sorted({opts['N_cache'], 2 * d + 2}):
        E, psi, N = kb.LanczosGroundState(H, start(), dict(opts, N_cache=nc)).run()
        p = flat(psi)
        res[nc] = (E, p, N)
        if abs(np.linalg.norm(p) - 1) > 1e-10:
            fails.append(('property', 'api.list_psi0.lanczos.result-not-normalised', f'{np.linalg.norm(p)!r}'))
        rq = np.real(np.vdot(p, D @ p))
        if abs(rq - E) > 1e-8 * scale:
            fails.append(('property', 'api.list_psi0.lanczos.E-is-not-rayleigh-quotient', f'E={E!r} rq={rq!r} N={N} N_cache={nc}'))
        if E < lam[0] - 1e-9 * scale:
            fails.append(('property', 'api.list_psi0.lanczos.E-below-smallest-eigenvalue', f'{E!r} < {lam[0]!r}'))
        if N >= 2 * d and abs(E - lam[0]) > 1e-8 * scale:
            fails.append(('property', 'api.list_psi0.lanczos.full-dimension', f'E={E!r} lam_min={lam[0]!r}'))
    ks = sorted(res)
    if len(ks) == 2 and not o['reortho'] and res[ks[0]][2] == res[ks[1]][2] and res[ks[0]][2] <= 12:
        if np.linalg.norm(res[ks[0]][1] - res[ks[1]][1]) > 1e-7:
            fails.append(('property', 'api.list_psi0.lanczos.N_cache-changes-result', f'{np.linalg.norm(res[ks[0]][1] - res[ks[1]][1])!r}'))
    # evolution
    # (the final rescaling `(psi0_norm * result_norm) * result_full` of the evolution classes is written for a single
    #  Array; with a list only normalize=True is usable)
    for delta in (-0.3j, 0.2):
        w, N = kb.LanczosEvolution(H, start(), dict(opts)).run(delta, normalize=True)
        sh = o['E_shift'] or 0.0
        want = scipy.linalg.expm(delta * (D + sh * np.eye(2 * d))) @ x0
        if N >= 2 * d or N < opts['N_max']:
            chk(fails, f'list_psi0.evolution.delta={delta}', flat(w), want / np.linalg.norm(want), 1e-7)
    # Arnoldi on lists
    optsA = {'N_max': 2 * d + 2, 'num_ev': o['num_ev'], 'which': o['which'], 'cutoff': 1e-9}
    E, psis, N = kb.Arnoldi(H, start(), optsA).run()
    for k, p in enumerate(psis):
        p = flat(p)
        if abs(np.linalg.norm(p) - 1) > 1e-9 or abs(np.vdot(p, D @ p) - E[k]) > 1e-7 * scale:
            fails.append(('property', 'api.list_psi0.arnoldi.ritz-pair', f'k={k} |p|={np.linalg.norm(p)!r} rq-E={abs(np.vdot(p, D @ p) - E[k])!r}'))
        if N >= 2 * d and np.linalg.norm(D @ p - E[k] * p) > 1e-6 * scale:
            fails.append(('property', 'api.list_psi0.arnoldi.not-an-eigenpair-at-full-dimension', f'k={k}'))
    w, N = kb.ArnoldiEvolution(H, start(), {'N_max': 2 * d + 2, 'cutoff': 1e-9}).run(-0.2j, normalize=True)
    if N >= 2 * d or N < 2 * d + 2:
        want = scipy.linalg.expm(-0.2j * D) @ x0
        chk(fails, 'list_psi0.arnoldi_evolution', flat(w), want / np.linalg.norm(want), 1e-7)
    # projection with list vectors: the wrapper must act as P H P and must not change the vector it is applied to
    oa, ob = rand_vec(nrng, st, idx, d, cplx), rand_vec(nrng, st, idx, d, cplx)
    ov = np.concatenate([oa[idx], ob[idx]])
    ov = ov / np.linalg.norm(ov)
    P = np.eye(2 * d) - np.outer(ov, ov.conj())
    Ho = sparse.OrthogonalNpcLinearOperator(H, [[L.npc_vector(st, oa), L.npc_vector(st, ob)]])
    arg = start()
    before = flat(arg)
    got = flat(Ho.matvec(arg))
    chk(fails, 'list_psi0.orthogonal.matvec', got, P @ D @ P @ x0, 1e-9)
    if np.linalg.norm(flat(arg) - before) > 0:
        fails.append(('property', 'api.list_psi0.orthogonal.matvec-modifies-its-argument',
                      f'|after - before| = {np.linalg.norm(flat(arg) - before)!r}'))
    # sum of two list operators
    Hsum = sparse.SumNpcLinearOperator(H, H)
    chk(fails, 'list_psi0.sum.matvec', flat(Hsum.matvec(start())), 2 * D @ x0, 1e-9)
    # gram_schmidt on lists
    gs = kb.gram_schmidt([[L.npc_vector(st, va), L.npc_vector(st, vb)], [L.npc_vector(st, oa), L.npc_vector(st, ob)]])
    G = np.array([[np.vdot(flat(a), flat(b)) for b in gs] for a in gs])
    chk(fails, 'list_psi0.gram_schmidt', G, np.eye(len(gs)), 1e-10)


def sc_errors(case, fails):
    from tenpy.linalg import krylov_based as kb, sparse
    import tenpy.linalg.np_conserved as npc
    st, d, idx, nrng, cplx = setup(case)
    M = rand_sector_matrix(nrng, st, idx, d, cplx, True)
    H = L.npc_matrix(st, M)
    v = L.npc_vector(st, rand_vec(nrng, st, idx, d, cplx))

    def expect(name, f, exc=ValueError):
        try:
            f()
        except exc:
            return
        except Exception as e:  # noqa
            fails.append(('property', f'api.errors.{name}.wrong-exception', f'{type(e).__name__}: {str(e)[:80]}'))
            return
        fails.append(('property', f'api.errors.{name}.not-raised', ''))

    expect('N_min<2', lambda: kb.LanczosGroundState(H, v, {'N_min': 1}))
    expect('N_cache<2', lambda: kb.LanczosGroundState(H, v, {'N_cache': 1}))
    expect('psi0-zero', lambda: kb.LanczosGroundState(H, v * 0.0, {}).run())
    expect('psi0-tiny', lambda: kb.LanczosEvolution(H, v * 1e-30, {}).run(0.1))
    for cls in (kb.KrylovBased,):
        eng = cls(H, v, {})
        expect('base.run', eng.run, NotImplementedError)
        expect('base._build_krylov', eng._build_krylov, NotImplementedError)
        expect('base._calc_result_krylov', lambda: eng._calc_result_krylov(0), NotImplementedError)
    leg = H.legs[0]
    if not leg.is_blocked():
        expect('flat.compact_flat-on-unblocked-leg', lambda: sparse.FlatLinearOperator(H.matvec, leg, H.dtype, v.qtotal, compact_flat=True))
    else:
        expect('flat.compact_flat-with-None-sector', lambda: sparse.FlatLinearOperator(H.matvec, leg, H.dtype, None, compact_flat=True))
    expect('flat.from_NpcArray-rank', lambda: sparse.FlatLinearOperator.from_NpcArray(v))
    v2 = npc.outer(v.replace_label('p', 'a'), v.replace_label('p', 'b'))
    expect('flat.from_guess_with_pipe-labels', lambda: sparse.FlatLinearOperator.from_guess_with_pipe(lambda x: x, v2, labels_split=['a']))
    F = sparse.FlatLinearOperator.from_NpcArray(H, charge_sector=v.qtotal, compact_flat=False)
    other = [c for c in st['qflat'] if c != st['q']]
    if other:
        wrong = np.zeros(len(st['qflat']))
        wrong[[i for i, c in enumerate(st['qflat']) if c == other[0]][0]] = 1.0
        vw = npc.Array.from_ndarray(wrong, [leg], labels=['p'])
        if np.any(vw.qtotal != v.qtotal):
            expect('flat.npc_to_flat-wrong-sector', lambda: F.npc_to_flat(vw))
    with warnings.catch_warnings(record=True) as w:
        warnings.simplefilter('always')
        sparse.ShiftNpcLinearOperator(H, 0.0)
        sparse.OrthogonalNpcLinearOperator(H, [])
        sparse.BoostNpcLinearOperator(H, [], [])
    if len(w) < 3:
        fails.append(('property', 'api.errors.no-warning-for-trivial-wrapper', f'{len(w)} warnings for shift=0 / no ortho_vecs / no boosts'))


def sc_wrappers(case, fails):
    from tenpy.linalg import sparse
    st, d, idx, nrng, cplx = setup(case)
    M = rand_sector_matrix(nrng, st, idx, d, cplx, False)
    M2 = rand_sector_matrix(nrng, st, idx, d, cplx, True)
    v = rand_vec(nrng, st, idx, d, cplx)
    bvs = [rand_vec(nrng, st, idx, d, cplx) for _ in range(2)]
    bvs = [b / np.linalg.norm(b) for b in bvs]
    boosts = [2.5, -1.25 + (0.5j if cplx else 0)]
    Ms, M2s, vs = M[np.ix_(idx, idx)], M2[np.ix_(idx, idx)], v[idx]
    Bs = sum(b * np.outer(x[idx], x[idx].conj()) for b, x in zip(boosts, bvs))
    vn = L.npc_vector(st, v)
    leg_ok = True

    def sect(a):
        a = a.to_ndarray()
        return a[idx] if a.ndim == 1 else a[np.ix_(idx, idx)]

    base = MatOp(L.npc_matrix(st, M))
    Bo = sparse.BoostNpcLinearOperator(base, boosts, [L.npc_vector(st, b) for b in bvs])
    chk(fails, 'wrappers.boost.matvec', sect(Bo.matvec(vn)), (Ms + Bs) @ vs)
    try:
        chk(fails, 'wrappers.boost.to_matrix', sect(Bo.to_matrix()), Ms + Bs)
    except AttributeError as e:
        fails.append(('property', 'api.wrappers.boost.to_matrix-raises', f'AttributeError: {str(e)[:80]}'))
    chk(fails, 'wrappers.boost.adjoint.matvec', sect(Bo.adjoint().matvec(vn)), (Ms + Bs).conj().T @ vs)
    # nesting: Sum(Shift(Boost(base)), other), attribute delegation and unwrapped()
    shift = 0.75 - (0.25j if cplx else 0)
    Sh = sparse.ShiftNpcLinearOperator(Bo, shift)
    Su = sparse.SumNpcLinearOperator(Sh, MatOp(L.npc_matrix(st, M2)))
    want = Ms + Bs + shift * np.eye(d) + M2s
    chk(fails, 'wrappers.nested.matvec', sect(Su.matvec(vn)), want @ vs)
    chk(fails, 'wrappers.nested.adjoint.matvec', sect(Su.adjoint().matvec(vn)), want.conj().T @ vs)
    if Su.marker != 'base-operator' or Sh.dtype != base.dtype:
        fails.append(('property', 'api.wrappers.attribute-delegation', f'{Su.marker!r}'))
    if Su.unwrapped() is not base or Sh.unwrapped() is not base:
        fails.append(('property', 'api.wrappers.unwrapped', f'{type(Su.unwrapped()).__name__}'))
    for op, name in ((sparse.NpcLinearOperator(), 'NpcLinearOperator'), (sparse.NpcLinearOperatorWrapper(base), 'Wrapper')):
        for meth in ('to_matrix', 'adjoint') + (('matvec',) if name == 'NpcLinearOperator' else ()):
            try:
                getattr(op, meth)(*([vn] if meth == 'matvec' else []))
                fails.append(('property', f'api.wrappers.{name}.{meth}-prototype-does-not-raise', ''))
            except NotImplementedError:
                pass
    # empty projection = the operator itself
    with warnings.catch_warnings():
        warnings.simplefilter('ignore')
        Oe = sparse.OrthogonalNpcLinearOperator(base, [])
    chk(fails, 'wrappers.orthogonal-empty.matvec', sect(Oe.matvec(vn)), Ms @ vs)


def sc_flat(case, fails):
    from tenpy.linalg import sparse
    import tenpy.linalg.np_conserved as npc
    st, d, idx, nrng, cplx = setup(case)
    n = len(st['qflat'])
    herm = nrng.random() < 0.5
    M = rand_sector_matrix(nrng, st, idx, d, cplx, herm)
    H = L.npc_matrix(st, M)
    leg = H.legs[0]
    v = rand_vec(nrng, st, idx, d, cplx)
    vn = L.npc_vector(st, v)
    qt = vn.qtotal
    Ms = M[np.ix_(idx, idx)]
    cls = sparse.FlatHermitianOperator if herm else sparse.FlatLinearOperator
    F = cls.from_NpcArray(H, charge_sector=qt)
    if np.any(F.charge_sector != qt):
        fails.append(('property', 'api.flat.charge_sector-getter', f'{F.charge_sector} vs {qt}'))
    x = v[idx].astype(H.dtype)
    chk(fails, 'flat.matvec-Nx1', np.asarray(F.matvec(x.reshape(-1, 1))).reshape(-1), Ms @ x)
    chk(fails, 'flat._matvec-Nx1', F._matvec(x.reshape(-1, 1)), Ms @ x)
    chk(fails, 'flat.matmat', F.matmat(np.stack([x, 2 * x], axis=1)), np.stack([Ms @ x, 2 * Ms @ x], axis=1))
    if herm:
        if F.adjoint() is not F and F.H is not F:
            fails.append(('property', 'api.flat.hermitian-adjoint-is-not-self', ''))
        chk(fails, 'flat.rmatvec', F.rmatvec(x), Ms.conj().T @ x)
    # every sector through the setter (zero sector via the int 0)
    sectors = []
    for c in st['qflat']:
        if c not in sectors:
            sectors.append(c)
    chinfo = leg.chinfo
    for c in sectors:
        ii = [i for i, q in enumerate(st['qflat']) if q == c]
        qtot = chinfo.make_valid(np.array(c, dtype=int) * st['qconj']) if c else chinfo.make_valid()
        try:
            F.charge_sector = 0 if (len(qtot) == 0 or not np.any(qtot)) and nrng.random() < 0.5 else qtot
        except ValueError as e:
            fails.append(('property', 'api.flat.charge_sector-setter-raises', f'{str(e)[:80]} sector={c}'))
            continue
        if F.shape != (len(ii), len(ii)):
            fails.append(('property', 'api.flat.charge_sector-setter-wrong-shape', f'{F.shape} for {len(ii)} indices of charge {c}'))
            continue
        y = nrng.normal(size=len(ii)).astype(H.dtype)
        chk(fails, 'flat.matvec-after-setter', F.matvec(y), M[np.ix_(ii, ii)] @ y)
    F.charge_sector = qt
    # eigenvectors in the fixed sector
    k = int(min(case['opts']['num_ev'], max(1, d - 2)))
    if d >= 4:
        which = {'LM': 'LM', 'LR': 'LA' if herm else 'LR', 'SR': 'SA' if herm else 'SR'}[case['opts']['which']]
        kw = {'v0_npc': vn} if nrng.random() < 0.5 else {}
        eta, ws = F.eigenvectors(num_ev=k, which=which, **kw)
        lam = np.linalg.eigvalsh(Ms) if herm else np.linalg.eigvals(Ms)
        key = {'LM': -np.abs(lam), 'LA': -np.real(lam), 'LR': -np.real(lam), 'SA': np.real(lam), 'SR': np.real(lam)}[which]
        want = lam[np.argsort(key)][:len(eta)]
        gaps_ok = len(lam) <= len(eta) or abs(np.sort(key)[len(eta)] - np.sort(key)[len(eta) - 1]) > 1e-6
        if gaps_ok and np.linalg.norm(np.sort_complex(np.asarray(eta, dtype=complex)) - np.sort_complex(want.astype(complex))) > 1e-7 * max(1.0, np.abs(lam).max()):
            fails.append(('property', 'api.flat.eigenvectors.wrong-eigenvalues', f'{eta} vs {want} which={which}'))
        for e, w in zip(eta, ws):
            wv = w.to_ndarray()
            if np.linalg.norm(np.delete(wv, idx)) > 1e-10 or np.linalg.norm(Ms @ wv[idx] - e * wv[idx]) > 1e-6 * max(1.0, np.abs(lam).max()):
                fails.append(('property', 'api.flat.eigenvectors.not-an-eigenpair', f'e={e!r}'))
    # all sectors at once (label given, so that the npc <-> flat conversion knows its legs)
    if leg.is_blocked():
        Fa = sparse.FlatLinearOperator(H.matvec, leg, H.dtype, charge_sector=None, vec_label='p')
        y = nrng.normal(size=n).astype(H.dtype)
        chk(fails, 'flat.all-sectors.matvec', Fa.matvec(y), M @ y)
        e = np.zeros(n, dtype=H.dtype)
        e[idx] = v[idx]
        w = Fa.flat_to_npc_None_sector(e)
        chk(fails, 'flat.flat_to_npc_None_sector', w.to_ndarray(), e)
        if n >= 5:
            lam = np.linalg.eigvals(M)
            order = np.argsort(-np.abs(lam))
            if abs(abs(lam[order[1]]) - abs(lam[order[2]])) > 1e-3 and abs(abs(lam[order[0]]) - abs(lam[order[1]])) > 1e-3:
                eta, ws = Fa.eigenvectors(num_ev=2, which='LM')
                if np.linalg.norm(np.sort(np.abs(eta))[::-1] - np.abs(lam[order[:2]])) > 1e-6 * max(1.0, np.abs(lam).max()):
                    fails.append(('property', 'api.flat.all-sectors.eigenvectors.wrong-eigenvalues', f'{eta} vs {lam[order[:2]]}'))
                for e_, w in zip(eta, ws):
                    wv = w.to_ndarray()
                    if np.linalg.norm(M @ wv - e_ * wv) > 1e-6 * max(1.0, np.abs(lam).max()):
                        fails.append(('property', 'api.flat.all-sectors.eigenvectors.not-an-eigenpair-with-definite-charge', f'e={e_!r}'))
    # two-leg vectors through a pipe
    qa, qb = st['qflat'][:max(2, n // 2)], (st['qflat'] * 2)[:2]
    la = npc.LegCharge.from_qflat(chinfo, np.array(qa, dtype=int).reshape(len(qa), chinfo.qnumber), 1)
    lb = npc.LegCharge.from_qflat(chinfo, np.array(qb, dtype=int).reshape(len(qb), chinfo.qnumber), -1)
    t = npc.Array.from_func(lambda size: nrng.normal(size=size), [la, lb], labels=['a', 'b'], shape_kw='size',
                            qtotal=chinfo.make_valid(la.charges[0] - lb.charges[0]))
    c = 1.5 - (0.5j if cplx else 0)

    def mv(x):     # a simple operator on two-leg vectors: multiplication and leg-preserving map
        return x * c
    for dtype, labels, compact in ((None, None, True), (complex if cplx else float, ['a', 'b'], True), (None, ['b', 'a'], True),
                                   (None, ['a', 'b'], False)):
        Fp, gflat = sparse.FlatLinearOperator.from_guess_with_pipe(mv, t, labels_split=labels, dtype=dtype, compact_flat=compact)
        chk(fails, 'flat.from_guess_with_pipe.matvec', Fp.matvec(gflat), c * gflat)
        back = Fp.flat_to_npc(gflat).split_legs(0)
        chk(fails, 'flat.from_guess_with_pipe.roundtrip', back.itranspose(['a', 'b']).to_ndarray(), t.to_ndarray())


def sc_gmres(case, fails):
    from tenpy.linalg import krylov_based as kb
    st, d, idx, nrng, cplx = setup(case)
    M = rand_sector_matrix(nrng, st, idx, d, cplx, False)
    M[np.ix_(idx, idx)] += 3.0 * np.eye(d)
    A = L.npc_matrix(st, M)
    As = M[np.ix_(idx, idx)]
    b = rand_vec(nrng, st, idx, d, cplx)
    xs = np.linalg.solve(As, b[idx])
    xe = L.npc_vector(st, L.embed(st, idx, xs, dtype=b.dtype))
    bn = L.npc_vector(st, b)
    # already solved: returns at once, the guess is returned unchanged
    x, res, terr, its = kb.GMRES(A, xe, bn, {'res': 1e-8}).run()
    if its or np.linalg.norm(x.to_ndarray()[idx] - xs) > 1e-12 or res > 1e-8:
        fails.append(('property', 'api.gmres.solved-system-is-iterated', f'iters={its} res={res!r}'))
    # restarts with short cycles
    o = case['opts']
    x, res, terr, its = kb.GMRES(A, bn * 0.0, bn, {'N_max': max(1, min(o['N_max'], d)), 'N_min': 0, 'restart': o['restart'], 'res': 1e-10}).run()
    true = np.linalg.norm(As @ x.to_ndarray()[idx] - b[idx]) / np.linalg.norm(b[idx])
    if abs(true - float(np.real(res))) > 1e-10 * max(1.0, true):
        fails.append(('property', 'api.gmres.reported-residual', f'{res!r} vs {true!r}'))
    if len(its) > o['restart']:
        fails.append(('property', 'api.gmres.more-cycles-than-restart', f'{its} restart={o["restart"]}'))
    firsts = [float(t[0]) for t in terr]
    if any(firsts[i + 1] > firsts[i] * (1 + 1e-9) + 1e-12 for i in range(len(firsts) - 1)):
        fails.append(('property', 'api.gmres.residual-grows-across-restarts', f'{firsts}'))
    if true < 1e-10 and len(its) == o['restart'] and len(its) > 1 and firsts[-1] < 1e-10 and len(terr[-1]) > 1:
        fails.append(('property', 'api.gmres.keeps-restarting-after-convergence', f'{firsts} iters={its}'))

    class Ax:
        def __init__(self):
            self.calls = []

        def scatter(self, x, y):
            self.calls.append((len(x), len(y)))

        def set_xlabel(self, s):
            self.calls.append(s)

        def set_ylabel(self, s):
            self.calls.append(s)
    ax = Ax()
    kb.plot_stats(ax, [np.array([1.0]), np.array([0.5, 2.0]), np.array([0.4, 1.0, 2.5])])
    if not ax.calls or ax.calls[0] != (6, 6):
        fails.append(('property', 'api.plot_stats', f'{ax.calls}'))
