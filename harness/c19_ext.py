"""C19 extension round: correspondence + independent oracle for the code modelled in lean/TenpyModel/C19/Ext.lean

  msp  `MultiSpeciesLattice`: `self_u_to_simple_u` / `self_u_to_species_idx` / `simple_u_to_species_u`, the unit cell
       (`list(species_sites) * simple_Lu`), `unit_cell_positions` (`np.repeat`), `_generate_new_pairs` (all keys, the
       duplicate-key ValueError), `count_neighbors`                         -> Lean `Ext.genNewPairs`, `Ext.countNeighbors`, ...
  fcp  `Lattice.find_coupling_pairs(max_dx, cutoff)` on lattices with integer basis / positions (exact squared
       distances)                                                            -> Lean `Ext.findCouplingPairs`
  bc   the `bc` argument: `boundary_conditions` setter (bc, bc_shift) / getter and the bc checks of `test_sanity`
       through `Lattice.__init__`                                            -> Lean `Ext.bcSetter`, `bcGetter`, `initBC`

A case is a small JSON dict `{part:'ext', kind:..., ...}` holding the complete input (replays exactly).  The driver is
lean/drivers/C19.lean (lines with a field "ext").
"""
import itertools
import math
import warnings

import numpy as np

from vlib import core

SIMPLE = [('Chain', 1, 1), ('Ladder', 1, 2), ('NLegLadder', 1, 3), ('Square', 2, 1), ('Triangular', 2, 1),
          ('Honeycomb', 2, 2), ('Kagome', 2, 3)]
GOOD_NAMES = ['a', 'b', 'c', 'up', 'down', 'A', 'B', 'f', 'x1', 'y']
# name lists that make two generated keys coincide (ValueError expected) or are otherwise unusual
BAD_NAMES = [['a', 'a'], ['all', 'all'], ['all', 'b'], ['a', 'b', 'a'], ['a', 'a-a'], ['x', 'x-x', 'y'], ['u', 'u']]
ODD_NAMES = [['diag', 'b'], ['a-b', 'c'], ['', 'b'], ['all', ], ['a_b', 'a']]


# ---------------------------------------------------------------------------------------------- generation

def gen_msp(rng):
    cls, dim, Lu = rng.choice(SIMPLE)
    Ls = [rng.randint(1, 3) for _ in range(dim)]
    r = rng.random()
    if r < 0.62:
        nsp = rng.choice([1, 2, 2, 2, 3, 3, 4])
        names = rng.sample(GOOD_NAMES, nsp)
    elif r < 0.72:
        nsp = rng.choice([1, 2, 3])
        names = None  # default str(i)
    elif r < 0.9:
        names = list(rng.choice(BAD_NAMES))
    else:
        names = list(rng.choice(ODD_NAMES))
    nsp = len(names) if names is not None else nsp
    n_names = nsp
    if rng.random() < 0.04:
        n_names = nsp + rng.choice([-1, 1])  # wrong number of names: ValueError before anything else
    return dict(part='ext', kind='msp', cls=cls, Ls=Ls, nsp=nsp, names=names, n_names=n_names,
                probe=rng.getrandbits(20))


def gen_fcp(rng):
    dim = rng.choice([1, 1, 2, 2, 2, 3])
    Dim = dim + (1 if rng.random() < 0.25 else 0)
    Lu = rng.choice([1, 1, 2, 2, 3])
    r = rng.random()
    hi = 1 if dim == 3 else 2
    while True:
        basis = [[rng.randint(-hi, hi) for _ in range(Dim)] for _ in range(dim)]
        if r < 0.08 or all(any(b) for b in basis):
            break  # a zero basis vector only in the malformed stream (the assert must fail)
    if rng.random() < 0.3:  # the standard cubic basis (distances of the predefined classes)
        basis = [[1 if k == a else 0 for k in range(Dim)] for a in range(dim)]
    pos = [[rng.randint(-1, 2) for _ in range(Dim)] for _ in range(Lu)]
    if Lu > 1 and rng.random() < 0.15:
        pos[1] = list(pos[0])  # two sites at the same point: distance 0 with dx = 0 (skipped by `dist < eps`)
    m = rng.choice([0, 1, 1, 2, 2, 2, 3]) if dim < 3 else rng.choice([1, 1, 2])
    minb2 = min(sum(x * x for x in b) for b in basis)
    q = rng.random()
    if q < 0.35:
        cut2 = None
    elif q < 0.9:
        top = m * m * minb2 - 1
        cut2 = rng.randint(max(0, top) // 2, max(0, top)) if top >= 0 else 0
    else:
        cut2 = m * m * minb2 + rng.randint(0, 2)  # too large: AssertionError
    return dict(part='ext', kind='fcp', basis=basis, pos=pos, m=m, cut2=cut2)


BC_GOOD = ['open', 'periodic']
BC_BAD = ['closed', 'Open', '', 'cylinder', 'x']


def gen_bc(rng):
    dim = rng.choice([1, 2, 2, 2, 3, 3])
    bc_mps = rng.choice(['finite', 'infinite', 'segment'])
    r = rng.random()
    if r < 0.12:
        arg = rng.choice(BC_GOOD)
    elif r < 0.17:
        arg = rng.choice(BC_BAD)
    else:
        n = dim if rng.random() < 0.9 else max(0, dim + rng.choice([-1, 1, 2]))
        arg = []
        for a in range(n):
            q = rng.random()
            if q < 0.04:
                arg.append(rng.choice(BC_BAD))
            elif a == 0:
                arg.append(rng.choice(BC_GOOD) if q < 0.96 else rng.choice([0, 1, -1]))
            elif q < 0.55:
                arg.append(rng.choice(BC_GOOD))
            else:
                arg.append(rng.choice([0, 0, 1, -1, 2, -2, 3]))
    return dict(part='ext', kind='bc', dim=dim, arg=arg, bc_MPS=bc_mps, as_tuple=rng.random() < 0.3)


def gen_cases(rng, n):
    out = []
    for k in range(n):
        out.append(gen_msp(rng) if k % 3 == 0 else gen_fcp(rng) if k % 3 == 1 else gen_bc(rng))
    return out


# ---------------------------------------------------------------------------------------------- real code

def _simple(case):
    from tenpy.models import lattice as la
    cls, Ls = case['cls'], case['Ls']
    if cls == 'Chain':
        return la.Chain(Ls[0], None, bc='periodic', bc_MPS='infinite')
    if cls == 'Ladder':
        return la.Ladder(Ls[0], [None, None], bc='periodic', bc_MPS='infinite')
    if cls == 'NLegLadder':
        return la.NLegLadder(Ls[0], 3, None, bc='periodic', bc_MPS='infinite')
    n = {'Square': 1, 'Triangular': 1, 'Honeycomb': 2, 'Kagome': 3}[cls]
    return getattr(la, cls)(Ls[0], Ls[1], None if n == 1 else [None] * n, bc='periodic', bc_MPS='infinite')


def canon_pairs(pairs):
    return {str(k): [[int(a), int(b), [int(x) for x in dx]] for a, b, dx in v] for k, v in pairs.items()}


def eval_msp(case):
    """-> dict(model_input, real, oracle=[(sig, detail)])"""
    from tenpy.models import lattice as la
    from tenpy.networks.site import SpinHalfSite
    simple = _simple(case)
    simple_pairs = canon_pairs(simple.pairs)
    simpleLu, dim, nsp = len(simple.unit_cell), simple.dim, case['nsp']
    species = [SpinHalfSite(conserve=None) for _ in range(nsp)]
    names = case['names']
    if names is not None and case['n_names'] != nsp:
        names = (names + ['zz'])[:case['n_names']]
    elif names is None and case['n_names'] != nsp:
        names = [str(i) for i in range(case['n_names'])]
    eff_names = names if names is not None else [str(i) for i in range(nsp)]
    Lu = simpleLu * nsp
    us = list(range(Lu)) + [Lu + 1, 3 * Lu + 2]
    import random
    prng = random.Random(case['probe'])
    keys = list(simple_pairs)
    cn = []
    for _ in range(6):
        k = prng.choice(keys)
        suffix = prng.choice(['all-all', 'diag'] + [f'{a}-{b}' for a in eff_names for b in eff_names][:6])
        cn.append([f'{k}_{suffix}', prng.randrange(Lu)])
    if nsp > 1 and len(eff_names) == nsp:
        cn.append([f'onsite_{eff_names[0]}-{eff_names[1]}', prng.randrange(Lu)])
    minput = dict(ext='msp', names=eff_names, pairs=[[k, v] for k, v in simple_pairs.items()], simpleLu=simpleLu,
                  dim=dim, us=us, pos=[[k] for k in range(simpleLu)], cn=cn)
    oracle = []
    plain = (len(set(eff_names)) == len(eff_names) and all(n.isalnum() and n not in ('all', 'diag') for n in eff_names))
    try:
        lat = la.MultiSpeciesLattice(simple, species, names)
    except ValueError as e:
        if len(eff_names) != nsp:
            return dict(model_input=None, real='error', oracle=[], hist=['msp.names=wrong-number'])
        if plain:
            oracle.append(('multispecies.raised-ValueError-for-distinct-plain-names', f'{eff_names}: {e}'[:200]))
        return dict(model_input=minput, real='error', oracle=oracle, hist=['msp.names=colliding'])
    if len(eff_names) != nsp:
        return dict(model_input=None, real=None, hist=['msp.names=wrong-number'],
                    oracle=[('multispecies.accepted-wrong-number-of-names', f'{eff_names} for {nsp} species')])
    if len(set(eff_names)) != len(eff_names):
        oracle.append(('multispecies.duplicate-names-accepted', f'{eff_names}: entries of pairs overwritten'))
    real_pairs = canon_pairs(lat.pairs)
    umap = [[int(lat.self_u_to_simple_u(u)), int(lat.self_u_to_species_idx(u)),
             int(lat.simple_u_to_species_u(lat.self_u_to_simple_u(u), lat.self_u_to_species_idx(u)))] for u in us]
    # positions / unit cell as indices into the simple lattice / the species list
    pos_idx, tile = [], []
    for u in range(Lu):
        hits = [k for k in range(simpleLu) if np.array_equal(lat.unit_cell_positions[u], simple.unit_cell_positions[k])]
        pos_idx.append([hits[0]] if len(hits) >= 1 and u // nsp not in hits else [u // nsp] if hits else [-1])
        t = [k for k in range(nsp) if lat.unit_cell[u] is species[k]]
        tile.append(t[0] if len(t) == 1 else -1)
    cnr = []
    for k, u in cn:
        try:
            cnr.append(int(lat.count_neighbors(u, k)))
        except KeyError:
            cnr.append(None)
    real = dict(pairs=real_pairs, umap=umap, pos=pos_idx, tile=tile, cn=cnr)

    # ---- independent oracle: the property stated on the real object
    def fail(sig, det):
        oracle.append((sig, str(det)[:240]))
    if len(lat.unit_cell) != Lu or lat.unit_cell_positions.shape[0] != Lu:
        fail('multispecies.unit-cell-size', (len(lat.unit_cell), Lu))
    seen = {(lat.self_u_to_simple_u(u), lat.self_u_to_species_idx(u)) for u in range(Lu)}
    if seen != set(itertools.product(range(simpleLu), range(nsp))):
        fail('multispecies.u-maps-not-a-bijection', sorted(seen))
    for u in range(Lu):
        su, sp = lat.self_u_to_simple_u(u), lat.self_u_to_species_idx(u)
        if lat.simple_u_to_species_u(su, sp) != u:
            fail('multispecies.u-maps-not-inverse', u)
        if lat.unit_cell[u] is not species[sp]:
            fail('multispecies.unit-cell-site-is-not-the-species-of-u', u)
        if not np.array_equal(lat.unit_cell_positions[u], simple.unit_cell_positions[su]):
            fail('multispecies.position-is-not-the-position-of-the-simple-site', u)
    if plain:
        for K, val in simple_pairs.items():
            allk = real_pairs.get(f'{K}_all-all')
            if allk is None:
                fail('multispecies.pairs.missing-key', f'{K}_all-all')
                continue
            cnt = {}
            for a, b, dx in allk:
                cnt[(a, b, tuple(dx))] = cnt.get((a, b, tuple(dx)), 0) + 1
            want = {}
            for a, b, dx in val:
                for s1 in range(nsp):
                    for s2 in range(nsp):
                        key = (a * nsp + s1, b * nsp + s2, tuple(dx))
                        want[key] = want.get(key, 0) + 1
            if cnt != want:
                fail('multispecies.pairs.all-all-is-not-every-species-combination-once', (K, sorted(cnt.items())[:6]))
            for a, b, dx in allk[:40]:
                d1 = lat.distance(a, b, np.array(dx))
                d0 = simple.distance(a // nsp, b // nsp, np.array(dx))
                if abs(d1 - d0) > 1e-12:
                    fail('multispecies.pairs.distance-differs-from-simple-coupling', (K, a, b, dx))
            diag = real_pairs.get(f'{K}_diag')
            if diag != [c for c in allk if c[0] % nsp == c[1] % nsp]:
                fail('multispecies.pairs.diag-is-not-all-all-restricted-to-equal-species', K)
            for i1, n1 in enumerate(eff_names):
                for i2, n2 in enumerate(eff_names):
                    got = real_pairs.get(f'{K}_{n1}-{n2}')
                    if got != [[a * nsp + i1, b * nsp + i2, dx] for a, b, dx in val]:
                        fail('multispecies.pairs.species-key-is-not-the-lifted-simple-list', f'{K}_{n1}-{n2}')
            for u in range(Lu):
                if lat.count_neighbors(u, f'{K}_all-all') != nsp * simple.count_neighbors(u // nsp, K):
                    fail('multispecies.count_neighbors.all-all-is-not-N_species-times-simple', (K, u))
        for i1, n1 in enumerate(eff_names):
            for i2, n2 in enumerate(eff_names):
                key = f'onsite_{n1}-{n2}'
                if i2 <= i1:
                    if key in real_pairs:
                        fail('multispecies.pairs.onsite-key-for-unordered-species', key)
                    continue
                got = real_pairs.get(key)
                if got != [[u * nsp + i1, u * nsp + i2, [0] * dim] for u in range(simpleLu)]:
                    fail('multispecies.pairs.onsite-is-not-one-pair-per-simple-site', key)
        n_keys = len(simple_pairs) * (nsp * nsp + 2) + nsp * (nsp - 1) // 2
        if len(real_pairs) != n_keys:
            fail('multispecies.pairs.number-of-keys', (len(real_pairs), n_keys))
    return dict(model_input=minput, real=real, oracle=oracle,
                hist=['msp.names=' + ('plain' if plain else 'odd'), 'msp.cls=' + case['cls'], 'msp.nsp=%d' % nsp])


def d2_int(basis, pos, u1, u2, dx):
    Dim = len(basis[0])
    v = [pos[u2][k] - pos[u1][k] + sum(dx[a] * basis[a][k] for a in range(len(basis))) for k in range(Dim)]
    return sum(x * x for x in v)


def eval_fcp(case):
    from tenpy.models import lattice as la
    basis, pos, m, cut2 = case['basis'], case['pos'], case['m'], case['cut2']
    dim, Lu = len(basis), len(pos)
    lat = la.Lattice([2] * dim, [None] * Lu, bc='periodic', bc_MPS='infinite',
                     basis=np.array(basis, dtype=float), positions=np.array(pos, dtype=float))
    minput = dict(ext='fcp', basis=basis, pos=pos, m=m, cut2=cut2)
    minb2 = min(sum(x * x for x in b) for b in basis)
    eff_cut2 = m * m - 1 if cut2 is None else cut2
    oracle = []
    try:
        res = lat.find_coupling_pairs(max_dx=m, cutoff=None if cut2 is None else math.sqrt(cut2 + 0.5))
    except AssertionError:
        if eff_cut2 + (0.5 if cut2 is not None else 0) < m * m * minb2 - 1e-9 and not (cut2 is None and minb2 < 1):
            oracle.append(('find_coupling_pairs.assertion-for-a-cutoff-inside-the-box', f'cut2={cut2} m={m} minb2={minb2}'))
        return dict(model_input=minput, real='error', oracle=oracle, hist=['fcp=assert'])
    real, bad_key = [], None
    for key, val in res.items():
        k2 = float(key) ** 2
        if abs(k2 - round(k2)) > 1e-6:
            bad_key = key
        real.append([int(round(k2)), [[int(a), int(b), [int(x) for x in dx]] for a, b, dx in val]])

    # ---- independent oracle: brute force over the box
    def fail(sig, det):
        oracle.append((sig, str(det)[:240]))
    if bad_key is not None:
        fail('find_coupling_pairs.key-is-not-a-distance-of-the-lattice', bad_key)
    keys = [k for k, _ in real]
    if any(k1 >= k2 for k1, k2 in zip(keys, keys[1:])):
        fail('find_coupling_pairs.keys-not-strictly-ascending', keys)
    listed = {}
    for k, val in real:
        for a, b, dx in val:
            c = (a, b, tuple(dx))
            if c in listed:
                fail('find_coupling_pairs.coupling-listed-twice', c)
            listed[c] = k
            if d2_int(basis, pos, a, b, dx) != k:
                fail('find_coupling_pairs.coupling-under-the-wrong-distance', (c, k))
    n_expected = 0
    for u1 in range(Lu):
        for u2 in range(Lu):
            for dx in itertools.product(range(-m, m + 1), repeat=dim):
                d2 = d2_int(basis, pos, u1, u2, dx)
                c, r = (u1, u2, dx), (u2, u1, tuple(-x for x in dx))
                if 0 < d2 <= eff_cut2:
                    n_expected += 1
                    n = (c in listed) + (r in listed)
                    if n == 0:
                        fail('find_coupling_pairs.missing-coupling', (c, d2))
                    elif n == 2 and c != r:
                        fail('find_coupling_pairs.coupling-and-its-reverse-both-listed', (c, d2))
                elif c in listed:
                    fail('find_coupling_pairs.coupling-outside-the-cutoff-listed', (c, d2))
    if not oracle and 2 * len(listed) != n_expected:
        fail('find_coupling_pairs.number-of-couplings', (len(listed), n_expected))
    return dict(model_input=minput, real=real, oracle=oracle,
                hist=['fcp.dim=%d' % dim, 'fcp.Lu=%d' % Lu, 'fcp.m=%d' % m, 'fcp.cutoff=' + ('default' if cut2 is None else 'given'),
                      'fcp.groups=%d' % min(len(real), 6)])


def _state(lat):
    return [[bool(b) for b in lat.bc], None if lat.bc_shift is None else [int(x) for x in lat.bc_shift]]


def _entries(bc):
    return [int(b) if isinstance(b, (int, np.integer)) and not isinstance(b, bool) else str(b) for b in bc]


def eval_bc(case):
    from tenpy.models import lattice as la
    dim, arg, bc_mps = case['dim'], case['arg'], case['bc_MPS']
    real_arg = tuple(arg) if (isinstance(arg, list) and case['as_tuple']) else (list(arg) if isinstance(arg, list) else arg)
    minput = dict(ext='bc', dim=dim, arg=arg, finite=bc_mps == 'finite')
    oracle = []

    def fail(sig, det):
        oracle.append((sig, str(det)[:240]))
    is_list = isinstance(arg, list)
    wellformed = (arg in BC_GOOD) if not is_list else (
        len(arg) == dim and all(isinstance(e, int) or e in BC_GOOD for e in arg) and not isinstance(arg[0], int))
    lat = la.Lattice([2] * dim, [None], bc='periodic', bc_MPS='infinite')
    real = {}
    try:
        lat.boundary_conditions = real_arg
        real['set'] = _state(lat)
    except (ValueError, KeyError, IndexError) as e:
        real['set'] = 'error'
        if wellformed:
            fail('boundary_conditions.setter-raised-for-a-valid-argument', f'{arg}: {type(e).__name__}')
    if real['set'] != 'error':
        try:
            real['get'] = _entries(lat.boundary_conditions)
        except (AssertionError, IndexError):
            real['get'] = 'error'
    else:
        real['get'] = None
    try:
        lat2 = la.Lattice([2] * dim, [None], bc=real_arg, bc_MPS=bc_mps)
        real['init'] = _state(lat2)
    except (ValueError, KeyError, IndexError) as e:
        real['init'] = 'error'
        lat2 = None
    # ---- independent oracle
    if wellformed:
        full = [arg] * dim if not is_list else arg
        want_bc = [e == 'open' for e in full]
        shifts = [e if isinstance(e, int) else 0 for e in full[1:]]
        want = [want_bc, shifts if any(shifts) else None]
        if real['set'] != 'error' and real['set'] != want:
            fail('boundary_conditions.setter-state-differs-from-the-argument', (arg, real['set']))
        shown = ['periodic' if e == 0 and isinstance(e, int) else e for e in full]
        if real['get'] not in (None, shown):
            fail('boundary_conditions.getter-does-not-show-what-was-set', (arg, real['get']))
        if real['get'] not in (None, 'error'):
            lat3 = la.Lattice([2] * dim, [None], bc='periodic', bc_MPS='infinite')
            try:
                lat3.boundary_conditions = lat.boundary_conditions
                if _state(lat3) != real['set']:
                    fail('boundary_conditions.setter-of-getter-is-not-the-identity', (arg, _state(lat3), real['set']))
            except Exception as e:  # noqa: BLE001
                fail('boundary_conditions.setter-rejects-the-getter-output', (arg, type(e).__name__))
        must_reject = want_bc[0] and bc_mps != 'finite'
        if must_reject and real['init'] != 'error':
            fail('Lattice.init.accepts-open-x-with-infinite-MPS', (arg, bc_mps))
        if not must_reject and real['init'] != want:
            fail('Lattice.init.bc-state-differs-from-the-argument', (arg, bc_mps, real['init']))
    else:
        if real['init'] != 'error':
            fail('Lattice.init.accepts-a-malformed-bc-argument', (arg, real['init']))
        if is_list and arg and isinstance(arg[0], int) and real['set'] != 'error':
            fail('boundary_conditions.setter-accepts-a-shift-in-x', arg)
    return dict(model_input=minput, real=real, oracle=oracle,
                hist=['bc.dim=%d' % dim, 'bc.arg=' + ('wellformed' if wellformed else 'malformed'),
                      'bc.shift=' + ('yes' if is_list and any(isinstance(e, int) and e != 0 for e in arg) else 'no'),
                      'bc.init=' + ('error' if real['init'] == 'error' else 'ok')])


def eval_case(case):
    with warnings.catch_warnings():
        warnings.simplefilter('ignore')
        if case['kind'] == 'bc':
            return eval_bc(case)
        return eval_msp(case) if case['kind'] == 'msp' else eval_fcp(case)


def canon_model(case, m):
    if case['kind'] == 'msp':
        if m['pairs'] == 'error':
            return 'error'
        return dict(pairs={k: v for k, v in m['pairs']}, umap=m['umap'], pos=m['pos'], tile=m['tile'], cn=m['cn'])
    return m


# ---------------------------------------------------------------------------------------------- run

def run_cases(cases, use_model=True):
    res = core.Result()
    evs = []
    for c in cases:
        try:
            evs.append(eval_case(c))
        except Exception as e:  # noqa: BLE001  (every generated input is acceptable to the real code)
            evs.append(dict(model_input=None, real=None, hist=['raised'],
                            oracle=[(f'{c["kind"]}.raised-{type(e).__name__}', f'{type(e).__name__}: {e}'[:240])]))
    idx = [k for k, ev in enumerate(evs) if ev['model_input'] is not None] if use_model else []
    outs = {}
    if idx:
        try:
            rs = core.run_driver('C19', [evs[k]['model_input'] for k in idx])
            outs = dict(zip(idx, rs))
        except core.DriverError as e:
            res.extra['ext_driver_error'] = str(e)[:800]
            outs = {k: {'error': 'driver failed'} for k in idx}
    for k, (case, ev) in enumerate(zip(cases, evs)):
        nontrivial = ((case['kind'] == 'msp' and case['nsp'] > 1) or (case['kind'] == 'fcp' and case['m'] > 0)
                      or (case['kind'] == 'bc' and isinstance(case['arg'], list) and case['dim'] > 1))
        res.note_case(case, nontrivial)
        res.count('ext=' + case['kind'])
        for h in ev.get('hist', []):
            res.count('ext.' + h)
        seen = set()
        for sig, det in ev['oracle']:
            if sig not in seen:
                seen.add(sig)
                res.fail('property', sig, det, case)
        if k in outs:
            res.traces_validated += 1
            mo = outs[k]
            if 'r' not in mo:
                res.fail('correspondence', 'ext.model.error', str(mo)[:300], case)
                continue
            m = canon_model(case, mo['r'])
            if m != ev['real']:
                what = 'value'
                if isinstance(m, dict) and isinstance(ev['real'], dict):
                    what = next((f for f in ('umap', 'tile', 'pos', 'pairs', 'cn', 'set', 'get', 'init')
                                 if f in m and m[f] != ev['real'].get(f)), 'value')
                res.fail('correspondence', f'ext.model-vs-impl.{case["kind"]}.{what}',
                         f'impl {str(ev["real"])[:300]} model {str(m)[:300]}', case)
    return res


def run(ctx, factor=1):
    rng = ctx.sub_rng('ext')
    cases = gen_cases(rng, 390 * factor)
    return run_cases(cases)


def search(ctx, factor=4):
    rng = ctx.sub_rng('ext-search')
    return run_cases(gen_cases(rng, 390 * factor), use_model=False)


def replay_case(case):
    return run_cases([case])
