"""C17: case generation and evaluation on the real code (picklable records; the model comparison happens in
harness/C17.py after one batched driver call)."""
import collections
import copy
import io
import pickle
import random
import re
import traceback
import warnings

import h5py
import numpy as np

from tenpy.tools import hdf5_io

from harness import c17_graph as G
from harness import c17_legs as LG

FORMATS = LG.FORMATS

# Config.__del__ warns about unused options whenever a generated Config is garbage collected -- outside of any
# catch_warnings block; these lines are noise on the check's stderr, not results.
warnings.filterwarnings('ignore', message='unused option', category=UserWarning)

# --------------------------------------------------------------------------------------------
# random object-graph specs


def fhex(x):
    return float(x).hex()


def gen_leaf(rng):
    r = rng.random()
    if r < 0.16:
        return {'t': 'int', 'v': rng.choice([0, 1, 1, 2, -1, 7, 255, 256, 257, 1000, -12345, 2 ** 40, 2 ** 63 - 1, -2 ** 63,
                                              2 ** 64 - 1, 2 ** 64, 2 ** 70 + 3, -2 ** 65])}
    if r < 0.26:
        return {'t': 'float', 'v': fhex(rng.choice([0.0, -0.0, 1.5, -2.25, 1e300, 2.0 ** -1074, float('inf'), float('nan'),
                                                      0.1, 3.0]))}
    if r < 0.31:
        return {'t': 'complex', 'v': [fhex(rng.choice([0.0, 1.0, -0.5])), fhex(rng.choice([2.0, -1.25, 0.0]))]}
    if r < 0.43:
        s = rng.choice(['', 'a', 'abc', 'five', 'x y', 'ü', '名前', 'a/b', '.', '..', 'type', 'len', 'keys', 'values', '0', '10',
                        'A' * 40])
        return {'t': 'str', 'v': [ord(c) for c in s]}
    if r < 0.47:
        return {'t': 'bytes', 'v': rng.choice([b'', b'ab', b'\xff\x7f\x01', b'xyz']).hex()}
    if r < 0.53:
        return {'t': 'none'}
    if r < 0.58:
        return {'t': 'bool', 'v': rng.random() < 0.5}
    if r < 0.68:
        dt = rng.choice(['int64', 'float64', 'complex128', 'int32', 'float32', 'complex64', 'bool'])
        if dt.startswith('complex'):
            v = [fhex(rng.choice([0.5, -1.0])), fhex(rng.choice([2.0, 0.0]))]
        elif dt.startswith('float'):
            v = fhex(rng.choice([0.5, -1.0, 3.0]))
        elif dt == 'bool':
            v = rng.random() < 0.5
        else:
            v = rng.choice([0, 1, -5, 2 ** 31 - 1])
        return {'t': 'npscalar', 'dtype': dt, 'v': v}
    if r < 0.86:
        dt = rng.choice(['int64', 'float64', 'complex128', 'int32', 'bool', 'uint8', 'float32', 'int8'])
        shape = rng.choice([[0], [1], [3], [2, 3], [], [2, 0], [1, 2, 2]])
        n = int(np.prod(shape)) if shape else 1
        if dt.startswith('complex'):
            v = [[fhex(rng.randint(-2, 2)), fhex(rng.randint(-2, 2) / 2)] for _ in range(n)]
        elif dt.startswith('float'):
            v = [fhex(rng.randint(-8, 8) / 4) for _ in range(n)]
        elif dt == 'bool':
            v = [rng.random() < 0.5 for _ in range(n)]
        elif dt == 'uint8':
            v = [rng.randint(0, 255) for _ in range(n)]
        else:
            v = [rng.randint(-9, 9) for _ in range(n)]
        return {'t': 'ndarray', 'dtype': dt, 'shape': shape, 'v': v}
    if r < 0.90:
        return {'t': 'dtype', 'v': rng.choice(['float64', 'int64', 'complex128', 'bool', 'int32'])}
    if r < 0.95:
        return {'t': 'range', 'v': rng.choice([[0, 3, 1], [2, 8, 3], [5, 0, -1], [2, 2, 2], [0, 0, 1]])}
    return {'t': 'global', 'v': rng.choice(G.GLOBALS)}


HASHABLE_LEAF = ('int', 'float', 'complex', 'str', 'bytes', 'none', 'bool', 'npscalar', 'range', 'global')
SIMPLE_KEYS = ['a', 'b', 'data', 'x1', 'psi', 'long key with spaces', 'ü', 'type', 'len', 'keys', 'values', '0', '1',
               'A.b', '..', ' ']
FIELD_NAMES = ['a', 'b', 'data', 'x1', 'other', 'self_ref']


def gen_spec(rng, size=None, zoo_choices=None, allow_tuple_cycle=False, allow_reduce=True):
    size = size or rng.choice([2, 4, 6, 10, 16])
    nodes = [gen_leaf(rng) for _ in range(rng.randint(1, max(2, size)))]
    if zoo_choices and rng.random() < 0.5:
        for _ in range(rng.randint(1, 2)):
            nodes.append(dict(rng.choice(zoo_choices)))
    hashable = [i for i, nd in enumerate(nodes) if nd['t'] in HASHABLE_LEAF and not _is_nan(nd)]
    containers = []
    kinds = ['list'] * 4 + ['tuple'] * 3 + ['set'] * 2 + ['dict'] * 3 + ['dictg'] * 2 + ['plain'] * 2
    if allow_reduce:
        kinds += ['obj', 'odict', 'deque', 'ddict']
    for _ in range(size):
        t = rng.choice(kinds)
        i_pick = lambda: rng.randrange(len(nodes))  # noqa: E731
        if t in ('list', 'tuple', 'deque'):
            kids = [i_pick() for _ in range(rng.choice([0, 1, 2, 2, 3, 5]))]
            if rng.random() < 0.3 and kids:
                kids.append(kids[0])  # same object twice
            nodes.append({'t': t, 'kids': kids})
            if t == 'tuple' and all(k in hashable for k in kids):
                hashable.append(len(nodes) - 1)
        elif t == 'set':
            kids = sorted(set(rng.choice(hashable) for _ in range(rng.choice([0, 1, 2, 3])))) if hashable else []
            nodes.append({'t': 'set', 'kids': kids})
        elif t in ('dict', 'odict', 'ddict'):
            n = rng.choice([0, 1, 2, 3, 4])
            names = rng.sample(SIMPLE_KEYS, n)
            vals = [i_pick() for _ in range(n)]
            keys = []
            for nm in names:
                nodes.append({'t': 'str', 'v': [ord(c) for c in nm]})
                hashable.append(len(nodes) - 1)
                keys.append(len(nodes) - 1)
            nodes.append({'t': t, 'keys': keys, 'vals': vals})
        elif t == 'dictg':
            n = rng.choice([1, 2, 3])
            keys = []
            for _ in range(n):
                k = rng.choice(hashable) if hashable and rng.random() < 0.7 else None
                if k is None or k in keys:
                    nodes.append({'t': 'int', 'v': 1000 + len(nodes)})
                    hashable.append(len(nodes) - 1)
                    k = len(nodes) - 1
                keys.append(k)
            if all(nodes[k]['t'] == 'str' and G.valid_component(''.join(map(chr, nodes[k]['v']))) for k in keys):
                nodes.append({'t': 'int', 'v': 5000 + len(nodes)})  # force one non-simple key
                hashable.append(len(nodes) - 1)
                keys.append(len(nodes) - 1)
            vals = [rng.randrange(len(nodes)) for _ in keys]
            nodes.append({'t': 'dict', 'keys': keys, 'vals': vals})
        else:  # plain / obj
            n = rng.choice([0, 1, 2, 3])
            names = rng.sample(FIELD_NAMES, n)
            nodes.append({'t': t, 'fields': [[nm, i_pick()] for nm in names]})
        containers.append(len(nodes) - 1)
    # back edges: cycles and forward sharing through mutable containers
    mutable = [i for i in containers if nodes[i]['t'] in ('list', 'dict', 'plain', 'obj', 'odict', 'deque')]
    for _ in range(rng.choice([0, 0, 1, 2, 3])):
        if not mutable:
            break
        i = rng.choice(mutable)
        j = rng.choice(containers) if rng.random() < 0.8 else i
        if not allow_tuple_cycle and _creates_tuple_cycle(nodes, i, j):
            continue
        nd = nodes[i]
        if nd['t'] in ('list', 'deque'):
            nd['kids'].insert(rng.randint(0, len(nd['kids'])), j)
        elif nd['t'] in ('dict', 'odict'):
            nodes.append({'t': 'str', 'v': [ord(c) for c in 'back%d' % len(nodes)]})
            nd['keys'].append(len(nodes) - 1)
            nd['vals'].append(j)
        else:
            nd['fields'].append(['ref%d' % len(nd['fields']), j])
    # root: list or dict holding a selection (always a group in the file)
    top = [rng.choice(containers) for _ in range(rng.randint(1, 3))] + [rng.randrange(len(nodes)) for _ in range(rng.randint(0, 2))]
    if rng.random() < 0.5:
        nodes.append({'t': 'list', 'kids': top})
    else:
        keys = []
        for n in range(len(top)):
            nodes.append({'t': 'str', 'v': [ord(c) for c in 'k%d' % n]})
            keys.append(len(nodes) - 1)
        nodes.append({'t': 'dict', 'keys': keys, 'vals': top})
    return {'nodes': nodes, 'root': len(nodes) - 1}


def _is_nan(nd):
    return nd['t'] == 'float' and nd['v'] == 'nan'


def spec_kids(nd):
    t = nd['t']
    if t in ('list', 'tuple', 'set', 'deque'):
        return list(nd['kids'])
    if t in ('dict', 'odict', 'ddict'):
        return list(nd['keys']) + list(nd['vals'])
    if t in ('plain', 'obj'):
        return [v for _, v in nd['fields']]
    return []


def _reaches(nodes, src, dst, extra=None):
    seen, todo = set(), [src]
    while todo:
        x = todo.pop()
        if x == dst:
            return True
        if x in seen:
            continue
        seen.add(x)
        todo += spec_kids(nodes[x])
        if extra and x == extra[0]:
            todo.append(extra[1])
    return False


def _creates_tuple_cycle(nodes, i, j):
    """would the new edge i -> j put a tuple on a cycle?"""
    for t, nd in enumerate(nodes):
        if nd['t'] == 'tuple':
            for k in spec_kids(nd):
                if _reaches(nodes, k, t, extra=(i, j)):
                    return True
    return False


def has_tuple_cycle(spec):
    nodes = spec['nodes']
    return any(nd['t'] == 'tuple' and any(_reaches(nodes, k, t) for k in spec_kids(nd)) for t, nd in enumerate(nodes))


def spec_features(spec):
    nodes = spec['nodes']
    reach, todo = set(), [spec['root']]
    while todo:
        x = todo.pop()
        if x in reach:
            continue
        reach.add(x)
        todo += spec_kids(nodes[x])
    indeg = collections.Counter()
    for x in reach:
        for k in spec_kids(nodes[x]):
            indeg[k] += 1
    cont = [x for x in reach if spec_kids(nodes[x]) or nodes[x]['t'] in ('list', 'dict', 'tuple', 'set', 'plain', 'obj')]
    shared = sum(1 for x in cont if indeg[x] > 1)
    cyclic = any(_reaches(nodes, k, x) for x in cont for k in spec_kids(nodes[x]))
    return {'reachable': len(reach), 'containers': len(cont), 'shared': shared, 'cyclic': cyclic,
            'kinds': sorted(set(nodes[x]['t'] for x in reach))}


# --------------------------------------------------------------------------------------------
# zoo access (instances of every exportable class), cached per (class, seed)

_ZOO_CACHE = {}
_CLASSES = None


def classes():
    global _CLASSES
    if _CLASSES is None:
        from harness import c17_instances as Z
        _CLASSES = {Z.class_name(c): c for c in Z.discover_classes()}
    return _CLASSES


def zoo_instances(cls_name, seed):
    key = (cls_name, seed)
    if key not in _ZOO_CACHE:
        from harness import c17_instances as Z
        with warnings.catch_warnings():
            warnings.simplefilter('ignore')
            try:
                _ZOO_CACHE[key] = Z.make_instances(classes()[cls_name], random.Random('%s:%d' % (cls_name, seed)))
            except Exception as e:  # generator trouble is not a verdict about tenpy
                _ZOO_CACHE[key] = []
                _ZOO_CACHE[(cls_name, seed, 'error')] = repr(e)
    return _ZOO_CACHE[key]


def zoo_build(nd):
    inst = zoo_instances(nd['cls'], nd['seed'])
    if not inst:
        return None
    return inst[nd['i'] % len(inst)][1]


# --------------------------------------------------------------------------------------------
# running the real code


def innermost_class(tb, method_names):
    """class name of the innermost frame running one of `method_names` (e.g. from_hdf5), else function name"""
    best = None
    last_fn = None
    for frame, _ in traceback.walk_tb(tb):
        name = frame.f_code.co_name
        last_fn = name
        if name in method_names:
            if name in ('save_reduce', 'load_reduce', 'save_global'):
                best = name
            else:
                cls = frame.f_locals.get('cls') or type(frame.f_locals.get('self'))
                best = getattr(cls, '__name__', str(cls))
    return best or last_fn


def hdf5_roundtrip(obj, fmt=None):
    """Save with the tracing saver into an in-memory file, reflect the file, load with the tracing loader."""
    out = {'save_error': None, 'load_error': None}
    bio = io.BytesIO()
    Saver, Loader = G.tracing_saver_class(), G.tracing_loader_class()
    saver = None
    with warnings.catch_warnings():
        warnings.simplefilter('ignore')
        try:
            with h5py.File(bio, 'w') as f:
                saver = Saver(f, {'LegCharge': fmt} if fmt else None)
                saver.save(obj)
        except Exception as e:
            out['save_error'] = (innermost_class(e.__traceback__, ('save_hdf5', 'save_reduce', 'save_global')),
                                 type(e).__name__, str(e)[:300])
            out['saver'] = saver
            return out
        out['saver'] = saver
        with h5py.File(bio, 'r') as f:
            out['file'] = G.file_graph(f)
            loader = Loader(f)
            try:
                out['loaded'] = loader.load()
            except RecursionError as e:
                out['load_error'] = ('load', 'RecursionError', '')
            except Exception as e:
                out['load_error'] = (innermost_class(e.__traceback__, ('from_hdf5', 'load_reduce')), type(e).__name__,
                                     str(e)[:300])
            out['events'] = loader.events
            out['bytes'] = bio.getbuffer().nbytes
    return out


def norm_path(p):
    p = re.sub(r'\[[^\]]*\]', '[]', p)
    return p[:120]


def oracle(a, b, how, root_name, leg_mode='exact', identity_ids=None):
    """equality + identity + sanity. returns list of (signature, detail)"""
    C = G.Compare(leg_mode=leg_mode, identity_ids=identity_ids)
    try:
        diffs = C.run(a, b)
    except Exception as e:
        return [('%s.compare-raised:%s' % (how, root_name), repr(e) + traceback.format_exc()[-600:])]
    fails = []
    for path, what, owner in diffs:
        if what.startswith('identity'):
            kind = 'identity-lost' if 'not shared in the copy' in what else 'identity-merged'
            fails.append(('%s.%s:%s' % (how, kind, owner), '[%s] %s: %s' % (root_name, path, what)))
        else:
            what_n = re.sub(r'\[[^\]]*\]|\([^)]*\)', '[..]', what)
            what_n = re.sub(r'[-+]?\d[\d.e+-]*|\'[^\']*\'|"[^"]*"', '#', what_n)[:70]
            fails.append(('%s.not-equal:%s:%s' % (how, owner, what_n), '[%s] %s: %s' % (root_name, path, what)))
    if not fails:
        fails += sanity(b, how, root_name)
    return fails[:3]


def sanity(obj, how, root_name):
    """call test_sanity() on every object of the copy that offers it"""
    seen, todo, fails = set(), [obj], []
    n = 0
    with warnings.catch_warnings():
        warnings.simplefilter('ignore')
        while todo and n < 20000:
            x = todo.pop()
            if id(x) in seen or isinstance(x, G.IMMUTABLE_SCALARS) or isinstance(x, np.ndarray):
                continue
            seen.add(id(x))
            n += 1
            if isinstance(x, (list, tuple, set, collections.deque)):
                todo += list(x)
            elif isinstance(x, dict):
                todo += list(x.values())
            else:
                ts = getattr(x, 'test_sanity', None)
                if callable(ts):
                    try:
                        ts()
                    except Exception as e:
                        fails.append(('%s.test_sanity-fails:%s:%s:%s' % (how, root_name, type(x).__name__, type(e).__name__),
                                      repr(e)[:300]))
                        break
                d = getattr(x, '__dict__', None)
                if d:
                    todo += list(d.values())
    return fails


def other_roundtrips(obj, root_name, res):
    """pickle and copy.deepcopy: same oracle"""
    fails = []
    with warnings.catch_warnings():
        warnings.simplefilter('ignore')
        for how, f in (('pickle', lambda o: pickle.loads(pickle.dumps(o, protocol=pickle.HIGHEST_PROTOCOL))),
                       ('deepcopy', copy.deepcopy)):
            try:
                c = f(obj)
            except RecursionError:
                res['hist']['%s.recursion-limit' % how] += 1
                continue
            except Exception as e:
                fails.append(('%s.raises:%s:%s' % (how, root_name, type(e).__name__), repr(e)[:300]))
                continue
            fails += oracle(obj, c, how, root_name)
            res['hist']['%s.ok' % how] += 1
    return fails


def eval_object(obj, root_name, fmt, case, want_loaded_graph=False, skip_hdf5_oracle=False, do_other=True):
    """Everything on the real code for one root object. Returns a picklable record."""
    rec = {'case': case, 'fails': [], 'hist': collections.Counter(), 'heap': None, 'file': None, 'loaded': None,
           'unsupported': [], 'nontrivial': False}
    how = 'hdf5'
    with warnings.catch_warnings():
        warnings.simplefilter('ignore')
        odd_pipes = LG.noncanonical_pipes(obj)
    if odd_pipes:
        rec['hist']['input.pipe-differs-from-reinit'] += 1
    rt = hdf5_roundtrip(obj, fmt)
    if rt['save_error']:
        who, et, msg = rt['save_error']
        rec['fails'].append(('%s.save-raises:%s:%s' % (how, who, et), '[format %s] %s' % (fmt, msg)))
    else:
        early = G.early_map(rt.get('events', []))
        R = G.Reflect(rt['saver'].trace, early)
        r = R.visit(obj)
        rec['heap'] = {'nodes': R.nodes, 'root': r}
        rec['unsupported'] = R.unsupported[:3]
        fn, fr = rt['file']
        rec['file'] = G.canonical(fn, fr)
        rec['hist']['file.objects=%s' % _bucket(len(fn))] += 1
        nlinks = sum(len(nd['kids']) for nd in fn)
        rec['hist']['file.hardlinks=%s' % _bucket(nlinks - (len(fn) - 1))] += 1
        if rt['load_error']:
            who, et, msg = rt['load_error']
            if not skip_hdf5_oracle:
                if fmt == 'flat' and who in ('Array', 'LegPipe'):
                    # documented: "flat" is insufficient to recover the blocks; tensors/pipes saved with it do not load
                    rec['fails'].append(('hdf5[flat].lossy-format-not-loadable:%s' % who, '%s: %s' % (et, msg)))
                else:
                    rec['fails'].append(('%s.load-raises:%s:%s' % (how, who, et), '[format %s] %s' % (fmt, msg)))
        else:
            if not skip_hdf5_oracle:
                rec['fails'] += oracle(obj, rt['loaded'], how, root_name, leg_mode='flat' if fmt == 'flat' else 'exact',
                                       identity_ids=set(id(o) for o in R.objs))
            if want_loaded_graph:
                R2, r2 = G.reflect_plain(rt['loaded'])
                if not R2.unsupported:
                    rec['loaded'] = G.canonical(R2.nodes, r2, inline_scalars=True, sort_sets=True)
            rec['hist']['hdf5.ok'] += 1
    if odd_pipes and fmt != 'flat':
        # predicate on the input: the root holds a LegPipe that is not the pipe LegPipe(legs, qconj, sorted, bunched)
        # (outer_conj / apply_charge_mapping).  from_hdf5 re-initialises, so exactly these pipes -- and the tensors
        # carrying them -- come back different.  Only failures located at a pipe or at loading a tensor are renamed.
        renamed = []
        for sig, detail in rec['fails']:
            if sig.startswith('hdf5.') and ((':LegPipe.' in sig) or ('load-raises:Array' in sig) or ('load-raises:LegPipe' in sig)
                                             or ('test_sanity-fails' in sig and ':Array:' in sig)):
                sig = 'hdf5.pipe-differs-from-its-reinitialisation'
            renamed.append((sig, detail))
        rec['fails'] = renamed
    if do_other:
        rec['fails'] += other_roundtrips(obj, root_name, rec)
    rec['hist'] = dict(rec['hist'])
    return rec


def _bucket(n):
    for b in (0, 1, 2, 4, 8, 16, 32, 64, 128, 256, 1024):
        if n <= b:
            return '<=%d' % b
    return '>1024'


# --------------------------------------------------------------------------------------------
# case kinds


def eval_case(case):
    kind = case['kind']
    try:
        if kind == 'graph':
            return eval_graph(case)
        if kind == 'zoo':
            return eval_zoo(case)
        if kind == 'leg':
            return eval_leg(case)
        if kind == 'linalg':
            return eval_linalg(case)
        if kind == 'witness':
            return eval_witness(case)
        if kind == 'api':
            from harness import c17_api
            return c17_api.eval_api(case)
    except Exception:
        return {'case': case, 'fails': [], 'hist': {'harness-error': 1}, 'heap': None, 'file': None, 'loaded': None,
                'unsupported': [], 'nontrivial': False, 'harness_error': traceback.format_exc()[-1500:]}
    raise ValueError(kind)


def eval_graph(case):
    spec = case['spec']
    objs = G.build(spec, zoo=zoo_build)
    root = objs[spec['root']]
    tcyc = has_tuple_cycle(spec)
    feats = spec_features(spec)
    plain_only = all(nd['t'] not in ('zoo', 'obj', 'odict', 'deque', 'ddict') for nd in spec['nodes'])
    rec = eval_object(root, 'graph', None, case, want_loaded_graph=plain_only, skip_hdf5_oracle=tcyc)
    h = collections.Counter(rec['hist'])
    h['graph.cyclic=%s' % feats['cyclic']] += 1
    h['graph.shared=%s' % _bucket(feats['shared'])] += 1
    h['graph.size=%s' % _bucket(feats['reachable'])] += 1
    h['graph.tuple-cycle=%s' % tcyc] += 1
    for k in feats['kinds']:
        h['graph.node.' + k] += 1
    rec['hist'] = dict(h)
    rec['nontrivial'] = feats['containers'] >= 3 and (feats['shared'] > 0 or feats['cyclic'])
    rec['tuple_cycle'] = tcyc
    return rec


def eval_zoo(case):
    inst = zoo_instances(case['cls'], case['seed'])
    err = _ZOO_CACHE.get((case['cls'], case['seed'], 'error'))
    short = case['cls'].rsplit('.', 1)[1]
    if not inst:
        return {'case': case, 'fails': [], 'hist': {'zoo.no-instance:' + short: 1}, 'heap': None, 'file': None, 'loaded': None,
                'unsupported': [], 'nontrivial': False, 'harness_error': err}
    tag, obj = inst[case['i'] % len(inst)]
    wrap = case.get('wrap', 'dict')
    # the object twice below one root: identity of the two references must survive
    root = {'obj': obj, 'again': [obj, None]} if wrap == 'dict' else [obj, (obj,)]
    rec = eval_object(root, short, case.get('fmt'), case, do_other=case.get('fmt') in (None, 'blocks'))
    h = collections.Counter(rec['hist'])
    h['class.%s' % short] += 1
    h['format.%s' % (case.get('fmt') or 'default')] += 1
    rec['hist'] = dict(h)
    rec['nontrivial'] = True
    rec['tag'] = tag
    return rec


def eval_leg(case):
    rng = random.Random('leg:%d' % case['seed'])
    chinfo = LG.gen_chinfo(rng)
    leg = LG.gen_leg(rng, chinfo)
    fmt = case['fmt']
    root = {'leg': leg, 'same': leg, 'chinfo': chinfo}
    rec = eval_object(root, 'LegCharge', fmt, case, do_other=(fmt == 'blocks'))
    rec['leg'] = {'leg': LG.leg_to_json(leg), 'fmt': fmt, 'qnumber': int(chinfo.qnumber)}
    rec['leg_file'] = rec['leg_loaded'] = None
    # reflect what was written / loaded (second, plain save: no tracing needed)
    bio = io.BytesIO()
    with warnings.catch_warnings():
        warnings.simplefilter('ignore')
        try:
            with h5py.File(bio, 'w') as f:
                hdf5_io.Hdf5Saver(f, {'LegCharge': fmt}).save(root)
            with h5py.File(bio, 'r') as f:
                rec['leg_file'] = LG.leg_group_to_json(f['leg'])
                try:
                    rec['leg_loaded'] = LG.leg_to_json(hdf5_io.Hdf5Loader(f).load()['leg'])
                except Exception:
                    pass
        except Exception:
            pass
    h = collections.Counter(rec['hist'])
    h['leg.format=%s' % fmt] += 1
    h['leg.blocks=%s' % _bucket(leg.block_number)] += 1
    h['leg.qnumber=%d' % chinfo.qnumber] += 1
    h['leg.sorted=%s' % leg.sorted] += 1
    h['leg.bunched=%s' % leg.bunched] += 1
    h['leg.dipolar=%s' % (type(chinfo).__name__ == 'DipolarChargeInfo')] += 1
    rec['hist'] = dict(h)
    rec['nontrivial'] = leg.block_number >= 2
    return rec


def eval_linalg(case):
    rng = random.Random('linalg:%d' % case['seed'])
    what = case['what']
    chinfo = LG.gen_chinfo(rng)
    if what == 'chinfo':
        obj = chinfo
    elif what == 'pipe':
        obj = LG.gen_pipe(rng, chinfo, derived=case.get('derived'))
    else:
        obj = LG.gen_array(rng, chinfo)
    other = LG.gen_array(rng, chinfo) if rng.random() < 0.5 else None
    root = {'x': obj, 'list': [obj, other], 'chinfo': chinfo}
    rec = eval_object(root, type(obj).__name__, case['fmt'], case, do_other=case['fmt'] == 'blocks')
    h = collections.Counter(rec['hist'])
    h['linalg.%s.%s' % (what, case['fmt'])] += 1
    if what == 'pipe':
        h['pipe.derived=%s' % case.get('derived')] += 1
    if what == 'array':
        h['array.rank=%d' % obj.rank] += 1
        h['array.blocks=%s' % _bucket(obj.stored_blocks)] += 1
        h['array.dtype=%s' % obj.dtype] += 1
        h['array.has_pipe=%s' % any(type(l).__name__ == 'LegPipe' for l in obj.legs)] += 1
    rec['hist'] = dict(h)
    rec['nontrivial'] = True
    return rec


def eval_witness(case):
    """hand-written inputs (corpus)"""
    from tenpy.linalg import charges as tc
    from tenpy.linalg import np_conserved as npc
    name = case['name']
    if name in ('outer_conj_pipe', 'mapped_pipe'):
        # replay of the prover's counterexample C17_pipe_reinit_outer_conj_counterexample
        ch = tc.ChargeInfo([1], ['N'])
        l1 = tc.LegCharge.from_qflat(ch, [[0], [1], [2]])
        l2 = tc.LegCharge.from_qflat(ch, [[0], [2]])
        p = tc.LegPipe([l1, l2])
        q = p.outer_conj() if name == 'outer_conj_pipe' else p.apply_charge_mapping(LG.negate_charges(ch))
        A = npc.Array.from_func(np.ones, [l1, l2], labels=['a', 'b']).combine_legs([0, 1], pipes=[p])
        if name == 'outer_conj_pipe':
            A.legs[0] = q
        else:
            A = A.apply_charge_mapping(LG.negate_charges(ch))
        A.test_sanity()
        root = {'q': q, 'A': A} if case.get('with_array', True) else {'q': q}
    else:
        raise ValueError(name)
    rec = eval_object(root, name, case.get('fmt', 'blocks'), case)
    rec['nontrivial'] = True
    return rec
