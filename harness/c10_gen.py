"""C10 generator: random coupling models as JSON cases (every choice from the given PRNG)."""
import itertools
from fractions import Fraction

import numpy as np

from harness import ops_common as oc


def _site_dim(spec):
    c, kw = spec['cls'], spec['kw']
    if c == 'SpinHalfSite':
        return 2
    if c == 'SpinSite':
        return int(round(2 * kw['S'] + 1))
    if c == 'BosonSite':
        return kw['Nmax'] + 1
    if c == 'FermionSite':
        return 2
    if c == 'SpinHalfFermionSite':
        return 4
    raise ValueError(c)


def gen_lattice(rng, max_sites_finite=8, max_uc_infinite=4):
    infinite = rng.random() < 0.3
    cls = rng.choices(['Chain', 'Ladder', 'Square', 'Honeycomb'], [50, 18, 18, 14])[0]
    cap = max_uc_infinite if infinite else max_sites_finite
    if cls == 'Chain':
        Ls = [rng.randint(1 if infinite else 2, cap)]
        nu = 1
    elif cls == 'Ladder':
        Ls = [rng.randint(1 if infinite else 2, cap // 2)]
        nu = 2
    elif cls == 'Square':
        Ly = rng.randint(2, 3 if not infinite else 2)
        Ls = [rng.randint(1 if infinite else 2, max(1 if infinite else 2, cap // Ly)), Ly]
        nu = 1
    else:
        Ly = rng.randint(1, 2)
        Ls = [rng.randint(1, max(1, cap // (2 * Ly))), Ly]
        nu = 2
        if not infinite and Ls[0] * Ly * 2 < 2:
            Ls[0] = 1
    bc = []
    for a in range(len(Ls)):
        if a == 0:
            bc.append('periodic' if infinite or rng.random() < 0.15 else 'open')
        else:
            bc.append(rng.choice(['open', 'periodic']))
    lspec = {'cls': cls, 'Ls': Ls, 'bc_MPS': 'infinite' if infinite else 'finite', 'bc': bc}
    if len(Ls) == 2 and rng.random() < 0.3:
        lspec['order'] = rng.choice(['snake', 'Cstyle', 'Fstyle'])
    return lspec, nu


def gen_sites(rng, nu, n_sites, max_dim):
    pool = list(oc.SITE_POOL)
    for _ in range(50):
        if nu == 1 or rng.random() < 0.65:
            s = rng.choice(pool)
            specs = [s] * nu
            common = None
        else:
            specs = [rng.choice(pool) for _ in range(nu)]
            common = rng.choice(['same', 'independent', 'drop']) if any(
                (x['kw'].get('conserve') or x['kw'].get('cons_N')) for x in specs) else 'drop'
        D = 1
        per_uc = n_sites // nu
        for s in specs:
            D *= _site_dim(s) ** per_uc
        if D <= max_dim:
            return specs, common
    s = pool[0]
    return [s] * nu, None


def rand_array_strength(rng, shape, complex_):
    """nested-list strength whose shape divides `shape` (tiled by tenpy)"""
    sub = []
    for n in shape:
        divs = [d for d in range(1, n + 1) if n % d == 0]
        sub.append(rng.choice(divs))

    def build(dims):
        if not dims:
            s = oc.rand_strength(rng, complex_)
            if rng.random() < 0.15:
                s = [0, 0]
            return s
        return [build(dims[1:]) for _ in range(dims[0])]
    return build(sub)


def coupling_shape(Ls, bc, dxs):
    dim = len(Ls)
    shape = []
    for a in range(dim):
        box = max(d[a] for d in dxs) - min(d[a] for d in dxs)
        shape.append(Ls[a] - box * (1 if bc[a] == 'open' else 0))
    return shape


def gen_calls(rng, lat, lspec, quick, nn_only=False):
    """list of high-level calls valid for the lattice `lat` (a real tenpy lattice, used only to read
    sites / index maps; the PRNG decides everything)"""
    N = lat.N_sites
    dim = lat.dim
    nu = len(lat.unit_cell)
    Ls = list(lat.Ls)
    bc = lspec['bc']
    finite = lspec['bc_MPS'] == 'finite'
    mps_sites = lat.mps_sites()
    n_calls = rng.randint(1, 4 if quick else 6)
    calls = []
    kinds = ['add_onsite', 'add_coupling', 'add_coupling', 'add_coupling', 'add_multi_coupling', 'add_onsite_term',
             'add_coupling_term', 'add_multi_coupling_term', 'add_exp', 'add_exp']
    if finite:
        kinds.append('add_centered')
    if nn_only:
        # nearest-neighbour chain with fields: the bond <-> MPO conversions apply
        kinds = ['add_onsite', 'add_onsite', 'add_onsite_term', 'add_coupling', 'add_coupling', 'add_coupling_term']
        n_calls = rng.randint(2, 5)
    has_exp = False
    for _ in range(n_calls):
        f = rng.choice(kinds)
        cplx = rng.random() < 0.3
        ph = rng.random() < 0.4
        # a shared explicit category now and then: different kinds of terms end up in one container
        # (CouplingTerms converted to MultiCouplingTerms, add_coupling_term on a MultiCouplingTerms, ...)
        cat = rng.choice([None, None, None, 'c0', 'c1'])
        if f == 'add_onsite':
            u = rng.randrange(nu)
            site = lat.unit_cell[u]
            good = [o for o in oc.candidate_ops(site) if oc.neutral([(site, o)])]
            if not good:
                continue
            st = rand_array_strength(rng, Ls, cplx) if rng.random() < 0.4 else oc.rand_strength(rng, cplx)
            calls.append({'f': f, 'strength': st, 'u': u, 'op': rng.choice(good), 'plus_hc': ph, 'category': cat})
        elif f == 'add_coupling':
            u1, u2 = rng.randrange(nu), rng.randrange(nu)
            maxd = [min(2 if a == 0 else 1, Ls[a] if bc[a] == 'periodic' or not finite else Ls[a] - 1) for a in range(dim)]
            if dim == 1 and rng.random() < 0.2:
                maxd[0] = Ls[0] - 1 if (finite and bc[0] == 'open') else Ls[0] + 1
            dx = [rng.randint(-m, m) for m in maxd]
            if all(d == 0 for d in dx) and u1 == u2:
                dx[0] = 1
            if nn_only:
                dx = [rng.choice([1, 1, -1])]
            shape = coupling_shape(Ls, bc, [[0] * dim, dx])
            if any(s <= 0 for s in shape):
                continue
            ops = oc.pick_ops(rng, [lat.unit_cell[u1], lat.unit_cell[u2]])
            st = rand_array_strength(rng, shape, cplx) if rng.random() < 0.35 else oc.rand_strength(rng, cplx)
            # an explicit operator string (bosonic operators only; must exist on every site of the unit cell)
            ostr = None
            s1, s2 = lat.unit_cell[u1], lat.unit_cell[u2]
            if not s1.op_needs_JW(ops[0]) and not s2.op_needs_JW(ops[1]) and rng.random() < 0.25:
                cands = ['Id'] + [c for c in ('Sz', 'Sigmaz', 'N', 'JW')
                                  if all(c in s.opnames and oc.neutral([(s, c)]) and s.hc_ops.get(c) == c
                                         for s in lat.unit_cell)]
                ostr = rng.choice(cands)
            calls.append({'f': f, 'strength': st, 'u1': u1, 'op1': ops[0], 'u2': u2, 'op2': ops[1], 'dx': dx,
                          'op_string': ostr, 'plus_hc': ph, 'category': cat})
        elif f == 'add_multi_coupling':
            n_ops = rng.randint(3, 4)
            opsdx = []
            for _m in range(n_ops):
                dxm = [rng.randint(0, min(2, Ls[a] - 1 if (bc[a] == 'open' and (finite or a > 0)) else 2)) for a in range(dim)]
                opsdx.append((dxm, rng.randrange(nu)))
            if all(o == opsdx[0] for o in opsdx):
                opsdx[-1] = ([(opsdx[0][0][0] + 1)] + opsdx[0][0][1:], opsdx[0][1])
            shape = coupling_shape(Ls, bc, [o[0] for o in opsdx])
            if any(s <= 0 for s in shape):
                continue
            # operators acting on the same site are multiplied: avoid that here most of the time
            if len(set((tuple(d), u) for d, u in opsdx)) < n_ops and rng.random() < 0.7:
                continue
            sites = [lat.unit_cell[u] for _, u in opsdx]
            ops = oc.pick_ops(rng, sites)
            st = rand_array_strength(rng, shape, cplx) if rng.random() < 0.25 else oc.rand_strength(rng, cplx)
            calls.append({'f': f, 'strength': st, 'ops': [[o, d, u] for o, (d, u) in zip(ops, opsdx)],
                          'plus_hc': ph, 'switchLR': rng.choice(['middle_i', 'middle_op']), 'category': cat})
        elif f == 'add_onsite_term':
            i = rng.randrange(N)
            site = mps_sites[i]
            good = [o for o in oc.candidate_ops(site) if oc.neutral([(site, o)])]
            if not good:
                continue
            calls.append({'f': f, 'strength': oc.rand_strength(rng, cplx), 'i': i, 'op': rng.choice(good), 'plus_hc': ph})
        elif f == 'add_coupling_term':
            i = rng.randrange(N)
            jmax = N - 1 if finite else N + 2
            if i + 1 > jmax:
                continue
            j = rng.randint(i + 1, min(jmax, i + 3))
            if nn_only:
                j = i + 1
            ops = oc.pick_ops(rng, [mps_sites[i], mps_sites[j % N]])
            # bosonic operators with an explicit string; the string must exist on the sites between
            if any(mps_sites[k % N].op_needs_JW(o) for k, o in zip((i, j), ops)):
                continue
            between = [mps_sites[k % N] for k in range(i + 1, j)]
            strs = ['Id']
            for cand in ('Sz', 'N', 'JW'):
                # "op_string should be defined on all sites in the unit cell" (needed for its hc name)
                if between and all(cand in s.opnames and oc.neutral([(s, cand)]) for s in list(lat.unit_cell) + between):
                    strs.append(cand)
            calls.append({'f': f, 'strength': oc.rand_strength(rng, cplx), 'i': i, 'j': j, 'op_i': ops[0],
                          'op_j': ops[1], 'op_string': rng.choice(strs), 'plus_hc': ph, 'category': cat})
        elif f == 'add_multi_coupling_term':
            n_ops = rng.randint(2, 4)
            hi = N - 1 if finite else N + 2
            i0 = rng.randrange(N)
            cand = list(range(i0 + 1, hi + 1))
            if len(cand) < n_ops - 1:
                continue
            ijkl = [i0] + sorted(rng.sample(cand, n_ops - 1))
            sites = [mps_sites[k % N] for k in ijkl]
            ops = oc.pick_ops(rng, sites)
            if any(s.op_needs_JW(o) for s, o in zip(sites, ops)):
                continue
            sw = rng.choice(['middle_i', 'middle_op', rng.randint(ijkl[0], ijkl[-1])])
            calls.append({'f': f, 'strength': oc.rand_strength(rng, cplx), 'ijkl': ijkl, 'ops': ops,
                          'op_string': ['Id'] * (n_ops - 1), 'plus_hc': ph, 'switchLR': sw, 'category': cat})
        elif f == 'add_exp':
            u = rng.randrange(nu)
            subs = None
            subs_start = None
            if nu > 1 or rng.random() < 0.4:
                full = [int(x) for x in lat.mps_idx_fix_u(u)]
                if rng.random() < 0.5 and len(full) > 2:
                    full = sorted(rng.sample(full, rng.randint(2, len(full))))
                subs = full
                if rng.random() < 0.3:
                    pool = [int(x) for x in lat.mps_idx_fix_u(u)]
                    subs_start = sorted(rng.sample(pool, rng.randint(1, len(pool))))
            site = lat.unit_cell[u] if subs is not None else lat.unit_cell[0]
            if subs is None and nu > 1:
                continue
            ops = oc.pick_ops(rng, [site, site])
            lam_vals = [Fraction(1, 2), Fraction(1, 4), Fraction(3, 4), Fraction(-1, 2)]

            def one_lam():
                # decay factors may be complex (plus_hc has to conjugate them as well)
                im = rng.choice([Fraction(1, 2), Fraction(-1, 4), Fraction(1, 4)]) if rng.random() < 0.4 else 0
                return [oc.fr_str(rng.choice(lam_vals)), oc.fr_str(im)]
            if rng.random() < 0.3:
                lam = [one_lam() for _ in range(N)]
            else:
                lam = one_lam()
            calls.append({'f': f, 'strength': oc.rand_strength(rng, cplx), 'lambda': lam, 'op_i': ops[0], 'op_j': ops[1],
                          'subsites': subs, 'subsites_start': subs_start, 'op_string': None, 'plus_hc': ph})
            has_exp = True
        elif f == 'add_centered':
            u = rng.randrange(nu)
            subs = [int(x) for x in lat.mps_idx_fix_u(u)] if (nu > 1 or rng.random() < 0.4) else None
            site = lat.unit_cell[u] if subs is not None else lat.unit_cell[0]
            if subs is None and nu > 1:
                continue
            ops = oc.pick_ops(rng, [site, site])
            if site.op_needs_JW(ops[0]) or site.op_needs_JW(ops[1]):
                continue
            i = rng.choice(subs) if subs is not None else rng.randrange(N)
            lam = [oc.fr_str(rng.choice([Fraction(1, 2), Fraction(1, 4), Fraction(-1, 2)])),
                   oc.fr_str(rng.choice([Fraction(1, 2), Fraction(-1, 4)]) if rng.random() < 0.4 else 0)]
            calls.append({'f': f, 'strength': oc.rand_strength(rng, cplx), 'lambda': lam, 'op_i': ops[0], 'op_j': ops[1],
                          'i': i, 'subsites': subs, 'op_string': None, 'plus_hc': ph})
            has_exp = True
    return calls


def gen_shift_pair_case(rng, quick=True):
    """infinite chain (unit cell 1-3 sites) with multi-site terms of which two differ only by a shift of the operators right
    of the switch site by whole MPS unit cells (same left operators, same switch site / operator): the bookkeeping of
    MultiCouplingTerms (`_insert_connection`: "did we already get that exact term?") must keep them apart.  All three
    ways to choose the switch site (`'middle_i'`, `'middle_op'`, an explicit site), terms added through
    `add_multi_coupling_term`, `add_coupling_term` (two-site terms re-added into the merged MultiCouplingTerms) and
    `add_multi_coupling`; the window is long enough for every term that starts in the first unit cell."""
    from harness import c10_model as cm
    L = rng.choice([1, 1, 2, 2, 3])
    pool = [s for s in oc.SITE_POOL if s['cls'] in ('SpinHalfSite', 'BosonSite') and _site_dim(s) == 2]
    spec = rng.choice(pool)
    lspec = {'cls': 'Chain', 'Ls': [L], 'bc_MPS': 'infinite', 'bc': ['periodic']}
    case = {'kind': 'coupling', 'lattice': lspec, 'sites': [spec], 'common': None, 'window': 2,
            'explicit': rng.random() < 0.2, 'sort_mpo_legs': rng.random() < 0.2, 'calls': [], 'shift_pairs': True}
    lat = cm.build_lattice(case)
    site = lat.unit_cell[0]
    calls = []
    max_site = 0
    n_pairs = rng.choice([1, 1, 2])
    for _ in range(n_pairs):
        i0 = rng.randrange(L)
        n_left = rng.choice([1, 1, 2])
        n_right = rng.choice([1, 1, 2])
        left = [i0] + ([i0 + rng.randint(1, 2)] if n_left == 2 else [])
        gap = rng.randint(1, 3)
        r0 = left[-1] + gap
        right = [r0] + ([r0 + rng.randint(1, 2)] if n_right == 2 else [])
        n_shift = rng.choice([1, 1, 2])
        ijkl1 = left + right
        ijkl2 = left + [r + n_shift * L for r in right]
        if ijkl2[-1] > 8:
            continue
        for _try in range(6):
            ops = oc.pick_ops(rng, [site] * len(ijkl1))
            if 'Id' not in ops:
                break
        if any(site.op_needs_JW(o) for o in ops):
            continue
        sw = rng.choice(['middle_i', 'middle_op', rng.randint(left[-1], r0 - 1) if r0 - 1 >= left[-1] else left[-1]])
        cat = rng.choice([None, None, 'c0'])
        ph = rng.random() < 0.25
        how = rng.choice(['term', 'term', 'lattice']) if len(ijkl1) > 2 else rng.choice(['term', 'coupling_term', 'lattice'])
        for ijkl in (ijkl1, ijkl2):
            st = oc.rand_strength(rng, rng.random() < 0.3)
            if how == 'term':
                calls.append({'f': 'add_multi_coupling_term', 'strength': st, 'ijkl': ijkl, 'ops': ops,
                              'op_string': ['Id'] * (len(ijkl) - 1), 'plus_hc': ph, 'switchLR': sw, 'category': cat})
            elif how == 'coupling_term':
                calls.append({'f': 'add_coupling_term', 'strength': st, 'i': ijkl[0], 'j': ijkl[1], 'op_i': ops[0],
                              'op_j': ops[1], 'op_string': 'Id', 'plus_hc': ph, 'category': cat})
            else:
                # lattice version: translated over the unit cell, dx in units of the one-site lattice unit cell
                dxs = [[k - ijkl[0]] for k in ijkl]
                if len(ijkl) == 2:
                    calls.append({'f': 'add_coupling', 'strength': st, 'u1': 0, 'op1': ops[0], 'u2': 0, 'op2': ops[1],
                                  'dx': dxs[1], 'op_string': None, 'plus_hc': ph, 'category': cat})
                else:
                    calls.append({'f': 'add_multi_coupling', 'strength': st,
                                  'ops': [[o, d, 0] for o, d in zip(ops, dxs)], 'plus_hc': ph,
                                  'switchLR': sw if isinstance(sw, str) else 'middle_op', 'category': cat})
            reach = ijkl[-1] + (L - 1 if how == 'lattice' else 0)
            max_site = max(max_site, reach)
    if not calls:
        return None
    # a genuine multi-site term: the merged container is a MultiCouplingTerms in any case
    j0 = rng.randrange(L)
    ijkl = [j0, j0 + 1, j0 + 1 + rng.randint(1, 2)]
    ops = oc.pick_ops(rng, [site] * 3)
    if not any(site.op_needs_JW(o) for o in ops):
        calls.insert(rng.randrange(len(calls) + 1),
                     {'f': 'add_multi_coupling_term', 'strength': oc.rand_strength(rng, False), 'ijkl': ijkl, 'ops': ops,
                      'op_string': ['Id', 'Id'], 'plus_hc': False, 'switchLR': rng.choice(['middle_i', 'middle_op']),
                      'category': rng.choice([None, 'c0'])})
        max_site = max(max_site, ijkl[-1])
    if rng.random() < 0.5:
        good = [o for o in oc.candidate_ops(site) if oc.neutral([(site, o)])]
        if good:
            calls.append({'f': 'add_onsite', 'strength': oc.rand_strength(rng, False), 'u': 0, 'op': rng.choice(good),
                          'plus_hc': False, 'category': None})
    case['calls'] = calls
    window = -(-(max_site + 1) // L)
    while 2 ** (window * L) > (1100 if quick else 2100) and window > 1:
        window -= 1
    case['window'] = max(window, 2 if L > 1 else 3)
    if 2 ** (case['window'] * L) > 2100:
        case['window'] = max(1, 11 // L)
    return case


def gen_case(rng, quick=True):
    from harness import c10_model as cm
    if rng.random() < 0.1:
        try:
            case = gen_shift_pair_case(rng, quick)
        except Exception:  # noqa: BLE001
            case = None
        if case is not None:
            return case
    max_dim = 300 if quick else 1100
    # a fifth of the cases: nearest-neighbour chains with fields (uniform or site dependent), mostly infinite with unit cells
    # of 1-3 sites: the bond operators, the MPO rebuilt from them and the bond energies are representations as well
    nn_only = rng.random() < 0.2
    for _ in range(100):
        lspec, nu = gen_lattice(rng)
        if nn_only:
            inf = rng.random() < 0.75
            lspec, nu = {'cls': 'Chain', 'Ls': [rng.randint(1, 3) if inf else rng.randint(2, 6)],
                         'bc_MPS': 'infinite' if inf else 'finite', 'bc': ['periodic' if inf else 'open']}, 1
        n_sites = int(np.prod(lspec['Ls'])) * nu
        specs, common = gen_sites(rng, nu, n_sites if lspec['bc_MPS'] == 'finite' else n_sites * 2, max_dim)
        window = 1
        if lspec['bc_MPS'] != 'finite':
            d_uc = 1
            for sp_ in specs:
                d_uc *= _site_dim(sp_) ** (n_sites // nu)
            window = 3 if d_uc ** 3 <= max_dim else 2
        case = {'kind': 'coupling', 'lattice': lspec, 'sites': specs, 'common': common, 'window': window,
                'explicit': rng.random() < 0.3, 'sort_mpo_legs': rng.random() < 0.2, 'calls': []}
        try:
            lat = cm.build_lattice(case)
        except Exception:  # noqa: BLE001  (a lattice the classes do not accept, e.g. too small)
            continue
        if lat.N_sites < 2 and lspec['bc_MPS'] == 'finite':
            continue
        calls = gen_calls(rng, lat, lspec, quick, nn_only=nn_only)
        if nn_only:
            case['nn_only'] = True
        # a coupling that wraps around a periodic direction of length 1 onto its own site is rejected by
        # add_coupling_term ('need i < j'): not a valid input, drop such calls
        good = []
        for c in calls:
            if c['f'] == 'add_coupling':
                i, j, _, _ = lat.possible_couplings(c['u1'], c['u2'], np.array(c['dx']))
                if any(a == b for a, b in zip(i, j)):
                    continue
            if c['f'] == 'add_multi_coupling':
                ijkl = lat.possible_multi_couplings([(o, d, u) for o, d, u in c['ops']])[0]
                if len(ijkl) and any(len(set(r)) == 1 for r in np.asarray(ijkl)):
                    continue
            good.append(c)
        case['calls'] = good
        if case['calls']:
            return case
    raise RuntimeError('generator failed to produce a case')
