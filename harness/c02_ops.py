"""C02: executors of history steps on the REAL code.

prep(H, st) -> (model_line | None, run) ; run() performs the real call and returns
  dict(outs={model key -> tensor name}, touched={names whose structure may change}, qt={name: documented qtotal},
       dense={name: expected dense result}, scalar=bool)
The model line is built from dumps taken BEFORE the call. Steps carry concrete JSON-able arguments, so a recorded
history can be replayed verbatim.
"""
import numpy as np

from harness.c02_oracle import (dump_arr, dump_legS, struct_of, valid, index_charge, label_perm, legs_same,
                                legs_contractible)

FACT_OPS = ('svd', 'qr', 'lq', 'eigh', 'eig', 'expm', 'pinv')


class H:
    """state of one history"""

    def __init__(self, env, pool_legs, mods, io, npc, ch, cy):
        self.env, self.pool, self.mods0, self.io, self.npc, self.ch, self.cy = env, pool_legs, mods, io, npc, ch, cy
        self.n = 0
        self.plan = []        # step generators queued by a multi-step plan (harness/c02_stepgen.py)
        self.protect = {}     # names the running plan still needs
        self.inexact = False  # a factorization happened: entries are no longer small integers

    def fresh(self):
        self.n += 1
        return f't{self.n}'

    def S(self, name):
        return struct_of(dump_arr(self.env[name], self.io))


def ax_arg(a, axes, use_labels):
    """pass axes as labels when requested and possible (exercises get_leg_indices)"""
    if use_labels and all(a._labels[i] is not None for i in axes):
        return [a._labels[i] for i in axes]
    return list(axes)


def norm_ax(a, i):
    return i + a.rank if i < 0 else i


def nz_flags(a, cutoff=0.0):
    return [bool(np.linalg.norm(t) > cutoff) for t in a._data]


def mods_of(a):
    return [int(m) for m in a.chinfo.mod]


def qt_of(a):
    return [int(x) for x in a.qtotal]


def sub_q(mods, q, removed):
    tot = list(q)
    for c in removed:
        tot = [x - y for x, y in zip(tot, c)]
    return valid(mods, tot)


def make_leg_arg(Hh, spec):
    """spec: {'pool': i, 'conj': bool} or an explicit leg dict"""
    if 'pool' in spec:
        l = Hh.pool[spec['pool']]
        return l.conj() if spec.get('conj') else l
    return Hh.io.make_leg(spec)


def run_fact(Hh, st, a):
    """svd / qr / lq / eigh / eig / expm / pinv of the matrix `a` on the real code. No model: the returned tensors are
    put into the environment; the documented contract of the call (legs of the factors, contractible inner legs,
    qtotal of the factors, a = product of the factors for float64/complex128) is checked here with python ints."""
    npc, env = Hh.npc, Hh.env
    op = st['op']
    # integer matrices are converted first (np.linalg.qr returns float blocks, which qr() puts into an int64 Array:
    # meaningless input); eigh / eig get double precision (for single precision _eig_worker returns V with dtype
    # complex128 / float64 but complex64 / float32 blocks: upstream weakness, see notes/C02.md). Done here and not in
    # the generator because the dtype of a tensor without blocks depends on the kernel configuration (C04).
    if a.dtype.kind not in 'fc':
        a = a.astype(np.float64)
    elif op in ('eigh', 'eig') and a.dtype in (np.dtype('float32'), np.dtype('complex64')):
        a = a.astype(np.float64 if a.dtype.kind == 'f' else np.complex128)
    mods, q = mods_of(a), qt_of(a)
    zero = [0] * len(mods)
    leg0, leg1 = a.legs[0], a.legs[1]
    lab0, lab1 = a._labels[0], a._labels[1]
    labs = list(st.get('labels') or [None, None])
    iq = st.get('inner_qconj', 1)
    contract = []
    recon = None

    def want(cond, msg):
        if not cond:
            contract.append(msg)

    def vq(c):
        return valid(mods, [int(x) for x in c])

    ad = None
    if a.dtype in (np.dtype('float64'), np.dtype('complex128')) and int(np.prod(a.shape, dtype=np.int64)) <= 20000:
        ad = a.to_ndarray()

    def rec(x):
        nonlocal recon
        if ad is not None and x.shape == ad.shape:
            recon = (float(np.max(np.abs(x - ad), initial=0.0)), 1.e-6 * max(1.0, float(np.max(np.abs(ad), initial=0.0))))

    Hh.inexact = True
    # coverage: what kind of block list the factorization receives (evidence histogram, not part of the step)
    if not all(l.is_blocked() for l in a.legs):
        cov = 'legs-not-blocked(piped-inside)'
    elif len(a._data) < 2:
        cov = 'blocked,<2-blocks'
    else:
        rows = [tuple(int(x) for x in r)[::-1] for r in a._qdata]
        cov = 'blocked,rows-lexsorted' if rows == sorted(rows) else 'blocked,rows-NOT-lexsorted'
    if op == 'svd':
        qL, qR = st.get('qL'), st.get('qR')
        U, S, VH = npc.svd(a, cutoff=st.get('cutoff'), qtotal_LR=[qL, qR], inner_labels=labs, inner_qconj=iq)
        if qL is None and qR is None:
            eL, eR = zero, q
        elif qL is None:
            eR = vq(qR)
            eL = vq([x - y for x, y in zip(q, eR)])
        else:
            eL = vq(qL)
            eR = vq(qR) if qR is not None else vq([x - y for x, y in zip(q, eL)])
        outs, qts = [U, VH], [eL, eR]
        want(legs_same(U.legs[0], leg0), 'U.legs[0] is not a.legs[0]')
        want(legs_same(VH.legs[1], leg1), 'VH.legs[1] is not a.legs[1]')
        want(legs_contractible(U.legs[1], VH.legs[0]), 'U.legs[1] is not contractible with VH.legs[0]')
        want(int(VH.legs[0].qconj) == iq, f'VH.legs[0].qconj = {VH.legs[0].qconj}, inner_qconj = {iq}')
        want(len(S) == U.shape[1] == VH.shape[0], f'len(S) = {len(S)}, U {U.shape}, VH {VH.shape}')
        want(vq([x + y for x, y in zip(qt_of(U), qt_of(VH))]) == q, f'qtotal {qt_of(U)} + {qt_of(VH)} != {q}')
        want(U._labels == [lab0, labs[0]] and VH._labels == [labs[1], lab1], f'labels {U._labels}, {VH._labels}')
        if st.get('cutoff') is None or st['cutoff'] <= 1.e-6:
            rec((U.to_ndarray() * np.asarray(S)[np.newaxis, :]) @ VH.to_ndarray())
    elif op in ('qr', 'lq'):
        qQ = st.get('qQ')
        kw = dict(mode=st.get('mode', 'reduced'), inner_labels=labs, cutoff=st.get('cutoff'), qtotal_Q=qQ, inner_qconj=iq)
        eQ = vq(qQ) if qQ is not None else zero
        eR = vq([x - y for x, y in zip(q, eQ)])
        if op == 'qr':
            Q, R = npc.qr(a, pos_diag_R=st.get('pos_diag', False), **kw)
            outs, qts = [Q, R], [eQ, eR]
            X, Y = Q, R
            want(int(R.legs[0].qconj) == iq, f'R.legs[0].qconj = {R.legs[0].qconj}, inner_qconj = {iq}')
        else:
            L, Q = npc.lq(a, pos_diag_L=st.get('pos_diag', False), **kw)
            outs, qts = [L, Q], [eR, eQ]
            X, Y = L, Q
        want(legs_same(X.legs[0], leg0), f'{op}: first factor, legs[0] is not a.legs[0]')
        want(legs_same(Y.legs[1], leg1), f'{op}: second factor, legs[1] is not a.legs[1]')
        want(legs_contractible(X.legs[1], Y.legs[0]), f'{op}: inner legs are not contractible')
        want(vq([x + y for x, y in zip(qt_of(X), qt_of(Y))]) == q, f'qtotal {qt_of(X)} + {qt_of(Y)} != {q}')
        want(X._labels == [lab0, labs[0]] and Y._labels == [labs[1], lab1], f'labels {X._labels}, {Y._labels}')
        rec(X.to_ndarray() @ Y.to_ndarray())
    elif op in ('eigh', 'eig'):
        if op == 'eigh':
            W, V = npc.eigh(a, UPLO=st.get('UPLO', 'L'), sort=st.get('sort'))
        else:
            W, V = npc.eig(a, sort=st.get('sort'))
        outs, qts = [V], [zero]
        want(legs_same(V.legs[0], leg0), 'V.legs[0] is not a.legs[0]')
        want(len(W) == V.shape[1] == a.shape[0], f'len(W) = {len(W)}, V {V.shape}')
        want(V._labels == [lab0, 'eig'], f'labels {V._labels}')
    elif op == 'expm':
        E = npc.expm(a)
        outs, qts = [E], [zero]
        want(legs_same(E.legs[0], leg0) and legs_same(E.legs[1], leg1), 'legs of expm(a) are not the legs of a')
        want(E._labels == [lab0, lab1], f'labels {E._labels}')
    elif op == 'pinv':
        B = npc.pinv(a, cutoff=st.get('cutoff', 1.e-8))
        outs, qts = [B], [vq([-x for x in q])]
        want(legs_contractible(B.legs[0], leg1) and legs_contractible(B.legs[1], leg0),
             'legs of pinv(a) are not contractible with the legs of a')
    else:
        raise KeyError(op)
    names = [st['out'], st.get('out2')][:len(outs)]
    for n, t in zip(names, outs):
        env[n] = t
    return dict(outs={}, touched=set(names), qt=dict(zip(names, qts)), dense={}, contract=contract, recon=recon, cov=cov)


def prep(Hh, st):
    op = st['op']
    env, io, npc = Hh.env, Hh.io, Hh.npc
    a = env[st['a']] if 'a' in st else None
    A = Hh.S(st['a']) if 'a' in st else None
    b = env[st['b']] if 'b' in st else None
    B = Hh.S(st['b']) if 'b' in st else None
    out = st.get('out')

    def new(res, qt=None, key='res', extra_touched=(), dense=None):
        env[out] = res
        return dict(outs={key: out}, touched={out} | set(extra_touched), qt={out: qt} if qt is not None else {},
                    dense={out: dense} if dense is not None else {})

    def inplace(qt=None, extra=None, dense=None):
        outs = {'res': st['a']}
        touched = {st['a']}
        if extra:
            outs['b'] = extra
            touched.add(extra)
        return dict(outs=outs, touched=touched, qt={st['a']: qt} if qt is not None else {},
                    dense={st['a']: dense} if dense is not None else {})

    # ---------------------------------------------------------------- constructors / copies
    if op == 'copy':
        return dict(op='copy', a=A), lambda: new(a.copy(deep=st['deep']), qt_of(a))
    if op == 'zeros_like':
        return dict(op='zeros_like', a=A), lambda: new(a.zeros_like(), qt_of(a))
    if op == 'mk_like':   # new tensor on the legs of `a` (other blocks stored), optionally transposed with labels
        from harness.c02_gen import int_func
        legs = [dump_legS(l, io) for l in a.legs]

        def run():
            rs = np.random.RandomState(st['dseed'])
            t = npc.Array.from_func(int_func(rs, st['dtype']), a.legs, dtype=np.dtype(st['dtype']), qtotal=a.qtotal.copy(),
                                    labels=a._labels[:])
            env[out] = t
            return dict(outs={'res': out}, touched={out}, qt={out: qt_of(a)}, dense={})
        return dict(op='from_func', legs=legs, qtotal=qt_of(a)), run
    if op == 'from_ndarray':
        legs = [dump_legS(l, io) for l in a.legs]
        return dict(op='from_func', legs=legs, qtotal=qt_of(a)), lambda: new(
            npc.Array.from_ndarray(a.to_ndarray(), a.legs, dtype=a.dtype, qtotal=a.qtotal.copy(), labels=a._labels[:]),
            qt_of(a), dense=a.to_ndarray())
    if op == 'diag':
        leg = a.legs[st['axis']]
        return dict(op='diag', leg=dump_legS(leg, io)), lambda: new(npc.diag(st['s'], leg), [0] * len(mods_of(a)))
    if op == 'replace_label':
        return dict(op='copy', a=A), lambda: new(a.replace_label(st['old'], st['new']), qt_of(a))
    # ---------------------------------------------------------------- transposition
    if op in ('itranspose', 'transpose'):
        axes = st['axes']
        arg = None if axes is None else ax_arg(a, [norm_ax(a, i) for i in axes], st.get('lab')) \
            if all(-a.rank <= i < a.rank for i in axes) else list(axes)
        line = dict(op='itranspose', a=A, axes=axes)
        if op == 'itranspose':
            def run():
                a.itranspose(arg)
                return inplace(qt_of(a))
            return line, run
        return line, lambda: new(a.transpose(arg), qt_of(a))
    if op == 'iswapaxes':
        def run():
            a.iswapaxes(st['i'], st['j'])
            return inplace(qt_of(a))
        return dict(op='iswapaxes', a=A, i=st['i'], j=st['j']), run
    if op in ('conj', 'iconj'):
        q = valid(mods_of(a), [-x for x in qt_of(a)])
        if op == 'iconj':
            def run():
                a.iconj()
                return inplace(q)
            return dict(op='conj', a=A), run
        return dict(op='conj', a=A), lambda: new(a.conj(), q)
    # ---------------------------------------------------------------- slicing
    if op == 'take_slice':
        line = dict(op='take_slice', a=A, indices=st['indices'], axes=st['axes'])

        def run():
            removed = []
            for i, ax in zip(st['indices'], st['axes']):
                if -a.rank <= ax < a.rank and -a.shape[ax] <= i < a.shape[ax]:
                    removed.append(index_charge(a.legs[ax], i))
            q = sub_q(mods_of(a), qt_of(a), removed)
            dense = None
            return new(a.take_slice(st['indices'], ax_arg(a, [norm_ax(a, x) for x in st['axes']], st.get('lab'))
                                    if all(-a.rank <= x < a.rank for x in st['axes']) else st['axes']), q, dense=dense)
        return line, run
    if op == 'add_trivial_leg':
        return dict(op='add_trivial_leg', a=A, axis=st['axis'], qconj=st['qconj']), lambda: new(
            a.add_trivial_leg(st['axis'], st.get('label'), st['qconj']), qt_of(a))
    if op == 'add_leg':
        leg = make_leg_arg(Hh, st['leg'])
        line = dict(op='add_leg', a=A, leg=dump_legS(leg, io), i=st['i'], axis=st['axis'], nz=nz_flags(a))

        def run():
            q = None
            if -leg.ind_len <= st['i'] < leg.ind_len:
                q = valid(mods_of(a), [x + y for x, y in zip(qt_of(a), index_charge(leg, st['i']))])
            return new(a.add_leg(leg, st['i'], st['axis'], st.get('label')), q)
        return line, run
    if op == 'squeeze':
        line = dict(op='squeeze', a=A, axes=st['axes'])
        sq = st['axes'] if st['axes'] is not None else [i for i in range(a.rank) if a.shape[i] == 1]
        if any(-a.rank <= x < a.rank and a.legs[x].block_number > 1 for x in sq):
            st['tag'] = 'zero-size-block'   # a length-1 leg with several blocks (all but one of size 0)

        def run():
            axes = st['axes'] if st['axes'] is not None else [i for i in range(a.rank) if a.shape[i] == 1]
            removed = [index_charge(a.legs[ax], 0) for ax in axes if -a.rank <= ax < a.rank and a.shape[ax] == 1]
            q = sub_q(mods_of(a), qt_of(a), removed)
            res = a.squeeze(st['axes'])
            if not isinstance(res, npc.Array):
                return dict(outs={}, touched=set(), qt={}, dense={}, scalar=True)
            return new(res, q)
        return line, run
    # ---------------------------------------------------------------- rows / values
    if op == 'isort_qdata':
        def run():
            a.isort_qdata()
            return inplace(qt_of(a))
        return dict(op='isort_qdata', a=A), run
    if op == 'ipurge_zeros':
        cutoff = st.get('cutoff', 1.e-30)
        line = dict(op='ipurge_zeros', a=A, keep=nz_flags(a, cutoff))

        def run():
            a.ipurge_zeros(cutoff)
            return inplace(qt_of(a))
        return line, run
    if op in ('iscale_prefactor', 'mul'):
        p = st['p']
        line = dict(op='iscale_prefactor', a=A, zero=(p == 0))
        if op == 'mul':
            return line, lambda: new(a * p if st.get('left', True) else p * a, qt_of(a))

        def run():
            a.iscale_prefactor(p)
            return inplace(qt_of(a))
        return line, run
    if op == 'iscale_axis':
        def run():
            a.iscale_axis(np.array(st['s'], dtype=np.float64), st['axis'])
            return inplace(qt_of(a))
        return dict(op='copy', a=A), run
    if op == 'scale_axis':
        return dict(op='copy', a=A), lambda: new(a.scale_axis(np.array(st['s'], dtype=np.float64), st['axis']), qt_of(a))
    if op == 'iunary':
        def run():
            a.iunary_blockwise(np.negative)
            return inplace(qt_of(a))
        return dict(op='copy', a=A), run
    if op == 'unary':
        return dict(op='copy', a=A), lambda: new(a.unary_blockwise(np.conj) if st.get('f') == 'conj' else -a, qt_of(a))
    if op == 'astype':
        return dict(op='copy', a=A), lambda: new(a.astype(np.dtype(st['dtype']), copy=st.get('copy', True)), qt_of(a))
    if op == 'setitem':
        def run():
            a[tuple(st['idx'])] = st['x']
            return inplace(qt_of(a))
        return dict(op='setitem', a=A, idx=st['idx']), run
    # ---------------------------------------------------------------- legs
    if op == 'extend':
        extra = make_leg_arg(Hh, st['extra']) if isinstance(st['extra'], dict) else st['extra']
        if isinstance(extra, int):
            ax = st['axis']
            l = a.legs[ax] if -a.rank <= ax < a.rank else a.legs[0]
            ex_d = dict(mods=mods_of(a), slices=[0, extra], charges=[[0] * len(mods_of(a))], qconj=int(l.qconj),
                        sorted=True, bunched=True)
        else:
            ex_d = io.dump_leg(extra)
        return dict(op='extend', a=A, axis=st['axis'], extra=ex_d), lambda: new(a.extend(st['axis'], extra), qt_of(a))
    if op == 'iflip_leg':   # a.legs[k] = a.legs[k].flip_charges_qconj() / .outer_conj()  (pattern of networks/mpo.py)
        k = st['k']

        def run():
            l = a.legs[k]
            a.legs[k] = l.outer_conj() if hasattr(l, 'q_map') else l.flip_charges_qconj()
            return inplace(qt_of(a))
        return dict(op='flip_leg', a=A, k=k), run
    if op == 'gauge':
        line = dict(op='gauge', a=A, axis=st['axis'], newq=st['newq'], qconj=st['qconj'])
        q = valid(mods_of(a), st['newq']) if st['newq'] is not None else [0] * len(mods_of(a))
        return line, lambda: new(a.gauge_total_charge(st['axis'], st['newq'], st['qconj']), q)
    if op == 'iproject':
        line = dict(op='iproject', a=A, masks=st['masks'], axes=st['axes'])

        def run():
            masks = [np.array(m, dtype=bool) for m in st['masks']]
            if st.get('int_mask'):
                masks = [np.nonzero(m)[0] for m in masks]
            axes = st['axes']
            if len(axes) == 1 and st.get('single'):
                a.iproject(masks[0], axes[0])
            else:
                a.iproject(masks, ax_arg(a, [norm_ax(a, x) for x in axes], st.get('lab'))
                           if all(-a.rank <= x < a.rank for x in axes) else axes)
            return inplace(qt_of(a))
        return line, run
    if op == 'permute':
        return dict(op='permute', a=A, perm=st['perm'], axis=st['axis']), lambda: new(
            a.permute(st['perm'], st['axis']), qt_of(a))
    if op == 'add_charge':
        ci2 = Hh.ch.ChargeInfo([st['mod2']])
        k = st['col']
        add_legs = [Hh.ch.LegCharge.from_qind(ci2, l.slices, np.array(l.charges[:, k:k + 1]), l.qconj) for l in a.legs]
        q2 = [int(a.qtotal[k])] if st['mod2'] == mods_of(a)[k] else valid([st['mod2']], [int(a.qtotal[k])])
        line = dict(op='add_charge', a=A, legs=[io.dump_leg(l) for l in add_legs], q2=q2, nz=nz_flags(a))
        return line, lambda: new(a.add_charge(add_legs, qtotal=q2), qt_of(a) + q2)
    if op == 'drop_charge':
        k = st['k']
        line = dict(op='drop_charge', a=A, k=k, nz=nz_flags(a))
        q = [] if k is None else [x for i, x in enumerate(qt_of(a)) if i != k]
        return line, lambda: new(a.drop_charge(k), q)
    if op == 'change_charge':
        m2 = list(mods_of(a))
        if 0 <= st['k'] < len(m2):
            m2[st['k']] = st['mod']
        return dict(op='change_charge', a=A, k=st['k'], mod=st['mod']), lambda: new(
            a.change_charge(st['k'], st['mod']), valid(m2, qt_of(a)))
    if op == 'sort_legcharge':
        line = dict(op='sort_legcharge', a=A, sort=st['sort'], bunch=st['bunch'])

        def run():
            s, bn = st['sort'], st['bunch']
            if st.get('scalar_args'):
                s, bn = s[0], bn[0]
            perms, res = a.sort_legcharge(s, bn)
            dense = a.to_ndarray()[np.ix_(*perms)] if a.to_ndarray().size < 5000 else None
            return new(res, qt_of(a), dense=dense)
        return line, run
    # ---------------------------------------------------------------- binary
    if op in ('iadd', 'add', 'sub', 'isub_op', 'iadd_op'):
        p = {'add': 1.0, 'sub': -1.0, 'iadd_op': 1.0, 'isub_op': -1.0}.get(op, st.get('p'))
        perm = label_perm(a._labels, b._labels)
        line = dict(op='iadd', cy=Hh.cy, a=A, b=B, perm=perm, zero=(p == 0))
        st['tag'] = 'permuted-labels' if perm is not None else st.get('tag')

        def expect():
            blocks = list(a._data) + list(b._data)
            if any(np.shares_memory(x, y) for i, x in enumerate(blocks) for y in blocks[i + 1:]):
                return None   # aliased blocks (shallow copies, concatenate(copy=False)): values are C03's business
            bd = b.to_ndarray()
            if perm is not None:
                bd = bd.transpose(perm)
            ad = a.to_ndarray()
            return ad + p * bd if ad.shape == bd.shape else None

        def run():
            dense = expect()
            if op in ('add', 'sub'):
                res = a + b if op == 'add' else a - b
                r = new(res, qt_of(a), extra_touched=[st['b']], dense=dense)
                r['outs']['b'] = st['b']
                return r
            if op == 'iadd':
                a.iadd_prefactor_other(p, b)
            elif op == 'iadd_op':
                a.__iadd__(b)
            else:
                a.__isub__(b)
            return inplace(qt_of(a), extra=st['b'], dense=dense)
        return line, run
    if op in ('ibinary', 'binary'):
        perm = label_perm(a._labels, b._labels)
        line = dict(op='ibinary', a=A, b=B, perm=perm)
        st['tag'] = 'permuted-labels' if perm is not None else st.get('tag')
        f = np.add if st.get('f', 'add') == 'add' else np.subtract

        def run():
            bd = b.to_ndarray()
            if perm is not None:
                bd = bd.transpose(perm)
            ad = a.to_ndarray()
            dense = f(ad, bd) if ad.shape == bd.shape else None
            if op == 'binary':
                r = new(a.binary_blockwise(f, b), qt_of(a), extra_touched=[st['b']], dense=dense)
                r['outs']['b'] = st['b']
                return r
            a.ibinary_blockwise(f, b)
            return inplace(qt_of(a), extra=st['b'], dense=dense)
        return line, run
    # ---------------------------------------------------------------- pipes
    if op == 'combine':
        line = dict(op='combine', a=A, groups=st['groups'], new_axes=st['new_axes'], qconjs=st['qconjs'])

        def run():
            groups = [ax_arg(a, g, st.get('lab')) for g in st['groups']]
            qc = st['qconjs']
            kw = {}
            if any(q is not None for q in qc):
                kw['qconj'] = [q if q is not None else a.legs[g[0]].qconj for q, g in zip(qc, st['groups'])]
            if st['new_axes'] is not None:
                kw['new_axes'] = list(st['new_axes'])
            if len(groups) == 1 and st.get('flat'):
                groups = groups[0]
                if 'qconj' in kw:
                    kw['qconj'] = kw['qconj'][0]
                if 'new_axes' in kw:
                    kw['new_axes'] = kw['new_axes'][0]
            return new(a.combine_legs(groups, **kw), qt_of(a))
        return line, run
    if op == 'as_completely_blocked':
        enc = [i for i, l in enumerate(a.legs) if len({tuple(int(x) for x in c) for c in l.charges}) != l.block_number]
        if not enc:
            return dict(op='copy', a=A), lambda: new(a.as_completely_blocked()[1].copy(deep=False), qt_of(a))
        line = dict(op='combine', a=A, groups=[[i] for i in enc], new_axes=None, qconjs=[int(a.legs[i].qconj) for i in enc])
        return line, lambda: new(a.as_completely_blocked()[1], qt_of(a))
    if op == 'split':
        line = dict(op='split', a=A, axes=st['axes'])
        return line, lambda: new(a.split_legs(st['axes']), qt_of(a))
    # ---------------------------------------------------------------- several arrays
    if op == 'concatenate':
        arrs = [env[n] for n in st['arrs']]
        line = dict(op='concatenate', arrs=[Hh.S(n) for n in st['arrs']], axis=st['axis'])

        def run():
            dense = None
            try:
                dense = np.concatenate([x.to_ndarray() for x in arrs], axis=st['axis'])
            except Exception:
                pass
            return new(npc.concatenate(arrs, st['axis'], copy=st.get('copy', True)), qt_of(arrs[0]), dense=dense)
        return line, run
    if op == 'outer':
        q = valid(mods_of(a), [x + y for x, y in zip(qt_of(a), qt_of(b))]) if mods_of(a) == mods_of(b) else None
        return dict(op='outer', a=A, b=B), lambda: new(npc.outer(a, b), q)
    if op == 'tensordot':
        axes = st['axes']
        line = dict(op='tensordot', cy=Hh.cy, a=A, b=B, axes=axes)
        q = valid(mods_of(a), [x + y for x, y in zip(qt_of(a), qt_of(b))]) if mods_of(a) == mods_of(b) else None

        def run():
            if isinstance(axes, int):
                arg = axes
                dn = axes
            else:
                arg = (ax_arg(a, axes[0], st.get('lab')), ax_arg(b, axes[1], st.get('lab')))
                dn = (axes[0], axes[1])
            dense = None
            try:
                dense = np.tensordot(a.to_ndarray(), b.to_ndarray(), axes=dn)
            except Exception:
                pass
            res = npc.tensordot(a, b, axes=arg)
            if not isinstance(res, npc.Array):
                return dict(outs={}, touched=set(), qt={}, dense={}, scalar=True)
            return new(res, q, dense=dense)
        return line, run
    if op == 'trace':
        line = dict(op='trace', a=A, l1=st['l1'], l2=st['l2'])

        def run():
            res = npc.trace(a, st['l1'], st['l2'])
            if not isinstance(res, npc.Array):
                return dict(outs={}, touched=set(), qt={}, dense={}, scalar=True)
            return new(res, qt_of(a), dense=np.trace(a.to_ndarray(), axis1=norm_ax(a, st['l1']), axis2=norm_ax(a, st['l2'])))
        return line, run
    # ---------------------------------------------------------------- factorizations: oracle-only (no model line);
    # the factors enter the environment like generated operands: every later step takes their REAL structure as
    # its input, the model-free oracle inspects them after this and every later step
    if op in FACT_OPS:
        return None, lambda: run_fact(Hh, st, a)
    # ---------------------------------------------------------------- oracle-only operations (no model)
    if op == 'inner':
        def run():
            npc.inner(a, b, axes='range', do_conj=st['do_conj'])
            return dict(outs={}, touched=set(), qt={}, dense={}, scalar=True)
        return None, run
    if op == 'getitem':
        def run():
            inds = tuple(slice(*i['s']) if isinstance(i, dict) and 's' in i else
                         np.array(i['m'], dtype=bool) if isinstance(i, dict) and 'm' in i else
                         np.array(i['i'], dtype=np.intp) if isinstance(i, dict) else i for i in st['inds'])
            res = a[inds]
            if not isinstance(res, npc.Array):
                return dict(outs={}, touched=set(), qt={}, dense={}, scalar=True)
            env[out] = res
            dn = a.to_ndarray()[np.ix_(*[np.arange(s)[i] if not isinstance(i, (int, np.integer)) else [i]
                                         for s, i in zip(a.shape, inds)])]
            dn = dn.reshape([s for s, i in zip(dn.shape, inds) if not isinstance(i, (int, np.integer))])
            return dict(outs={}, touched={out}, qt={}, dense={out: dn})
        return None, run
    if op == 'setitem_npc':
        def run():
            inds = tuple(slice(*i['s']) if isinstance(i, dict) else i for i in st['inds'])
            dense = a.to_ndarray().copy()
            dense[inds] = b.to_ndarray()
            blocks = list(a._data) + list(b._data)
            if any(np.shares_memory(x, y) for i, x in enumerate(blocks) for y in blocks[i + 1:]):
                dense = None   # aliased blocks (shallow copies, concatenate(copy=False)): values are C03's business
            a[inds] = b
            return dict(outs={}, touched={st['a']}, qt={st['a']: qt_of(a)}, dense={st['a']: dense})
        return None, run
    from harness import c02_cover   # coverage-round operations
    return c02_cover.prep(Hh, st)
