"""C06 case generators of the coverage round (pure data, no tenpy import): pipes with nested legs and charge
mappings, constructor/conversion cases (kind 'conv'), Array reshaping programs (kind 'arr').

A leg description is a npcgen leg dict, or {"pipe": {"legs": [descriptions], "qconj", "sort", "bunch"}} for a
LegPipe used as an incoming leg."""
from vlib import npcgen


def desc_len(d):
    if 'pipe' in d:
        n = 1
        for x in d['pipe']['legs']:
            n *= desc_len(x)
        return n
    return npcgen.leg_len(d)


def desc_nontrivial(d):
    if 'pipe' in d:
        return any(desc_nontrivial(x) for x in d['pipe']['legs'])
    return npcgen.leg_nontrivial(d)


def desc_mods(d):
    return desc_mods(d['pipe']['legs'][0]) if 'pipe' in d else d['mods']


def case_legs(case):
    if case['k'] in ('leg', 'conv'):
        return [case['leg']]
    return case['legs']


def case_nontrivial(case):
    return any(desc_nontrivial(l) for l in case_legs(case))


def histogram_keys(case):
    keys = ['ncharges=%d' % len(desc_mods(case_legs(case)[0]))]
    if case['k'] == 'pipe':
        keys += ['nlegs=%d' % len(case['legs']), 'sort=%s,bunch=%s' % (case['sort'], case['bunch']),
                 'nested=%s' % any('pipe' in l for l in case['legs'])]
    if case['k'] in ('pipe', 'conv'):
        keys.append('chinfo=%s' % ('dipolar' if case.get('dip') else 'plain'))
    if case['k'] == 'arr':
        keys += ['rank=%d' % len(case['legs']), 'dtype=' + case['dtype'], 'prog_len=%d' % len(case['prog'])]
        for op in case['prog']:
            keys.append('op=' + op['op'])
            if op['op'] == 'combine':
                keys.append('combine.groups=%d%s' % (len(op['groups']), ',single' if op['single'] else ''))
                keys.append('combine.new_axes=' + ('default' if op['new_axes'] is None else
                                                   'int' if isinstance(op['new_axes'], int) else
                                                   'negative' if any(x < 0 for x in op['new_axes']) else 'list'))
                keys.append('combine.pipes=' + ('none' if all(p is None for p in op['pipes']) else 'given'))
            if op['op'] == 'split':
                keys.append('split.axes=' + ('None' if op['axes'] is None else 'given'))
    return keys


# ------------------------------------------------------------------------------------------------ helpers

def gen_dip(rng, mods):
    """mods (possibly adjusted) and a DipolarChargeInfo spec, or None. Needs >= 2 charges."""
    mods = list(mods)
    if len(mods) < 2 or rng.random() < 0.45:
        return mods, None
    c, d = rng.sample(range(len(mods)), 2)
    # qmod of the dipole must describe a subgroup of the charge's group
    if mods[c] != 1:
        divs = [k for k in range(2, mods[c] + 1) if mods[c] % k == 0]
        mods[d] = rng.choice(divs)
    dim = 1 if (mods[d] != 1 and rng.random() < 0.4) else 0
    return mods, dict(c=[c], d=[d], dims=[dim])


def gen_dx(rng, dip):
    n = 2 if not dip or dip['dims'][0] == 0 else 3
    dx = [rng.randint(-2, 3) for _ in range(n)]
    dx[-1] = rng.choice([1, -2]) if rng.random() < 0.12 else 0
    return dx


def leg_with_len(rng, mods, n, qconj):
    """a leg description of total length n (>= 1 block unless n == 0 and a coin says so)"""
    sizes = []
    rest = n
    while rest > 0:
        s = rng.randint(1, min(3, rest))
        sizes.append(s)
        rest -= s
    if n == 0:
        sizes = [0] if rng.random() < 0.7 else []
    elif rng.random() < 0.05:
        sizes.insert(rng.randrange(len(sizes) + 1), 0)
    slices = [0]
    for s in sizes:
        slices.append(slices[-1] + s)
    pool = [npcgen.gen_charge(rng, mods) for _ in range(3)]
    return dict(mods=list(mods), slices=slices, charges=[list(rng.choice(pool)) for _ in sizes], qconj=qconj,
                ctor=rng.choice(['init', 'qind']))


def retag(leg, mods):
    return dict(leg, mods=list(mods), charges=[npcgen.valid(mods, c) for c in leg['charges']])


# ------------------------------------------------------------------------------------------------ kind 'pipe'

def gen_pipe_case(rng, seed):
    mods, dip = gen_dip(rng, npcgen.gen_mods(rng))
    nl = rng.choices([1, 2, 3, 4], weights=[2, 5, 3, 1])[0]
    legs = [npcgen.gen_leg(rng, mods, max_blocks=4 if nl < 3 else 3, max_size=3 if nl < 4 else 2,
                           allow_empty=rng.random() < 0.15) for _ in range(nl)]
    if rng.random() < 0.25:  # a pipe as incoming leg
        sub = [npcgen.gen_leg(rng, mods, max_blocks=2, max_size=2, allow_empty=False) for _ in range(rng.choice([1, 2, 2]))]
        legs[rng.randrange(nl)] = dict(pipe=dict(legs=sub, qconj=rng.choice([1, -1]), sort=rng.random() < 0.7,
                                                 bunch=rng.random() < 0.7))
    shape = [desc_len(l) for l in legs]
    idx = []
    for _ in range(6):
        idx.append([rng.randint(-s - 1, s) if rng.random() < 0.15 else rng.randrange(s) if s else 0 for s in shape])
    idx.append([0] * (nl + rng.choice([-1, 1])))  # wrong number of indices
    case = dict(k='pipe', legs=legs, qconj=rng.choice([1, -1]), sort=rng.random() < 0.7, bunch=rng.random() < 0.7,
                idx=idx, seed=seed)
    n = 1
    for s in shape:
        n *= s
    if n <= 400:
        case['psb'] = rng.random() < 0.5
        case['pmask'] = [rng.random() < 0.6 for _ in range(n)]
    if dip or rng.random() < 0.2:
        case['dx'] = gen_dx(rng, dip)
        if dip:
            case['dip'] = dip
    return case


# ------------------------------------------------------------------------------------------------ kind 'conv'

def gen_conv_case(rng):
    mods, dip = gen_dip(rng, npcgen.gen_mods(rng))
    qn = len(mods)
    leg = npcgen.gen_leg(rng, mods)
    n = npcgen.leg_len(leg)
    named = rng.random() < 0.6
    names = ['q%d' % i for i in range(qn)] if named else [('' if rng.random() < 0.5 else 'n%d' % i) for i in range(qn)]
    # a leg to compare with: equal, equal in the flipped representation, or different
    how = rng.choice(['same', 'flip', 'charge', 'slices', 'conj', 'random'])
    other = dict(leg, ctor='qind')
    if how == 'flip':
        other = dict(other, qconj=-leg['qconj'], charges=[npcgen.valid(mods, [-x for x in c]) for c in leg['charges']])
    elif how == 'charge' and leg['charges'] and qn:
        chs = [list(c) for c in leg['charges']]
        i = rng.randrange(len(chs))
        chs[i] = npcgen.valid(mods, [x + rng.choice([0, 1]) for x in chs[i]])
        other = dict(other, charges=chs)
    elif how == 'slices':
        other = leg_with_len(rng, mods, n, leg['qconj'])
    elif how == 'conj':
        other = dict(other, qconj=-leg['qconj'])
    elif how == 'random':
        other = npcgen.gen_leg(rng, mods)
    mods2 = rng.choice([mods, mods + [2], [m + 1 for m in mods], mods[:-1]])
    other2 = retag(leg, mods2) if len(mods2) == qn else npcgen.gen_leg(rng, mods2)
    adds = []
    for _ in range(rng.choice([0, 1, 1, 2])):
        r = rng.random()
        adds.append(leg_with_len(rng, npcgen.gen_mods(rng, 2), n + (1 if r < 0.05 else 0),
                                 -leg['qconj'] if 0.05 <= r < 0.1 else leg['qconj']))
    drop = None if rng.random() < 0.15 else rng.randrange(qn + 1) if rng.random() < 0.06 or qn == 0 else rng.randrange(qn)
    change = [rng.randrange(qn) if qn and rng.random() < 0.95 else qn, rng.choice([1, 1, 2, 3, 4, 5])]
    physb = [npcgen.valid(mods, [x * leg['qconj'] for x in c]) for c in leg['charges']]
    goc = []
    for _ in range(3):
        if physb and rng.random() < 0.7:
            c = list(rng.choice(physb))
            if rng.random() < 0.3:  # another representative of the same class
                c = [x + m * rng.choice([-1, 1]) if m != 1 else x for x, m in zip(c, mods)]
        else:
            c = npcgen.gen_charge(rng, mods)
        goc.append(c)
    nrows = rng.randint(0, 4)
    qrows = [npcgen.gen_charge(rng, mods) for _ in range(nrows)]
    flat1d = qn == 1 and rng.random() < 0.3
    if not flat1d and nrows and rng.random() < 0.06:
        qrows = [r + [0] for r in qrows]
    # constructor arguments, valid or broken in exactly one way
    raw = dict(slices=list(leg['slices']), charges=[list(c) for c in leg['charges']], qconj=leg['qconj'])
    if rng.random() < 0.55:
        what = rng.choice(['short', 'long', 'start', 'range', 'qconj', 'width'])
        if what == 'short' and len(raw['slices']) > 1:
            raw['slices'] = raw['slices'][:-1]
        elif what == 'long':
            raw['slices'] = raw['slices'] + [raw['slices'][-1] + 1]
        elif what == 'start':
            raw['slices'] = [1] + raw['slices'][1:]
        elif what == 'range' and raw['charges'] and any(m != 1 for m in mods):
            j = rng.choice([i for i, m in enumerate(mods) if m != 1])
            raw['charges'][rng.randrange(len(raw['charges']))][j] = rng.choice([mods[j], -1])
        elif what == 'qconj':
            raw['qconj'] = rng.choice([0, 2, -2])
        elif what == 'width' and raw['charges']:
            raw['charges'] = [c + [0] for c in raw['charges']]
    # flat permutations: a block permutation, a random one, the identity
    blocks = [list(range(b, e)) for b, e in zip(leg['slices'][:-1], leg['slices'][1:])]
    rng.shuffle(blocks)
    p_rand = list(range(n))
    rng.shuffle(p_rand)
    pflat = [sum(blocks, []), p_rand, list(range(n))]
    case = dict(k='conv', leg=leg, names=names, by_name=named and rng.random() < 0.5, pass_ci=rng.random() < 0.4,
                other=other, other2=other2, adds=adds, drop=drop, change=change, goc=goc, ext_n=rng.randint(0, 3),
                trivial=dict(n=rng.randint(0, 4), ci=rng.random() < 0.6, qconj=rng.choice([1, -1])),
                qflat=dict(rows=qrows, flat1d=flat1d, qconj=rng.choice([1, -1])),
                qd_perm=rng.sample(range(5), 5), qd_gap=rng.random() < 0.1, raw=raw, pflat=pflat,
                dx=gen_dx(rng, dip))
    if dip:
        case['dip'] = dip
    return case


# ------------------------------------------------------------------------------------------------ kind 'arr'

BAD = ['pipes_len', 'qconj_len', 'pipe_nlegs', 'dup_leg', 'new_axes_len', 'new_axes_big', 'split_nonpipe',
       'split_twice', 'pipe_other_legs', 'sort_len', 'map_flat_len']


def ref_of(rng, state, ax, allow_neg=True):
    """refer to axis `ax` by label, by index or by negative index"""
    lab = state[ax]['label']
    r = rng.random()
    if lab is not None and r < 0.4:
        return lab
    if allow_neg and r > 0.85:
        return ax - len(state)
    return ax


def gen_combine(rng, state):
    rank = len(state)
    ng = min(rng.choices([1, 2, 3], weights=[5, 4, 1])[0], rank)
    axes = list(range(rank))
    rng.shuffle(axes)
    groups = []
    for g in range(ng):
        room = len(axes) - (ng - g - 1)
        size = min(rng.choices([1, 2, 3], weights=[2, 5, 2])[0], room)
        groups.append([axes.pop() for _ in range(size)])
    if rng.random() < 0.3:  # contiguous ascending groups: no transposition needed
        groups = [sorted(g) for g in groups]
    spect = [x for x in range(rank) if not any(x in g for g in groups)]
    new_rank = len(spect) + ng
    single = ng == 1 and rng.random() < 0.6
    if rng.random() < 0.5:
        new_axes, na = None, None
    else:
        na = rng.sample(range(new_rank), ng)
        new_axes = [x - new_rank if rng.random() < 0.3 else x for x in na]
        if single and rng.random() < 0.5:
            new_axes = new_axes[0]
    if na is None:
        firsts = [g[0] for g in groups]
        na = [sum(s < f for s in spect) + sum(f2 < f for f2 in firsts) for f in firsts]
    r = rng.random()
    if single:
        qconj = None if r < 0.4 else rng.choice([1, -1])
    else:
        qconj = None if r < 0.4 else rng.choice([1, -1]) if r < 0.65 else [rng.choice([1, -1, None]) for _ in groups]
    pipes = [None if rng.random() < 0.65 else dict(qconj=rng.choice([1, -1]), sort=rng.random() < 0.6, bunch=rng.random() < 0.6,
                                                  conj=rng.random() < 0.3) for _ in groups]
    labs = [s['label'] if s['label'] is not None else '?' + str(i) for i, s in enumerate(state)]
    new_state = [state[x] for x in spect]
    for j in sorted(range(ng), key=lambda j: na[j]):
        new_state.insert(na[j], dict(label='(' + '.'.join(labs[x] for x in groups[j]) + ')', kind='pipe',
                                     ch=[state[x] for x in groups[j]]))
    op = dict(op='combine', groups=[[ref_of(rng, state, x) for x in g] for g in groups], single=single, new_axes=new_axes,
              qconj=qconj, pipes=pipes)
    if not single and new_axes is not None and all(x >= 0 for x in new_axes) and rng.random() < 0.3:
        op['axes_tuple'] = True
    return op, new_state


def gen_split(rng, state):
    pipes = [i for i, s in enumerate(state) if s['kind'] == 'pipe']
    if rng.random() < 0.4:
        axes, chosen = None, pipes
    else:
        chosen = sorted(rng.sample(pipes, rng.randint(1, len(pipes))))
        axes = [ref_of(rng, state, x) for x in chosen]
        rng.shuffle(axes)
        if len(axes) == 1 and rng.random() < 0.4:
            axes = axes[0]
    new_state = []
    for i, s in enumerate(state):
        if i in chosen:
            new_state.extend(s['ch'])
        else:
            new_state.append(s)
    op = dict(op='split', axes=axes)
    if rng.random() < 0.2:
        op['cutoff'] = rng.choice([0.5, 2.5])
    return op, new_state


def gen_sortleg(rng, state):
    rank = len(state)
    sort = rng.random() < 0.7 if rng.random() < 0.5 else [rng.random() < 0.5 for _ in range(rank)]
    bunch = rng.random() < 0.7 if rng.random() < 0.5 else [rng.random() < 0.5 for _ in range(rank)]
    sl = sort if isinstance(sort, list) else [sort] * rank
    bl = bunch if isinstance(bunch, list) else [bunch] * rank
    new_state = [dict(label=s['label'], kind='opaque') if (a or b) else s for s, a, b in zip(state, sl, bl)]
    return dict(op='sortleg', sort=sort, bunch=bunch), new_state


def gen_arr_case(rng, seed):
    mods = npcgen.gen_mods(rng)
    while True:
        rank = rng.choices([2, 3, 4, 5, 6, 7], weights=[4, 8, 8, 5, 3, 2])[0]
        one_block = rng.random() < 0.15  # e.g. tensors without symmetry: one block per leg, one stored block
        legs = []
        for _ in range(rank):
            if one_block:
                mb, ms = 1, 3 if rank <= 4 else 2
            elif rank <= 4:
                mb, ms = 3, 3 if rank <= 3 else 2
            else:  # high rank: few blocks, but not all of them of size 1 (block shapes matter for the copy kernels)
                mb, ms = rng.choice([(2, 1), (1, 3), (2, 2), (1, 2)])
            legs.append(npcgen.gen_leg(rng, mods, max_blocks=mb, max_size=ms, allow_empty=False))
        n = 1
        for l in legs:
            n *= npcgen.leg_len(l)
        if n <= 800:
            break
    letters = rng.sample('abcdefgh', rank)
    labels = [None if rng.random() < 0.2 else x for x in letters]
    state = [dict(label=lab, kind='leaf') for lab in labels]
    prog = []
    for step in range(rng.choices([1, 2, 3, 4, 5], weights=[2, 4, 4, 2, 1])[0]):
        pipes = [i for i, s in enumerate(state) if s['kind'] == 'pipe']
        r = rng.random()
        if step == 0:
            kind = 'combine' if r < 0.75 else 'sortleg' if r < 0.85 else 'blocked' if r < 0.9 else 'make_pipe' if r < 0.95 else 'bad'
        elif pipes:
            kind = 'split' if r < 0.45 else 'combine' if r < 0.7 else 'sortleg' if r < 0.8 else 'blocked' if r < 0.85 \
                else 'make_pipe' if r < 0.9 else 'bad'
        else:
            kind = 'combine' if r < 0.6 else 'sortleg' if r < 0.75 else 'blocked' if r < 0.85 else 'make_pipe' if r < 0.92 else 'bad'
        if kind == 'combine':
            op, state = gen_combine(rng, state)
        elif kind == 'split':
            op, state = gen_split(rng, state)
        elif kind == 'sortleg':
            op, state = gen_sortleg(rng, state)
        elif kind == 'make_pipe':
            axes = rng.sample(range(len(state)), min(len(state), rng.choice([1, 2, 2, 3])))
            op = dict(op='make_pipe', axes=[ref_of(rng, state, x) for x in axes],
                      qconj=rng.choice([None, 1, -1]), sort=rng.choice([None, True, False]), bunch=rng.choice([None, True, False]))
        elif kind == 'bad':
            op = dict(op='bad', what=rng.choice(BAD))
        else:
            # which legs get encapsulated depends on the charges: finish with an (optional) split of everything
            prog.append(dict(op='blocked'))
            if rng.random() < 0.7:
                prog.append(dict(op='split', axes=None))
            break
        prog.append(op)
    return dict(k='arr', legs=legs, labels=labels, dtype=rng.choices(['f', 'c', 'i'], weights=[5, 3, 1])[0],
                qt=[rng.randrange(npcgen.leg_len(l)) for l in legs] if rng.random() < 0.92 else None,
                keep=[False] * 5 if rng.random() < 0.03 else [rng.random() < 0.85 for _ in range(5)] if rng.random() < 0.85
                else [i == 0 for i in range(rng.choice([3, 7, 50]))],
                seed=seed, prog=prog)


# ------------------------------------------------------------------------------------------------ corpus

_U1 = dict(mods=[1], slices=[0, 2, 5, 6], charges=[[1], [0], [1]], qconj=1, ctor='qind')
_L2 = dict(mods=[1], slices=[0, 1, 3], charges=[[2], [0]], qconj=1, ctor='qind')


def _conv(leg, **kw):
    qn = len(leg['mods'])
    n = leg['slices'][-1]
    case = dict(k='conv', leg=leg, names=['q%d' % i for i in range(qn)], by_name=False, pass_ci=False,
                other=dict(leg), other2=dict(leg), adds=[], drop=0 if qn else None, change=[0, 2], goc=[], ext_n=1,
                trivial=dict(n=2, ci=True, qconj=1), qflat=dict(rows=[], flat1d=False, qconj=1),
                qd_perm=[0, 1, 2, 3, 4], qd_gap=False,
                raw=dict(slices=list(leg['slices']), charges=[list(c) for c in leg['charges']], qconj=leg['qconj']),
                pflat=[list(range(n))], dx=[0, 0])
    case.update(kw)
    return case


CORPUS = [
    # from_qdict of a blocked leg whose blocks are not in charge order: `sorted = True` is set unconditionally
    _conv(_L2),
    # from_drop_charge with the charge given by name: looked up in the ChargeInfo it was just removed from
    _conv(dict(mods=[1, 3], slices=[0, 2, 5, 6], charges=[[1, 0], [0, 2], [1, 1]], qconj=1, ctor='qind'), by_name=True, drop=0),
    # perm_qind_from_perm_flat with a block larger than 1 (block permutation [0, 2, 1])
    _conv(_U1, pflat=[[0, 1, 5, 2, 3, 4], [0, 1, 2, 3, 4, 5]]),
    # charge_sectors of a leg without charges whose `sorted` flag is not set (np.lexsort of zero keys)
    _conv(dict(mods=[], slices=[0, 1, 3], charges=[[], []], qconj=1, ctor='init')),
    # from_qdict(to_qdict()) of a leg without charges (reshape((-1, 0)))
    _conv(dict(mods=[], slices=[0, 3], charges=[[]], qconj=-1, ctor='init')),
    # combine_legs with new_axes given as a tuple holding a negative entry / as a list (mutated in place)
    dict(k='arr', legs=[_U1, dict(_U1, qconj=-1), _L2, dict(_L2, qconj=-1)], labels=['a', 'b', 'c', 'd'], dtype='f', qt=None,
         keep=[True], seed=0,
         prog=[dict(op='combine', groups=[[0, 1], [2, 3]], single=False, new_axes=[-1, 0], qconj=None, pipes=[None, None],
                    axes_tuple=True)]),
    dict(k='arr', legs=[_U1, dict(_U1, qconj=-1), _L2, dict(_L2, qconj=-1)], labels=['a', 'b', 'c', 'd'], dtype='f', qt=None,
         keep=[True], seed=0,
         prog=[dict(op='combine', groups=[[0, 1], [2, 3]], single=False, new_axes=[-1, 0], qconj=None, pipes=[None, None])]),
    # sort_legcharge with a permutation for one leg (documented form of `sort`)
    dict(k='arr', legs=[_U1, dict(_U1, qconj=-1)], labels=['a', 'b'], dtype='f', qt=None, keep=[True], seed=1,
         prog=[dict(op='sortleg', sort=[[1, 0, 2], False], bunch=False)]),
    # sort_legcharge with nothing to sort or bunch
    dict(k='arr', legs=[_U1, dict(_U1, qconj=-1)], labels=['a', None], dtype='i', qt=None, keep=[True], seed=3,
         prog=[dict(op='sortleg', sort=False, bunch=[False, False])]),
    # the '?#' placeholder label of an unlabelled leg collides with the label of an earlier pipe of unlabelled legs
    dict(k='arr', legs=[dict(mods=[2], slices=[0, 2, 3], charges=[[1], [1]], qconj=-1, ctor='init'),
                        dict(mods=[2], slices=[0, 1], charges=[[0]], qconj=1, ctor='qind'),
                        dict(mods=[2], slices=[0, 1, 3], charges=[[0], [0]], qconj=-1, ctor='init')],
         labels=[None, None, None], dtype='f', qt=[2, 0, 0], keep=[True], seed=4,
         prog=[dict(op='combine', groups=[[1]], single=True, new_axes=[0], qconj=1, pipes=[None]),
               dict(op='combine', groups=[[1], [2]], single=False, new_axes=None, qconj=None, pipes=[None, None])]),
    # nested pipes split level by level, spectator in the middle, pipe given conjugated and unsorted
    dict(k='arr', legs=[_U1, dict(_L2, qconj=-1), dict(_U1, qconj=-1), _L2, _L2], labels=['a', 'b', None, 'd', 'e'], dtype='c',
         qt=[0, 0, 0, 0, 0], keep=[True, True, False], seed=2,
         prog=[dict(op='combine', groups=[['d', 0], [2, 'b']], single=False, new_axes=None, qconj=[-1, None],
                    pipes=[None, dict(qconj=1, sort=False, bunch=False, conj=True)]),
               dict(op='combine', groups=[[0, 1]], single=True, new_axes=-1, qconj=None, pipes=[None]),
               dict(op='split', axes=None), dict(op='split', axes=['(d.a)', 1])]),
]
