"""C03 worker: random histories over the REAL tensor operations, every intermediate object kept alive.

usage: python -m harness.c03_worker <cases.json> <out.json>     (kernel configuration from the environment)

For each case {"kind": "hist"|"mps", "seed": int, "nsteps": int, ...} the worker
  * runs a typed random walk over the public operations of np_conserved / charges (in-place ones, shallow copies,
    operands used twice, legs shared by several tensors, charge changes, element assignment, ...),
  * before and after every step snapshots every live object: observation (dense array, legs' qflat + qconj, labels,
    qtotal, dtype) and structural fingerprint (identity of `legs` list, leg objects, their slices/charges arrays,
    `qtotal`, `_labels`, `_data` list, base buffer of every block, `_qdata`),
  * applies the model-free oracle (see `Hist.check`),
  * records, per step, the model calls (with the value-dependent hints) for the Lean heap model.
Output per case: {"steps": [model calls], "fps": [fingerprints], "oracle": [[signature, detail]], "ops": [names]}.
"""
import json
import random
import sys
import traceback
import warnings

import numpy as np

warnings.simplefilter('ignore')

DT = {'float64': 0, 'complex128': 1, 'int64': 2}


def dcode(dt):
    return DT.get(np.dtype(dt).name, 9)


def base_of(x):
    while isinstance(getattr(x, 'base', None), np.ndarray):
        x = x.base
    return x


class Skip(Exception):
    """operation not applicable in the current state"""


class Hist:
    def __init__(self, cy):
        from tenpy.linalg import charges
        self.LegPipe = charges.LegPipe
        self.cy = cy
        self.A, self.G = [], []        # live tensors / registered legs
        self.meta = []                 # per tensor: dict(fam=…)
        self.keep = {}                 # id -> object (nothing seen is ever freed: ids are never re-used)
        self.canon = {}                # id -> small int, in order of first appearance
        self.legsnap = {}              # id(leg) -> (leg, snapshot)
        self.steps, self.fps, self.oracle, self.ops = [], [], [], []
        self.changed, self.targets = [], []   # per step: tensors whose observation changed / in-place target
        self.fresh_result = None              # index of the tensor returned by the last non-in-place step
        self.prev_obs, self.prev_fp = [], []
        self.tmp_keep = []

    # ---- identities
    def cid(self, obj):
        i = id(obj)
        if i not in self.keep:
            self.keep[i] = obj
            self.canon[i] = len(self.canon)
        return self.canon[i]

    def cbase(self, arr):
        return self.cid(base_of(arr))

    def fp_leg(self, l):
        self.note_leg(l)
        subs = [self.cid(s) for s in l.legs] if isinstance(l, self.LegPipe) else []
        if isinstance(l, self.LegPipe):
            for s in l.legs:
                self.note_leg(s)
        return [self.cid(l), self.cbase(l.slices), self.cbase(l.charges), subs]

    def fp_arr(self, a):
        return dict(legs_list=self.cid(a.legs), legs=[self.fp_leg(l) for l in a.legs], qtotal=self.cbase(a.qtotal),
                    labels=self.cid(a._labels), data=self.cid(a._data), blocks=[self.cbase(t) for t in a._data],
                    qdata=self.cbase(a._qdata), nq=int(len(a._qdata)),
                    keys=keys_of(a) if a._qdata.shape[1] == len(a.legs) else None)

    @staticmethod
    def mut_ids(fp):
        return {fp['legs_list'], fp['labels'], fp['data'], fp['qdata'], fp['qtotal']} | set(fp['blocks'])

    # ---- observations
    def leg_snapshot(self, l):
        s = (id(l.slices), id(l.charges), l.slices.tobytes(), l.charges.tobytes(), int(l.qconj), bool(l.sorted),
             bool(l.bunched), int(l.ind_len), int(l.block_number), id(l.chinfo))
        if isinstance(l, self.LegPipe):
            s += (tuple(id(x) for x in l.legs), l.q_map.tobytes(), l.q_map_slices.tobytes(),
                  None if l._perm is None else np.asarray(l._perm).tobytes(), np.asarray(l._strides).tobytes(),
                  tuple(int(x) for x in l.subshape), tuple(int(x) for x in l.subqshape))
        return s

    def note_leg(self, l):
        if id(l) not in self.legsnap:
            self.cid(l)
            self.legsnap[id(l)] = (l, self.leg_snapshot(l))

    @staticmethod
    def obs_arr(a):
        try:
            d = a.to_ndarray()
            dense = (str(d.dtype), d.shape, d.tobytes())
        except Exception as e:  # e.g. a shallow copy whose shared `_data` list was appended to
            dense = ('ERR', type(e).__name__)
        try:
            legs = tuple((l.to_qflat().tobytes(), int(l.qconj), int(l.ind_len)) for l in a.legs)
        except Exception as e:
            legs = ('ERR', type(e).__name__)
        return (dense, legs, tuple(a._labels), a.qtotal.tobytes(), str(a.dtype))

    # ---- one step
    def begin(self):
        self.prev_obs = [self.obs_arr(a) for a in self.A]
        self.prev_fp = [self.fp_arr(a) for a in self.A]
        if self.fps and self.prev_fp != self.fps[-1]['arrs']:
            raise RuntimeError('harness: a tensor changed between two recorded steps (after %r, attempted %r)'
                               % (self.ops[-1], getattr(self, 'attempts', None)))
        for l in self.G:
            self.note_leg(l)

    def end(self, name, calls, new_arrs=(), new_legs=(), target=None, deep=None):
        """name: real operation; calls: model calls; target: index of the in-place target (None: not in place);
        deep: index (among new_arrs) of a result documented as an independent deep copy."""
        n_before = len(self.prev_obs)
        for a in new_arrs:
            self.A.append(a)
            self.meta.append({})
        for l in new_legs:
            self.G.append(l)
        self.ops.append(name)
        self.attempts = []
        self.steps.append(calls)
        fp_a = [self.fp_arr(a) for a in self.A]
        fp_g = [self.fp_leg(l) for l in self.G]
        self.fps.append(dict(arrs=fp_a, legs=fp_g))
        now_obs = [self.obs_arr(self.A[k]) for k in range(n_before)]
        self.changed.append([k for k in range(n_before) if now_obs[k] != self.prev_obs[k]])
        self.targets.append(target)
        self.fresh_result = n_before if (new_arrs and target is None) else None
        # ---- model-free oracle
        allowed = set()
        if target is not None:
            tm = self.mut_ids(self.prev_fp[target])
            allowed = {k for k in range(n_before) if k == target or (self.mut_ids(self.prev_fp[k]) & tm)}
        for lid, (l, snap) in list(self.legsnap.items()):
            now = self.leg_snapshot(l)
            if now != snap:
                diff = [i for i, (x, y) in enumerate(zip(now, snap)) if x != y]
                self.oracle.append((f'c03.{name}.leg-mutated', f'step {len(self.ops) - 1}: a leg object that existed '
                                    f'before the call changed (snapshot fields {diff}: 2=slices 3=charges 4=qconj 5,6=flags)'))
                self.legsnap[lid] = (l, now)
        for k in range(n_before):
            if k in allowed:
                continue
            if now_obs[k] != self.prev_obs[k]:
                what = 'operand-or-bystander-changed' if target is None else 'unshared-tensor-changed-by-inplace'
                self.oracle.append((f'c03.{name}.{what}', f'step {len(self.ops) - 1}: tensor #{k} changed'
                                    + (f' (in-place target #{target})' if target is not None else '')))
        if deep is not None:
            k = n_before + deep
            mine = self.mut_ids(fp_a[k])
            for j in range(len(self.A)):
                if j != k and (self.mut_ids(fp_a[j]) & mine):
                    self.oracle.append((f'c03.{name}.deep-copy-shares-state', f'step {len(self.ops) - 1}: result shares '
                                        f'mutable state with tensor #{j}'))
                    break


def call(name, a=(), g=(), n=(), l=(), b=(), res='-'):
    return dict(name=name, a=[int(x) for x in a], g=[int(x) for x in g], n=[int(x) for x in n],
                l=[[int(y) for y in x] for x in l], b=[bool(x) for x in b], res=res)


def keys_of(a):
    if len(a._qdata) == 0:
        return []
    stride, ks = 1, np.zeros(len(a._qdata), dtype=np.int64)
    for ax, l in enumerate(a.legs):
        ks = ks + a._qdata[:, ax].astype(np.int64) * stride
        stride *= max(1, l.block_number)
    return [int(k) for k in ks]


def keys_perm(a, perm):
    """keys of the rows of `a._qdata[:, perm]` (what itranspose(perm) produces)"""
    if len(a._qdata) == 0:
        return []
    stride, ks = 1, np.zeros(len(a._qdata), dtype=np.int64)
    for ax in perm:
        ks = ks + a._qdata[:, ax].astype(np.int64) * stride
        stride *= max(1, a.legs[ax].block_number)
    return [int(k) for k in ks]


def lflag(l, pipe=False):
    return int(l.qconj > 0) + 2 * int(bool(l.sorted)) + 4 * int(bool(l.bunched)) + (8 if pipe else 0)


def contig_flags(a):
    return [int(t.flags['C_CONTIGUOUS']) for t in a._data]


def sort_order(a):
    """order of the blocks after isort_qdata()"""
    if a._qdata_sorted or len(a._qdata) < 2:
        return list(range(len(a._data)))
    return [int(p) for p in np.lexsort(a._qdata.T)]


# ------------------------------------------------------------------------------------------------------------------


class Walk:
    """typed random walk; every method `op_*` performs one real call and records the model calls"""

    def __init__(self, case, npc, ch, cy):
        self.npc, self.ch = npc, ch
        self.rng = random.Random(case['seed'])
        self.rs = np.random.RandomState(case['seed'] % (2 ** 31))
        self.H = Hist(cy)
        self.cy = cy
        self.case = case
        self.follow = None

    # ----- helpers
    def rand_block(self, dtype):
        def f(shape):
            x = self.rs.randint(-3, 4, size=shape).astype(np.float64)
            x[x == 0] = 1.0   # no accidentally zero blocks: keeps `ipurge_zeros` predictable
            if np.dtype(dtype).kind == 'c':
                x = x + 1j * self.rs.randint(-2, 3, size=shape)
            return x
        return f

    def pick(self, pred=None):
        # (a shallow copy whose shared `_data` list was appended to through its sibling — the documented pitfall of
        #  copy(deep=False) — has len(_data) != len(_qdata); it stays alive and observed but is not used as an operand)
        idx = [i for i, a in enumerate(self.H.A) if self.usable(a) and (pred is None or pred(a))]
        if not idx:
            raise Skip()
        # prefer recent objects a little, but keep old ones in play (second references!)
        return self.rng.choice(idx + idx[-3:])

    @staticmethod
    def usable(a):
        # not usable as operands (they stay alive and observed): a shallow copy whose shared `_data` list was appended
        # to through its sibling (documented pitfall of copy(deep=False)); the result of split_legs on a tensor without
        # blocks, whose `_qdata` keeps the old number of columns (storage-invariant defect, property C02)
        return len(a._data) == len(a._qdata) and a._qdata.shape[1] == a.rank

    def resorts_that_happened(self):
        """a call that tenpy rejected may already have re-sorted / made contiguous an operand (benign): keep exactly the
        prepared 'resort' model calls whose operand got a new `_data` list"""
        out = []
        for c in getattr(self, 'pending', []):
            k = c['a'][0] if c['name'] == 'resort' and c['a'] else -1
            if 0 <= k < len(self.H.prev_fp) and self.H.prev_fp[k]['data'] != self.H.cid(self.H.A[k]._data):
                out.append(c)
        return out

    def pick_target(self, pred=None):
        f = self.follow
        if f is not None and self.usable(self.H.A[f]) and (pred is None or pred(self.H.A[f])):
            i = f   # in-place method on the result of the previous (non-in-place) step; its operands are alive
        else:
            i = self.pick(pred)
        self.inplace_target = i
        return i

    def setup(self):
        from vlib import npcio
        H, rng = self.H, self.rng
        H.begin()
        calls, legs = [], []
        for d in self.case['legs']:
            l = npcio.make_leg(d)
            legs.append(l)
            calls.append(call('leg.new', b=[l.qconj > 0, l.sorted, l.bunched], res='g'))
        H.end('setup.legs', calls, new_legs=legs)
        for _ in range(self.case.get('narr', 2)):
            self.op_new()

    def op_new(self):
        H, rng = self.H, self.rng
        if not H.G:
            raise Skip()
        rank = rng.choice([1, 2, 2, 3, 3])
        gi = []
        chinfo = None
        cand = list(range(len(H.G)))
        rng.shuffle(cand)
        for _ in range(rank):
            ok = [i for i in cand if (chinfo is None or H.G[i].chinfo == chinfo) and H.G[i].ind_len > 0]
            if not ok:
                raise Skip()
            i = rng.choice(ok)
            chinfo = H.G[i].chinfo
            gi.append(i)
        legs = [H.G[i] for i in gi]
        dtype = rng.choice([np.float64, np.float64, np.complex128])
        # a total charge for which some block exists
        qt = None
        if chinfo.qnumber > 0 and rng.random() < 0.8:
            qi = [rng.randrange(l.block_number) for l in legs]
            qt = chinfo.make_valid(np.sum([l.get_charge(q) for l, q in zip(legs, qi)], axis=0))
        labels = rng.choice([None, ['a', 'b', 'c', 'd'][:rank], ['p', 'q*', 'r', 's'][:rank]])
        H.begin()
        u = rng.random()
        if u < 0.1:
            a = self.npc.ones(legs, dtype=dtype, qtotal=qt, labels=labels)
        elif u < 0.15:
            a = self.npc.zeros(legs, dtype=dtype, qtotal=qt, labels=labels)
        else:
            a = self.npc.Array.from_func(self.rand_block(dtype), legs, dtype=dtype, qtotal=qt, labels=labels)
        H.end('from_func', [call('new', g=gi, n=[dcode(a.dtype)], l=[keys_of(a)], b=[a._qdata_sorted], res='a')],
              new_arrs=[a])

    # ----- leg level
    def op_leg(self, force=None):
        H, rng = self.H, self.rng
        i = rng.randrange(len(H.G))
        pipes = [k for k, x in enumerate(H.G) if isinstance(x, H.LegPipe)]
        if pipes and rng.random() < 0.4:
            i = rng.choice(pipes)
        kind = rng.choice(['conj', 'flip', 'sort', 'bunch', 'project', 'extend', 'copy', 'pipe', 'pipe', 'to_LegCharge', 'outer_conj'])
        if force is not None:
            i, kind = force
        l = H.G[i]
        pipe = isinstance(l, H.LegPipe)
        H.begin()
        if kind == 'conj':
            r = l.conj()
            c = call('leg.conj', g=[i], res='g')
        elif kind == 'flip':
            r = l.flip_charges_qconj()
            c = call('leg.flip', g=[i], res='g')
        elif kind == 'copy':
            r = l.copy()
            c = call('leg.copy', g=[i], res='g')
        elif kind == 'to_LegCharge':
            if not pipe:
                raise Skip()
            r = l.to_LegCharge()
            c = call('leg.to_LegCharge', g=[i], res='g')
        elif pipe and kind in ('sort', 'bunch', 'project'):
            # LegPipe.sort/bunch/project convert to a LegCharge first (new object sharing the arrays) and return that
            # object itself when there is nothing to do
            if kind == 'sort':
                _, r = l.sort(bunch=rng.random() < 0.5)
            elif kind == 'bunch':
                _, r = l.bunch()
            else:
                mask = np.array([rng.random() < 0.7 for _ in range(l.ind_len)])
                mask[0] = True
                _, _, r = l.project(mask)
            if r.slices is l.slices and r.charges is l.charges:
                c = call('leg.to_LegCharge', g=[i], res='g')
            else:
                c = call('leg.new', b=[r.qconj > 0, r.sorted, r.bunched], res='g')
            kind = 'pipe.' + kind
        elif kind == 'outer_conj':
            if not pipe:
                raise Skip()
            r = l.outer_conj()
            c = call('leg.flip', g=[i], res='g')
        elif kind == 'sort':
            if pipe:
                raise Skip()
            bunch = rng.random() < 0.5
            _, r = l.sort(bunch=bunch)
            c = call('leg.sort', g=[i], b=[bunch, r.bunched], res='g')
        elif kind == 'bunch':
            if pipe:
                raise Skip()
            _, r = l.bunch()
            c = call('leg.bunch', g=[i], res='g')
        elif kind == 'project':
            if pipe or l.ind_len == 0:
                raise Skip()
            mask = np.array([rng.random() < 0.7 for _ in range(l.ind_len)])
            if not mask.any():
                mask[0] = True
            _, _, r = l.project(mask)
            c = call('leg.project', g=[i], b=[r.bunched], res='g')
        elif kind == 'extend':
            if pipe:
                raise Skip()
            r = l.extend(rng.choice([1, 2]))
            c = call('leg.extend', g=[i], b=[r.sorted, r.bunched], res='g')
        else:  # pipe
            js = [i] + [j for j in range(len(H.G)) if H.G[j].chinfo == l.chinfo and H.G[j].ind_len > 0][:1]
            js = [j for j in js if H.G[j].ind_len > 0]
            if not js or len(H.G) > 14:
                raise Skip()
            r = H.LegPipe([H.G[j] for j in js], qconj=rng.choice([1, -1]))
            c = call('leg.pipe', g=js, b=[r.qconj > 0, r.sorted, r.bunched], res='g')
        H.end('leg.' + kind, [c], new_legs=[r])
        if kind == 'pipe' and force is None and rng.random() < 0.7:
            # the functions a LegPipe overrides, on the pipe just made
            self.op_leg(force=(len(H.G) - 1, rng.choice(['sort', 'bunch', 'project', 'outer_conj', 'conj', 'to_LegCharge', 'flip'])))

    # ----- not in place
    def op_copy(self):
        H = self.H
        i = self.pick()
        deep = self.rng.random() < 0.5
        H.begin()
        r = H.A[i].copy(deep=deep)
        H.end('copy.deep' if deep else 'copy.shallow', [call('copy', a=[i], b=[deep], res='a')], new_arrs=[r],
              deep=0 if deep else None)

    def op_transpose(self):
        H, rng = self.H, self.rng
        i = self.pick()
        a = H.A[i]
        perm = list(range(a.rank))
        rng.shuffle(perm)
        trivial = perm == list(range(a.rank))
        H.begin()
        r = a.transpose(perm)
        H.end('transpose', [call('transpose', a=[i], b=[trivial], l=[perm, keys_of(r)], res='a')], new_arrs=[r], deep=0)

    def op_conj(self):
        H = self.H
        i = self.pick()
        a = H.A[i]
        H.begin()
        r = a.conj()
        H.end('conj', [call('conj', a=[i], b=[a.dtype.kind == 'c'], res='a')], new_arrs=[r])

    def op_iconj(self):
        H = self.H
        i = self.pick_target()
        a = H.A[i]
        cplx = a.dtype.kind == 'c'
        H.begin()
        a.iconj()
        H.end('iconj', [call('iconj', a=[i], b=[cplx])], target=i)

    def op_add_trivial_leg(self):
        H, rng = self.H, self.rng
        i = self.pick(lambda a: a.rank < 4)
        a = H.A[i]
        ax = rng.randrange(a.rank + 1)
        qc = rng.choice([1, -1])
        lab = None if any(x is None for x in a._labels) else 't%d' % len(H.A)
        H.begin()
        r = a.add_trivial_leg(ax, lab, qc)
        H.end('add_trivial_leg', [call('add_trivial_leg', a=[i], n=[ax], b=[qc > 0], l=[keys_of(r)], res='a')], new_arrs=[r])

    def op_take_slice(self):
        H, rng = self.H, self.rng
        i = self.pick(lambda a: a.rank >= 2)
        a = H.A[i]
        ax = rng.randrange(a.rank)
        idx = rng.randrange(a.shape[ax])
        qi, _ = a.legs[ax].get_qindex(idx)
        kept_blocks = [k for k in range(len(a._qdata)) if a._qdata[k, ax] == qi]
        kept_axes = [x for x in range(a.rank) if x != ax]
        H.begin()
        r = a.take_slice(idx, ax)
        H.end('take_slice', [call('take_slice', a=[i], l=[kept_axes, kept_blocks, keys_of(r), [ax]], res='a')],
              new_arrs=[r], deep=0)

    def op_scale_axis(self):
        H, rng = self.H, self.rng
        i = self.pick()
        a = H.A[i]
        ax = rng.randrange(a.rank)
        s = self.rs.randint(1, 4, size=a.shape[ax]).astype(np.float64)
        inplace = rng.random() < 0.5
        H.begin()
        if inplace:
            self.inplace_target = i
            a.iscale_axis(s, ax)
            H.end('iscale_axis', [call('iscale_axis', a=[i], n=[dcode(a.dtype)])], target=i)
        else:
            r = a.scale_axis(s, ax)
            H.end('scale_axis', [call('scale_axis', a=[i], n=[dcode(r.dtype)], res='a')], new_arrs=[r])

    def op_astype(self):
        H, rng = self.H, self.rng
        i = self.pick()
        a = H.A[i]
        dt = rng.choice([a.dtype, np.dtype(np.complex128)])
        cp = rng.random() < 0.5
        H.begin()
        r = a.astype(dt, copy=cp)
        H.end('astype.copy' if cp else 'astype.nocopy', [call('astype', a=[i], n=[dcode(dt)], b=[cp], res='a')], new_arrs=[r])

    def op_label(self):
        H, rng = self.H, self.rng
        i = self.pick(lambda a: a._labels[0] is not None)
        a = H.A[i]
        new = 'L%d' % len(H.ops)
        H.begin()
        u = rng.random()
        if u < 0.3:
            r = a.replace_label(a._labels[0], new)
            H.end('replace_label', [call('replace_label', a=[i], res='a')], new_arrs=[r])
        elif u < 0.45:
            r = a.replace_labels([a._labels[0]], [new])
            H.end('replace_labels', [call('replace_label', a=[i], res='a')], new_arrs=[r])
        else:
            self.inplace_target = i
            v = rng.choice(['ireplace_label', 'ireplace_labels', 'iset_leg_labels', 'idrop_labels'])
            if v == 'ireplace_label':
                a.ireplace_label(a._labels[0], new)
            elif v == 'ireplace_labels':
                a.ireplace_labels([a._labels[0]], [new])
            elif v == 'iset_leg_labels':
                mine = [new + '_%d' % k for k in range(a.rank)]
                a.iset_leg_labels(mine)
                mine[0] = 'caller-edit'            # the caller's list must not be the tensor's list
            else:
                a.idrop_labels([0] if rng.random() < 0.5 else None)
            H.end(v, [call('ilabels', a=[i])], target=i)

    def op_neg(self):
        H = self.H
        i = self.pick()
        H.begin()
        r = -H.A[i]
        H.end('neg', [call('neg', a=[i], res='a')], new_arrs=[r])

    def op_gauge(self):
        H, rng = self.H, self.rng
        i = self.pick()
        a = H.A[i]
        ax = rng.randrange(a.rank)
        newq = a.chinfo.make_valid(np.array([rng.randint(-1, 2) for _ in range(a.chinfo.qnumber)]))
        nqc = rng.choice([None, 1, -1])
        H.begin()
        r = a.gauge_total_charge(ax, newq, nqc)
        l = r.legs[ax]
        H.end('gauge_total_charge', [call('gauge_total_charge', a=[i], n=[ax], b=[l.qconj > 0, l.sorted, l.bunched], res='a')],
              new_arrs=[r])

    def op_charge(self):
        H, rng = self.H, self.rng
        i = self.pick(lambda a: a.chinfo.qnumber >= 1 and not any(isinstance(l, H.LegPipe) for l in a.legs))
        a = H.A[i]
        kind = rng.choice(['change', 'change', 'drop_one', 'drop_all', 'add'])
        q = rng.randrange(a.chinfo.qnumber)
        H.begin()
        if kind == 'change':
            r = a.change_charge(q, rng.choice([1, 2, 3]))
        elif kind == 'drop_one':
            r = a.drop_charge(q)
        elif kind == 'drop_all':
            r = a.drop_charge(None)
        else:
            ci2 = self.ch.ChargeInfo([2])
            # (add_charge(qtotal=None) on a tensor that already has charges builds a qtotal of the wrong length:
            #  pass it explicitly; trivial values of the new Z2 charge are enough for the aliasing question)
            add = [self.ch.LegCharge.from_qflat(ci2, [[0]] * l.ind_len, l.qconj) for l in a.legs]
            r = a.add_charge(add, qtotal=[0])
            self.H.tmp_keep.append(add)
        codes = [4 * k + 2 for k in range(a.rank)]
        flags = [lflag(l) for l in r.legs]
        if kind in ('change', 'drop_one'):
            c = call('change_charge' if kind == 'change' else 'drop_charge_one', a=[i], l=[codes, flags], res='a')
        else:
            c = call('fresh', a=[i], n=[dcode(r.dtype)], l=[codes, keys_of(r), flags], b=[False, r._qdata_sorted], res='a')
        H.end(kind + '_charge', [c], new_arrs=[r], deep=0)

    def contractible_pairs(self, a, b):
        out = []
        for ia, la in enumerate(a.legs):
            for ib, lb in enumerate(b.legs):
                if a is b and ia == ib:
                    continue
                try:
                    la.test_contractible(lb)
                    out.append((ia, ib))
                except ValueError:
                    pass
        return out

    def op_tensordot(self):
        H, rng = self.H, self.rng
        i = self.pick()
        a = H.A[i]
        mode = rng.choice(['conj_tmp', 'pair', 'pair'])
        calls = self.pending = []
        H.begin()
        if mode == 'conj_tmp':
            # tensordot(a, a.conj(), ...): operand used twice
            b = a.conj()
            H.tmp_keep.append(b)
            calls.append(call('conj', a=[i], b=[a.dtype.kind == 'c'], res='t'))
            jref = -1
            k = rng.randrange(a.rank)
            axes_a, axes_b = [k], [k]
            if a.rank >= 2 and rng.random() < 0.4:
                k2 = rng.choice([x for x in range(a.rank) if x != k])
                axes_a.append(k2)
                axes_b.append(k2)
        else:
            cands = []
            for j, b in enumerate(H.A):
                if b.chinfo == a.chinfo and self.usable(b):
                    ps = self.contractible_pairs(a, b)
                    if ps:
                        cands.append((j, ps))
            if not cands:
                raise Skip()
            j, ps = rng.choice(cands)
            b = H.A[j]
            jref = j
            ia, ib = rng.choice(ps)
            axes_a, axes_b = [ia], [ib]
        if a.rank - len(axes_a) + b.rank - len(axes_b) > 4:
            raise Skip()
        r = self.npc.tensordot(a, b, axes=(axes_a, axes_b))
        if not isinstance(r, self.npc.Array):
            H.end('tensordot.scalar', calls)
            return
        # _tensordot_transpose_axes: shallow copies of both operands, itranspose on the copies (temporaries of the model),
        # then the worker builds the result from the transposed copies
        ntmp = sum(1 for c in calls if c['res'] == 't')
        perm_a = [x for x in range(a.rank) if x not in axes_a] + axes_a
        perm_b = axes_b + [x for x in range(b.rank) if x not in axes_b]
        calls.append(call('copy', a=[i], b=[False], res='t'))
        calls.append(call('copy', a=[jref], b=[False], res='t'))
        ta, tb = -1 - ntmp, -2 - ntmp
        for ref, arr, perm in ((ta, a, perm_a), (tb, b, perm_b)):
            if perm != list(range(arr.rank)):
                vf = [int(np.transpose(t, perm).flags['C_CONTIGUOUS']) for t in arr._data]
                calls.append(call('itranspose', a=[ref], l=[perm, keys_perm(arr, perm), vf]))
        cut = a.rank - len(axes_a)
        lay = [4 * x for x in range(cut)] + [4 * x + 1 for x in range(len(axes_b), b.rank)]
        calls.append(call('fresh', a=[ta, tb], n=[dcode(r.dtype)], l=[lay, keys_of(r), []], b=[False, r._qdata_sorted], res='a'))
        H.end('tensordot.' + mode, calls, new_arrs=[r], deep=0)

    def op_outer(self):
        H, rng = self.H, self.rng
        i = self.pick(lambda a: a.rank <= 2)
        a = H.A[i]
        j = self.pick(lambda b: b.rank <= 2 and b.chinfo == a.chinfo)
        b = H.A[j]
        H.begin()
        r = self.npc.outer(a, b)
        lay = [4 * x for x in range(a.rank)] + [4 * x + 1 for x in range(b.rank)]
        H.end('outer', [call('fresh', a=[i, j], n=[dcode(r.dtype)], l=[lay, keys_of(r), []], b=[False, r._qdata_sorted], res='a')],
              new_arrs=[r], deep=0)

    def op_trace(self):
        H, rng = self.H, self.rng
        i = self.pick(lambda a: a.rank >= 3 and self.contractible_pairs(a, a))
        a = H.A[i]
        ia, ib = rng.choice(self.contractible_pairs(a, a))
        H.begin()
        r = self.npc.trace(a, ia, ib)
        lay = [4 * x for x in range(a.rank) if x not in (ia, ib)]
        H.end('trace', [call('fresh', a=[i], n=[dcode(r.dtype)], l=[lay, keys_of(r), []], b=[False, r._qdata_sorted], res='a')],
              new_arrs=[r], deep=0)

    def compatible(self, a, b):
        if a.rank != b.rank or a.chinfo != b.chinfo or a._labels != b._labels or a.shape != b.shape:
            return False
        if np.any(a.qtotal != b.qtotal):
            return False
        try:
            for la, lb in zip(a.legs, b.legs):
                la.test_equal(lb)
        except ValueError:
            return False
        return True

    def partner(self, i):
        a = self.H.A[i]
        js = [j for j, b in enumerate(self.H.A) if self.usable(b) and self.compatible(a, b)]
        return self.rng.choice(js)   # contains i itself: `a + a`

    def resort_call(self, ref, arr, sort, contig):
        return call('resort', a=[ref], b=[sort, contig], l=[contig_flags(arr) if contig else []])

    def op_add(self):
        H, rng = self.H, self.rng
        i = self.pick()
        j = self.partner(i)
        a, b = H.A[i], H.A[j]
        sub = rng.random() < 0.4
        calls = self.pending = []
        H.begin()
        calc = np.result_type(a.dtype, b.dtype, 1.0)
        if self.cy:
            calls.append(self.resort_call(j, b, True, b.dtype == calc))
        r = (a - b) if sub else (a + b)
        calls.append(call('deep_fresh', a=[i], n=[dcode(r.dtype)], l=[keys_of(r)], b=[r._qdata_sorted], res='a'))
        H.end('sub' if sub else 'add', calls, new_arrs=[r], deep=0)

    def op_mul(self):
        H, rng = self.H, self.rng
        i = self.pick()
        s = rng.choice([2.0, -1.0, 0.5, 0.0, 1j])
        H.begin()
        r = (H.A[i] / 2.0 if s == 0.5 else H.A[i] * s) if rng.random() < 0.5 else s * H.A[i]
        H.end('mul', [call('deep_fresh', a=[i], n=[dcode(r.dtype)], l=[keys_of(r)], b=[r._qdata_sorted], res='a')],
              new_arrs=[r], deep=0)

    def op_iadd(self):
        H, rng = self.H, self.rng
        i = self.pick_target()
        j = self.partner(i)
        a, b = H.A[i], H.A[j]
        p = rng.choice([1.0, 2.0, -1.0, 0.5])
        calc = np.result_type(a.dtype, b.dtype, p)
        calls = self.pending = []
        H.begin()
        if not self.cy:
            # npc: other.__mul__(prefactor) is a scaled deep copy; ibinary_blockwise sorts self and that temporary
            calls.append(call('copy', a=[j], b=[True], res='t'))
            calls.append(call('resort', a=[i], b=[True, False], l=[[]]))
            calls.append(call('resort', a=[-1], b=[True, False], l=[[]]))
            calls.append(call('ibinary', a=[i, -1], n=[-1]))
        else:
            calls.append(call('resort', a=[i], b=[True, False], l=[[]]))
            calls.append(call('resort', a=[j], b=[True, False], l=[[]]))
            conv = a.dtype != calc
            # contiguity flags in the order the blocks have after the sorting above
            if conv:
                calls.append(call('iunary', a=[i], n=[dcode(calc)]))
                fl_a = [int(a._data[p].astype(calc).flags['C_CONTIGUOUS']) for p in sort_order(a)]
            else:
                fl_a = [contig_flags(a)[p] for p in sort_order(a)]
            oref = j
            if b.dtype != calc:
                calls.append(call('astype', a=[j], n=[dcode(calc)], b=[True], res='t'))
                oref = -1
                fl_b = [int(b._data[p].astype(calc).flags['C_CONTIGUOUS']) for p in sort_order(b)]
            else:
                fl_b = [contig_flags(b)[p] for p in sort_order(b)]
            calls.append(call('resort', a=[i], b=[False, True], l=[fl_a]))
            if not (oref == j and j == i):
                calls.append(call('resort', a=[oref], b=[False, True], l=[fl_b]))
            else:
                calls.append(call('resort', a=[i], b=[False, True], l=[[1] * len(fl_a)]))
            calls.append(call('iadd', a=[i, oref], n=[-1], b=[conv]))
        if rng.random() < 0.5 and p == 1.0:
            a += b
        elif rng.random() < 0.5 and p == -1.0:
            a -= b
        else:
            a.iadd_prefactor_other(p, b)
        calls[-1]['n'] = [dcode(a.dtype)]
        H.end('iadd_prefactor_other', calls, target=i)

    def op_iscale(self):
        H, rng = self.H, self.rng
        i = self.pick_target()
        a = H.A[i]
        s = rng.choice([2.0, -1.0, 0.5, 0.0, 2j])
        calc = np.result_type(a.dtype, s)
        conv = calc != a.dtype
        calls = self.pending = []
        H.begin()
        if s != 0.0 and self.cy and not conv:
            calls.append(self.resort_call(i, a, False, True))
        if s == 0.5 and rng.random() < 0.5:
            a /= 2.0
        else:
            a *= s
        # (the dtype actually obtained is read off: on a tensor without blocks the two kernels differ — the Python
        #  iunary_blockwise keeps the dtype, the compiled version promotes it; that is C04's business)
        if s == 0.0:
            calls.append(call('iscale_zero', a=[i]))
        else:
            calls.append(call('iscale_prefactor', a=[i], n=[dcode(a.dtype)], b=[conv]))
        H.end('iscale_prefactor', calls, target=i)

    def op_ipurge(self):
        H, rng = self.H, self.rng
        i = self.pick_target(lambda a: a.stored_blocks >= 1)
        a = H.A[i]
        # make some blocks zero first through element/blocks assignment on a's own blocks? -> use a cutoff instead
        norms = [float(np.linalg.norm(t)) for t in a._data]
        cutoff = rng.choice([1e-16, sorted(norms)[len(norms) // 2]])
        keep = [k for k, nr in enumerate(norms) if nr > cutoff]
        H.begin()
        a.ipurge_zeros(cutoff)
        H.end('ipurge_zeros', [call('ipurge_zeros', a=[i], l=[keep])], target=i)

    def op_iproject(self):
        H, rng = self.H, self.rng
        i = self.pick_target(lambda a: not any(isinstance(l, H.LegPipe) for l in a.legs))
        a = H.A[i]
        ax = rng.randrange(a.rank)
        mask = np.array([rng.random() < 0.7 for _ in range(a.shape[ax])])
        if not mask.any():
            mask[0] = True
        H.begin()
        a.iproject(mask, ax)
        H.end('iproject', [call('iproject', a=[i], l=[[ax], keys_of(a), [int(a.legs[ax].bunched)]])], target=i)

    def op_setitem_scalar(self):
        H, rng = self.H, self.rng
        i = self.pick_target()
        a = H.A[i]
        # an index whose block is compatible with qtotal (else IndexError)
        for _ in range(20):
            idx = tuple(rng.randrange(s) for s in a.shape)
            pos = [l.get_qindex(k) for k, l in zip(idx, a.legs)]
            qi = np.array([p[0] for p in pos])
            if np.all(a._get_block_charge(qi) == a.qtotal):
                break
        else:
            raise Skip()
        match = np.argwhere(np.all(a._qdata == qi, axis=1))[:, 0]
        H.begin()
        data_id = id(a._data)
        a[idx] = 5.0
        if len(match):
            c = call('setitem_scalar', a=[i], n=[int(match[0])], b=[True, False])
            name = 'setitem.scalar.existing'
        else:
            c = call('setitem_scalar', a=[i], n=[0], b=[False, id(a._data) == data_id], l=[keys_of(a)])
            name = 'setitem.scalar.insert'
        H.end(name, [c], target=i)

    def op_setitem_slice(self):
        H, rng = self.H, self.rng
        i = self.pick_target(lambda a: a.stored_blocks >= 1 and not any(isinstance(l, H.LegPipe) for l in a.legs))
        a = H.A[i]
        ax = rng.randrange(a.rank)
        lo = rng.randrange(a.shape[ax])
        hi = rng.randrange(lo + 1, a.shape[ax] + 1)
        inds = tuple(slice(lo, hi) if x == ax else slice(None) for x in range(a.rank))
        other = a[inds] * 2.0
        H.tmp_keep.append(other)
        # blocks of `a` that intersect the region (all of them are written: zeroed, then overwritten)
        sl = a.legs[ax].slices
        W = [k for k in range(len(a._qdata)) if sl[a._qdata[k, ax]] < hi and sl[a._qdata[k, ax] + 1] > lo]
        H.begin()
        old_list = a._data
        old_blocks = list(a._data)
        old_keys = keys_of(a)
        a[inds] = other
        # get_block(insert=True) may have added blocks (appended to the existing list, or to a new one), then
        # ipurge_zeros(0.) dropped the blocks that are identically zero now (value dependent: read off)
        in_place = len(old_list) > len(old_blocks)
        if in_place:
            post = list(old_list)
        else:
            post = old_blocks + [t for t in a._data if not any(t is o for o in old_blocks)]
        n_ins = len(post) - len(old_blocks)
        final_keys = dict((id(t), k) for t, k in zip(a._data, keys_of(a)))
        post_keys = old_keys + [final_keys.get(id(t), 10 ** 6 + n) for n, t in enumerate(post[len(old_blocks):])]
        keep, used = [], set()
        for t in a._data:   # (the same ndarray object can occur twice: concatenate([a, a], copy=False))
            k = next(k for k, o in enumerate(post) if o is t and k not in used)
            keep.append(k)
            used.add(k)
        calls = [call('setitem_write', a=[i], n=[n_ins], l=[W, post_keys], b=[False, in_place]),
                 call('ipurge_zeros', a=[i], l=[keep])]
        H.end('setitem.slice', calls, target=i)

    def op_itranspose(self):
        H, rng = self.H, self.rng
        i = self.pick_target(lambda a: a.rank >= 2)
        a = H.A[i]
        if rng.random() < 0.3:
            ax1, ax2 = rng.sample(range(a.rank), 2)
            H.begin()
            a.iswapaxes(ax1, ax2)
            H.end('iswapaxes', [call('iswapaxes', a=[i], n=[ax1, ax2], l=[keys_of(a)])], target=i)
            return
        perm = list(range(a.rank))
        rng.shuffle(perm)
        if perm == list(range(a.rank)):
            perm = perm[::-1]
        vf = [int(np.transpose(t, perm).flags['C_CONTIGUOUS']) for t in a._data]
        H.begin()
        a.itranspose(perm)
        H.end('itranspose', [call('itranspose', a=[i], l=[perm, keys_of(a), vf])], target=i)

    def op_combine(self):
        H, rng = self.H, self.rng
        i = self.pick(lambda a: a.rank >= 2)
        a = H.A[i]
        grp = sorted(rng.sample(range(a.rank), 2))
        if rng.random() < 0.3:
            grp = grp[::-1]
        _, transp = a._combine_legs_new_axes([np.array(grp)], None)
        need_transp = tuple(transp) != tuple(range(a.rank))
        calls = self.pending = []
        H.begin()
        if not need_transp and a.stored_blocks > 1:
            calls.append(self.resort_call(i, a, False, True))
        r = a.combine_legs([grp], qconj=rng.choice([1, -1]))
        pos = next(k for k, l in enumerate(r.legs) if isinstance(l, H.LegPipe) and not any(l is x for x in a.legs))
        rest = [x for x in range(a.rank) if x not in grp]
        lay = [4 * x for x in rest]
        lay.insert(pos, 4 * 0 + 2)
        p = r.legs[pos]
        calls.append(call('fresh', a=[i], n=[dcode(r.dtype)], l=[lay, keys_of(r), [lflag(p, True)], [4 * x for x in grp]],
                          b=[False, r._qdata_sorted], res='a'))
        H.end('combine_legs.transp' if need_transp else 'combine_legs', calls, new_arrs=[r], deep=0)

    def op_split(self):
        H, rng = self.H, self.rng
        i = self.pick(lambda a: any(isinstance(l, H.LegPipe) for l in a.legs) and
                      sum(l.nlegs if isinstance(l, H.LegPipe) else 1 for l in a.legs) <= 4)
        a = H.A[i]
        axes = [k for k, l in enumerate(a.legs) if isinstance(l, H.LegPipe)]
        calls = self.pending = []
        H.begin()
        worker = not (a.stored_blocks == 0 or
                      (a.stored_blocks == 1 and all(a.legs[ax].q_map.shape[0] == 1 for ax in axes)))
        if worker and self.cy:
            calls.append(self.resort_call(i, a, False, True))
        r = a.split_legs()
        lay = []
        for k, l in enumerate(a.legs):
            if k in axes:
                lay += [4 * (16 * k + j) + 3 for j in range(l.nlegs)]
            else:
                lay.append(4 * k)
        calls.append(call('fresh', a=[i], n=[dcode(r.dtype)], l=[lay, keys_of(r), []], b=[worker, r._qdata_sorted], res='a'))
        H.end('split_legs.worker' if worker else 'split_legs.fast', calls, new_arrs=[r])

    def op_combine_split(self):
        n = len(self.H.A)
        self.op_combine()
        if len(self.H.A) == n:
            return
        orig_pick = self.pick
        self.pick = lambda pred=None: len(self.H.A) - 1   # split the tensor just combined
        try:
            self.op_split()
        finally:
            self.pick = orig_pick

    def op_sort_legcharge(self):
        H, rng = self.H, self.rng
        i = self.pick()
        a = H.A[i]
        sort = [rng.random() < 0.7 for _ in range(a.rank)]
        bunch = [rng.random() < 0.7 for _ in range(a.rank)]
        axes = [k for k in range(a.rank) if sort[k] or bunch[k]]
        if not axes:
            raise Skip()
        calls = self.pending = []
        H.begin()
        if a.stored_blocks > 1:
            calls.append(self.resort_call(i, a, False, True))
        pipes = {}
        orig = self.ch.LegPipe.to_LegCharge

        def spy(p):  # remember the flags of the intermediate single-leg pipes (created inside sort_legcharge)
            res = orig(p)
            pipes[id(res)] = lflag(p, True)
            return res
        self.ch.LegPipe.to_LegCharge = spy
        try:
            _, r = a.sort_legcharge(sort, bunch)
        finally:
            self.ch.LegPipe.to_LegCharge = orig
        lay = [(4 * axes.index(k) + 2) if k in axes else 4 * k for k in range(a.rank)]
        flags = [pipes.get(id(r.legs[k]), lflag(r.legs[k], True)) for k in axes]
        calls.append(call('fresh', a=[i], n=[dcode(r.dtype)], l=[lay, keys_of(r), flags] + [[4 * k] for k in axes],
                          b=[False, r._qdata_sorted], res='a'))
        calls.append(call('to_LegCharge_legs', a=[len(H.A)], l=[axes]))
        H.end('sort_legcharge', calls, new_arrs=[r], deep=0)

    def op_getitem(self):
        H, rng = self.H, self.rng
        i = self.pick(lambda a: not any(isinstance(l, H.LegPipe) for l in a.legs))
        a = H.A[i]
        inds, lay, flags_axes = [], [], []
        for ax in range(a.rank):
            k = rng.choice(['all', 'all', 'int', 'slice', 'mask'])
            if k == 'int' and a.rank - sum(1 for x in inds if isinstance(x, int)) > 1:
                inds.append(rng.randrange(a.shape[ax]))
            elif k == 'slice' and a.shape[ax] >= 2:
                lo = rng.randrange(a.shape[ax] - 1)
                inds.append(slice(lo, rng.randrange(lo + 1, a.shape[ax] + 1)))
                flags_axes.append(len(lay))
                lay.append(None)
            elif k == 'mask':
                m = [rng.random() < 0.7 for _ in range(a.shape[ax])]
                m[0] = True
                inds.append(np.array(m))
                flags_axes.append(len(lay))
                lay.append(None)
            else:
                inds.append(slice(None))
                lay.append(4 * ax)
        if all(isinstance(x, slice) and x == slice(None) for x in inds):
            raise Skip()
        H.begin()
        r = a[tuple(inds)]
        if not isinstance(r, self.npc.Array):
            raise Skip()
        flags = []
        for n_new, pos in enumerate(flags_axes):
            lay[pos] = 4 * n_new + 2
            flags.append(lflag(r.legs[pos]))
        H.end('getitem', [call('fresh', a=[i], n=[dcode(r.dtype)], l=[lay, keys_of(r), flags], b=[False, r._qdata_sorted], res='a')],
              new_arrs=[r], deep=0)

    def op_squeeze(self):
        H, rng = self.H, self.rng
        i = self.pick(lambda a: 1 in a.shape and a.rank >= 2)
        a = H.A[i]
        axes = [k for k in range(a.rank) if a.shape[k] == 1]
        if len(axes) == a.rank:
            axes = axes[:-1]
        H.begin()
        r = a.squeeze(axes)
        lay = [4 * k for k in range(a.rank) if k not in axes]
        H.end('squeeze', [call('fresh', a=[i], n=[dcode(r.dtype)], l=[lay, keys_of(r), []], b=[False, r._qdata_sorted], res='a')],
              new_arrs=[r])

    def op_extend(self):
        H, rng = self.H, self.rng
        i = self.pick(lambda a: not any(isinstance(l, H.LegPipe) for l in a.legs))
        a = H.A[i]
        ax = rng.randrange(a.rank)
        H.begin()
        r = a.extend(ax, rng.choice([1, 2]))
        lay = [2 if k == ax else 4 * k for k in range(a.rank)]
        H.end('extend', [call('extend', a=[i], l=[lay, [lflag(r.legs[ax])], keys_of(r)], res='a')], new_arrs=[r], deep=0)

    def op_concat(self):
        H, rng = self.H, self.rng
        i = self.pick(lambda a: not any(isinstance(l, H.LegPipe) for l in a.legs))
        a = H.A[i]
        ax = rng.randrange(a.rank)

        def ok(b):
            if b.rank != a.rank or b.chinfo != a.chinfo or np.any(b.qtotal != a.qtotal):
                return False
            try:
                for k in range(a.rank):
                    if k != ax:
                        a.legs[k].test_equal(b.legs[k])
                return b.legs[ax].qconj == a.legs[ax].qconj
            except ValueError:
                return False
        js = [j for j, b in enumerate(H.A) if self.usable(b) and ok(b)]
        j = rng.choice(js)
        b = H.A[j]
        cp = requested_copy = rng.random() < 0.5
        if not cp and {id(base_of(t)) for t in a._data} & {id(base_of(t)) for t in b._data}:
            # concatenate([a, a], copy=False) would hold the same buffer twice in one tensor; the model of
            # `_imake_contiguous` identifies a block with its buffer, so this exotic state is not generated
            cp = True
        H.begin()
        r = self.npc.concatenate([a, b], ax, copy=cp)
        actual_copy, cp = cp, requested_copy   # (name of the step: identical in both kernels)
        l = r.legs[ax]
        lay = [2 if k == ax else 4 * k for k in range(a.rank)]
        if not actual_copy:
            same = [int(a.dtype == r.dtype), int(b.dtype == r.dtype)]
            c = call('concat_views', a=[i, j], n=[dcode(r.dtype), ax], l=[[], keys_of(r), same],
                     b=[False, False, l.qconj > 0, l.sorted, l.bunched], res='a')
        else:
            c = call('fresh', a=[i, j], n=[dcode(r.dtype)], l=[lay, keys_of(r), [lflag(l)]], b=[True, r._qdata_sorted], res='a')
        H.end('concatenate.copy' if cp else 'concatenate.nocopy', [c], new_arrs=[r])

    def op_ibinary(self):
        H, rng = self.H, self.rng
        i = self.pick_target()
        j = self.partner(i)
        a, b = H.A[i], H.A[j]
        H.begin()
        calls = self.pending = [call('resort', a=[i], b=[True, False], l=[[]])]
        if j != i:
            calls.append(call('resort', a=[j], b=[True, False], l=[[]]))
        a.ibinary_blockwise(np.add, b)
        calls.append(call('ibinary', a=[i, j], n=[dcode(a.dtype)]))
        H.end('ibinary_blockwise', calls, target=i)

    def op_isort(self):
        H = self.H
        i = self.pick()
        H.begin()
        H.A[i].isort_qdata()
        H.end('isort_qdata', [call('resort', a=[i], b=[True, False], l=[[]])])

    # ----- coverage round: views / observers / constructors from caller-owned data / remaining public functions
    def observed_resort(self, i, old_list, old_blocks, was_sorted):
        """model call for what a function did to its operand #i besides its job (isort_qdata / _imake_contiguous): read off"""
        a = self.H.A[i]
        if a._data is old_list:
            return []
        flags = [int(any(base_of(t) is base_of(o) for t in a._data)) for o in old_blocks]
        return [call('resort', a=[i], b=[bool(a._qdata_sorted and not was_sorted), True], l=[flags])]

    def op_observers(self):
        """functions that only read: nothing may change; what they return must not alias the tensor (except get_block)"""
        H, rng = self.H, self.rng
        i = self.pick()
        a = H.A[i]
        H.begin()
        old_list, old_blocks, was_sorted = a._data, list(a._data), bool(a._qdata_sorted or len(a._qdata) < 2)
        d = a.to_ndarray()
        d[...] = d + 7.0                       # the caller may do what it wants with the result
        lab = a.get_leg_labels()
        lab[:] = ['zz'] * len(lab)
        a.norm()
        a.norm(np.inf)
        str(a)
        repr(a)
        a.sparse_stats()
        a.is_completely_blocked()
        a.size, a.ndim, a.stored_blocks
        self.npc.norm(a, 1)
        if a.stored_blocks:
            blk = a.get_block(a._qdata[0])       # documented: the block itself
            if blk is not a._data[0]:
                H.oracle.append(('c03.get_block.not-the-stored-block', 'get_block(qindices) did not return the stored block'))
            try:
                a.get_block(a._qdata[0] * 0)         # other qindices: None, or IndexError when incompatible with qtotal
            except IndexError:
                pass
        for blk, slices, charges, qinds in a:    # __iter__
            pass
        a.get_leg_index(0), a.get_leg_indices(list(range(a.rank))), a.has_label('a'), a.get_leg(0)
        try:
            if a.rank >= 2:
                H.tmp_keep.append(a.make_pipe([0, 1]))
        except ValueError:
            pass
        try:
            a == a                               # __eq__: (self - other).norm
        except Exception:
            pass
        H.end('observers', self.observed_resort(i, old_list, old_blocks, was_sorted))

    def op_add_leg(self):
        H, rng = self.H, self.rng
        i = self.pick(lambda a: a.rank < 4)
        a = H.A[i]
        gs = [k for k, l in enumerate(H.G) if l.chinfo == a.chinfo and l.ind_len > 0]
        if not gs:
            raise Skip()
        gi = rng.choice(gs)
        leg = H.G[gi]
        ax = rng.randrange(a.rank + 1)
        idx = rng.randrange(leg.ind_len)
        lab = None if any(x is None for x in a._labels) else 'n%d' % len(H.A)
        H.begin()
        r = a.add_leg(leg, idx, ax, lab)
        lay = [4 * x for x in range(ax)] + [2] + [4 * x for x in range(ax, a.rank)]
        H.end('add_leg', [call('fresh', a=[i], g=[gi], n=[dcode(r.dtype)], l=[lay, keys_of(r), []], b=[False, r._qdata_sorted], res='a')],
              new_arrs=[r], deep=0)

    def op_from_ndarray(self):
        """constructors given a caller-owned ndarray: the ndarray must stay what it was and must not be aliased"""
        H, rng = self.H, self.rng
        trivial = rng.random() < 0.5
        H.begin()
        if trivial:
            shape = [rng.choice([1, 2, 3]) for _ in range(rng.choice([1, 2, 3]))]
            x = self.rs.randint(1, 4, size=shape).astype(np.float64)
            x0 = x.copy()
            labels = rng.choice([None, ['a', 'b', 'c'][:len(shape)]])
            r = self.npc.Array.from_ndarray_trivial(x, labels=labels)
            name = 'from_ndarray_trivial'
            c = call('fresh', a=[], n=[dcode(r.dtype)], l=[[4 * k + 2 for k in range(r.rank)], keys_of(r), [lflag(l) for l in r.legs]],
                     b=[False, r._qdata_sorted], res='a')
        else:
            i = self.pick()
            a = H.A[i]
            x = a.to_ndarray()
            x0 = x.copy()
            r = self.npc.Array.from_ndarray(x, a.legs, dtype=a.dtype, qtotal=a.qtotal, labels=a.get_leg_labels())
            name = 'from_ndarray'
            c = call('fresh', a=[i], n=[dcode(r.dtype)], l=[[4 * k for k in range(r.rank)], keys_of(r), []],
                     b=[False, r._qdata_sorted], res='a')
        H.tmp_keep.append(x)
        if not np.array_equal(x, x0):
            H.oracle.append((f'c03.{name}.caller-ndarray-changed', f'{name}(data_flat, ...) changed the ndarray it was given'))
        before = Hist.obs_arr(r)
        x += 1.0                                  # the caller re-uses its array
        if Hist.obs_arr(r) != before:
            H.oracle.append((f'c03.{name}.aliases-caller-ndarray',
                             f'step {len(H.ops)}: modifying the ndarray given to {name} afterwards changed the tensor'))
        x1 = x.copy()
        if r.stored_blocks:
            idx = tuple(int(l.slices[q]) for l, q in zip(r.legs, r._qdata[0]))
            r[idx] = r[idx] + 1.0                 # in-place method on the result (existing block: no structural change)
            if not np.array_equal(x, x1):
                H.oracle.append((f'c03.{name}.result-aliases-caller-ndarray',
                                 f'step {len(H.ops)}: element assignment on the result of {name} changed the caller\'s ndarray'))
        H.end(name, [c], new_arrs=[r], deep=0)

    def op_permute(self):
        H, rng = self.H, self.rng
        i = self.pick(lambda a: not any(isinstance(l, H.LegPipe) for l in a.legs))
        a = H.A[i]
        ax = rng.randrange(a.rank)
        perm = list(range(a.shape[ax]))
        rng.shuffle(perm)
        H.begin()
        r = a.permute(perm, ax)
        lay = [2 if k == ax else 4 * k for k in range(a.rank)]
        H.end('permute', [call('fresh', a=[i], n=[dcode(r.dtype)], l=[lay, keys_of(r), [lflag(r.legs[ax])]], b=[True, r._qdata_sorted], res='a')],
              new_arrs=[r])

    def op_complex_conj(self):
        H = self.H
        i = self.pick()
        H.begin()
        r = H.A[i].complex_conj()
        H.end('complex_conj', [call('neg', a=[i], res='a')], new_arrs=[r])

    def op_binary(self):
        H, rng = self.H, self.rng
        i = self.pick()
        j = self.partner(i)
        a, b = H.A[i], H.A[j]
        H.begin()
        calls = self.pending = [call('resort', a=[j], b=[True, False], l=[[]])]
        r = a.binary_blockwise(np.add, b)
        shared = base_of(r._qdata) is base_of(a._qdata)
        calls.append(call('binary', a=[i], n=[dcode(r.dtype)], l=[keys_of(r)], b=[shared], res='a'))
        H.end('binary_blockwise', calls, new_arrs=[r])

    def op_as_completely_blocked(self):
        H, rng = self.H, self.rng
        i = self.pick()
        a = H.A[i]
        calls = self.pending = []
        H.begin()
        if a.stored_blocks > 1 and not all(l.is_blocked() for l in a.legs):
            calls.append(self.resort_call(i, a, False, True))
        enc, r = a.as_completely_blocked()
        if r is a:
            H.end('as_completely_blocked.self', [])
            return
        lay = [(4 * enc.index(k) + 2) if k in enc else 4 * k for k in range(a.rank)]
        flags = [lflag(r.legs[k], True) for k in enc]
        calls.append(call('fresh', a=[i], n=[dcode(r.dtype)], l=[lay, keys_of(r), flags] + [[4 * k] for k in enc],
                          b=[False, r._qdata_sorted], res='a'))
        H.end('as_completely_blocked', calls, new_arrs=[r], deep=0)

    def op_grid_concat(self):
        H, rng = self.H, self.rng
        i = self.pick(lambda a: a.rank >= 2 and not any(isinstance(l, H.LegPipe) for l in a.legs))
        a = H.A[i]
        ax0, ax1 = rng.sample(range(a.rank), 2)

        def ok(b):
            if b.rank != a.rank or b.chinfo != a.chinfo or np.any(b.qtotal != a.qtotal):
                return False
            try:
                for k in range(a.rank):
                    if k != ax1:
                        a.legs[k].test_equal(b.legs[k])
                return b.legs[ax1].qconj == a.legs[ax1].qconj
            except ValueError:
                return False
        js = [j for j, b in enumerate(H.A) if self.usable(b) and ok(b)]
        j = rng.choice(js)
        b = H.A[j]
        H.begin()
        r = self.npc.grid_concat([[a, b], [a, b]], [ax0, ax1], copy=True)
        lay = [4 * k for k in range(a.rank)]
        lay[ax0], lay[ax1] = 2, 6
        H.end('grid_concat', [call('fresh', a=[i, j], n=[dcode(r.dtype)], l=[lay, keys_of(r), [lflag(r.legs[ax0]), lflag(r.legs[ax1])]],
                                   b=[True, r._qdata_sorted], res='a')], new_arrs=[r])

    def op_linalg(self):
        """factorisations and matrix functions are not in place: operands unchanged (they may be re-sorted / made contiguous)"""
        H, rng = self.H, self.rng
        # operands whose legs are already blocked by charge are handed to the kernels as they are (`as_completely_blocked`
        # returns `self`): the new inner legs are then derived directly from the operand's SHARED leg objects
        blocked = [k for k, x in enumerate(H.A) if self.usable(x) and x.rank == 2 and all(l.is_blocked() for l in x.legs)]
        if blocked and rng.random() < 0.7:
            i = rng.choice(blocked)
        else:
            i = self.pick(lambda a: a.rank == 2)
        a = H.A[i]
        f = rng.choice(['svd', 'qr', 'lq', 'qr', 'lq', 'eigh', 'eig', 'expm', 'pinv', 'polar', 'eigvalsh', 'eigvals', 'eigvals', 'speigs', 'speigs',
                        'inner', 'trace', 'outer_self', 'matvec'])
        # option variants (mode, direction / gauge of the new inner leg, labels, cut-offs, sorting of eigenvalues)
        qc = rng.choice([+1, -1])
        labels = rng.choice([['x', 'y'], [None, None], ['x', None]])

        def some_charge():
            if rng.random() < 0.5:
                return None
            l0 = a.legs[0]
            return [int(x) for x in (l0.charges[rng.randrange(l0.block_number)] if l0.block_number else a.chinfo.make_valid())]
        H.begin()
        old_list, old_blocks, was_sorted = a._data, list(a._data), bool(a._qdata_sorted or len(a._qdata) < 2)
        self.pending = []
        npc = self.npc
        try:
            if f == 'svd':
                out = npc.svd(a, full_matrices=rng.random() < 0.3, compute_uv=rng.random() < 0.85,
                              cutoff=rng.choice([None, None, 1.e-12]), qtotal_LR=[some_charge(), None],
                              inner_labels=labels, inner_qconj=qc)
            elif f == 'qr':
                out = npc.qr(a, mode=rng.choice(['reduced', 'complete', 'complete']), inner_labels=labels,
                             cutoff=rng.choice([None, None, None, 1.e-12]), pos_diag_R=rng.random() < 0.4, qtotal_Q=some_charge(),
                             inner_qconj=qc)
            elif f == 'lq':
                out = npc.lq(a, mode=rng.choice(['reduced', 'complete', 'complete']), inner_labels=labels,
                             cutoff=rng.choice([None, None, None, 1.e-12]), pos_diag_L=rng.random() < 0.4, qtotal_Q=some_charge(),
                             inner_qconj=qc)
            elif f == 'polar':
                out = npc.polar(a, left=rng.random() < 0.5, inner_labels=labels)
            elif f in ('eigh', 'eig', 'eigvalsh', 'eigvals'):
                a.legs[0].test_contractible(a.legs[1])
                kw = dict(sort=rng.choice([None, None, 'm>', 'm<', '>', '<']))
                if f in ('eigh', 'eigvalsh'):
                    kw['UPLO'] = rng.choice(['L', 'U'])
                out = getattr(npc, f)(a, **kw)
            elif f == 'inner':
                out = npc.inner(a, a.conj(), axes='range')
            elif f == 'trace':
                a.legs[0].test_contractible(a.legs[1])
                out = npc.trace(a)
            elif f == 'outer_self':
                out = npc.outer(a, a)
            elif f == 'speigs':
                a.legs[0].test_contractible(a.legs[1])
                out = npc.speigs(a, a.legs[0].charges[0] * 0, 1) if a.shape[0] > 2 else None
            elif f == 'matvec':
                v = npc.Array.from_func(np.ones, [a.legs[1].conj()], dtype=a.dtype)
                out = a.matvec(v)
            else:
                a.legs[0].test_contractible(a.legs[1])
                out = getattr(npc, f)(a)
        except Exception:
            if 'tenpy' not in traceback.format_exc():
                raise
            H.end('rejected.linalg.' + f, self.observed_resort(i, old_list, old_blocks, was_sorted))
            return
        H.tmp_keep.append(out)
        H.end('linalg.' + f, self.observed_resort(i, old_list, old_blocks, was_sorted))

    def op_leg_from(self):
        """LegCharge constructors given caller-owned arrays: the leg must not alias them"""
        H, rng = self.H, self.rng
        i = rng.randrange(len(H.G))
        l = H.G[i]
        if isinstance(l, H.LegPipe):
            raise Skip()
        kind = rng.choice(['from_qflat', 'from_qind', 'from_qdict', 'from_trivial', 'init', 'from_add_charge', 'from_drop_charge',
                           'from_change_charge'])
        LC = self.ch.LegCharge
        H.begin()
        mine = []
        if kind == 'from_qflat':
            q = l.to_qflat().copy()
            mine = [q]
            r = LC.from_qflat(l.chinfo, q, l.qconj)
        elif kind == 'from_qind':
            sl, chg = l.slices.copy(), l.charges.copy()
            mine = [sl, chg]
            r = LC.from_qind(l.chinfo, sl, chg, l.qconj)
        elif kind == 'init':
            sl, chg = l.slices.copy(), l.charges.copy()
            mine = [sl, chg]
            r = LC(l.chinfo, sl, chg, l.qconj)
        elif kind == 'from_qdict':
            if not l.is_blocked():
                raise Skip()
            r = LC.from_qdict(l.chinfo, l.to_qdict(), l.qconj)
        elif kind == 'from_trivial':
            r = LC.from_trivial(max(1, l.ind_len), l.chinfo, l.qconj)
        elif kind == 'from_add_charge':
            other = LC.from_qflat(self.ch.ChargeInfo([2]), [[k % 2] for k in range(l.ind_len)], l.qconj)
            r = LC.from_add_charge([l, other])
        elif kind == 'from_drop_charge':
            if l.chinfo.qnumber < 1:
                raise Skip()
            r = LC.from_drop_charge(l, 0)
        else:
            if l.chinfo.qnumber < 1:
                raise Skip()
            r = LC.from_change_charge(l, 0, rng.choice([1, 2, 3]))
        mine0 = [m.copy() for m in mine]
        H.note_leg(r)
        for m in mine:
            m += 1                                 # the caller re-uses its arrays: the new leg is watched by the leg oracle
        H.tmp_keep.append(mine)
        H.end('leg.' + kind, [call('leg.new', b=[r.qconj > 0, r.sorted, r.bunched], res='g')], new_legs=[r])

    OPS = [('copy', 10), ('transpose', 5), ('conj', 5), ('iconj', 3), ('add_trivial_leg', 4), ('take_slice', 4),
           ('scale_axis', 6), ('astype', 4), ('label', 3), ('neg', 2), ('gauge', 3), ('charge', 5), ('tensordot', 8),
           ('outer', 2), ('trace', 2), ('add', 5), ('mul', 3), ('iadd', 6), ('iscale', 4), ('ipurge', 3), ('iproject', 4),
           ('setitem_scalar', 6), ('setitem_slice', 3), ('itranspose', 6), ('combine', 4), ('split', 4),
           ('sort_legcharge', 4), ('getitem', 3), ('squeeze', 2), ('extend', 2), ('concat', 3), ('ibinary', 2),
           ('isort', 2), ('leg', 6), ('new', 3),
           ('observers', 3), ('add_leg', 2), ('from_ndarray', 2), ('permute', 2), ('complex_conj', 1), ('binary', 2),
           ('as_completely_blocked', 2), ('grid_concat', 1), ('linalg', 7), ('leg_from', 2)]

    # in-place methods that write into existing containers of their target (block memory, `_data` list, legs/labels
    # lists): what makes an undocumented alias between a result and its operand visible
    FOLLOW = ['setitem_scalar', 'setitem_scalar', 'iscale', 'iadd', 'setitem_slice', 'itranspose', 'iproject', 'ibinary']
    # results that are worth following: reshaping / slicing functions documented to return copies or views
    FOLLOWED = ('split_legs', 'combine_legs', 'add_trivial_leg', 'take_slice', 'getitem', 'squeeze', 'transpose',
                'sort_legcharge', 'conj', 'astype', 'scale_axis', 'concatenate', 'extend', 'gauge_total_charge',
                'copy.deep', 'tensordot', 'trace', 'outer', 'change_charge', 'drop_one_charge')

    def run(self):
        self.follow = None
        self.setup()
        names = [n for n, w in self.OPS]
        weights = [w for n, w in self.OPS]
        only = self.case.get('only')
        stop = self.case.get('stop_after_op')
        done, tries = 0, 0
        while done < self.case['nsteps'] and tries < 40 * self.case['nsteps'] + 40:
            if stop is not None and len(self.H.ops) > stop:
                break
            tries += 1
            name = self.rng.choices(names, weights)[0]
            # after a reshaping/slicing/copying function: with probability 0.6 the next step is an in-place method on
            # its result (operands and everything else stay alive and observed)
            self.follow = None
            fr = self.H.fresh_result
            if fr is not None and not only and self.H.ops[-1].startswith(self.FOLLOWED) and self.rng.random() < 0.6:
                self.follow = fr
                name = self.rng.choice(self.FOLLOW)
            elif not only and self.rng.random() < 0.06:
                name = 'combine_split'
            if only and name not in only:
                continue
            if len(self.H.A) > 26 and name in ('new', 'copy'):
                continue
            self.H.attempts = getattr(self.H, 'attempts', []) + [name]
            self.inplace_target = None
            self.pending = []
            try:
                getattr(self, 'op_' + name)()
                done += 1
            except Skip:
                continue
            except (ValueError, IndexError) as e:
                # a generated call that tenpy rejects: state must be unchanged, the step is recorded as such
                tb = traceback.extract_tb(sys.exc_info()[2])
                if not any('tenpy' in f.filename for f in tb):
                    raise
                self.H.end('rejected.' + name, self.resorts_that_happened(), target=self.inplace_target)
                done += 1
        return self.H


# ------------------------------------------------------------------------------------------------------------------
# aliasing probe


def run_probe(walk, probe):
    """The history has been replayed up to the step that produced tensor `new`; the real objects share MORE state with
    the older tensors `excess` than the model documents. Apply small in-place modifications to the result and watch every
    older tensor that is not documented to share with it (and symmetrically: modify the older tensor, watch the result).
    Returns oracle entries (signature, detail)."""
    H = walk.H
    j = probe['new']
    documented = set(probe.get('documented', []))
    opname = H.ops[-1] if H.ops else '?'
    out = []
    if j >= len(H.A):
        return out

    def probes_for(x):
        ps = []
        if x.stored_blocks > 0:
            for b in range(min(x.stored_blocks, 3)):
                idx = tuple(int(l.slices[q]) for l, q in zip(x.legs, x._qdata[b]))
                ps.append((f'x[{idx}] = x[{idx}] + 1', lambda x=x, idx=idx: x.__setitem__(idx, x[idx] + 1.0)))
            ps.append(('x *= 3.', lambda x=x: x.__imul__(3.0)))
            ps.append(('x += x.copy()', lambda x=x: x.__iadd__(x.copy())))
            ps.append(('x.iscale_prefactor(0.5)', lambda x=x: x.iscale_prefactor(0.5)))
        if x.rank >= 2:
            ps.append(('x.iswapaxes(0, 1)', lambda x=x: x.iswapaxes(0, 1)))
        ps.append(('x.iconj()', lambda x=x: x.iconj()))
        return ps

    def watch(mutated, name, fn, watched, what):
        before = {k: Hist.obs_arr(H.A[k]) for k in watched}
        try:
            fn()
        except Exception as e:   # a probe tenpy rejects is no evidence either way
            return
        for k in watched:
            if Hist.obs_arr(H.A[k]) != before[k]:
                out.append((f'c03.{opname}.{what}',
                            f'step {len(H.ops) - 1}: after `r = {opname}(...)` (r = tensor #{j}), the in-place probe '
                            f'`{name}` on tensor #{mutated} (x) changed tensor #{k}, which is not documented to share '
                            f'anything with it'))
                return True
        return False

    older = [k for k in range(len(H.A)) if k != j and k not in documented]
    for name, fn in probes_for(H.A[j]):
        if watch(j, name, fn, older, 'result-aliases-older-tensor'):
            break
    for i in probe.get('excess', []):
        if i >= len(H.A) or i == j:
            continue
        for name, fn in probes_for(H.A[i]):
            if watch(i, name, fn, [j], 'older-tensor-aliases-result'):
                break
    return out


# ------------------------------------------------------------------------------------------------------------------
# MPS / MPO level


def run_mps(case, npc, cy):
    """constructors given tensors that are then mutated; psi.copy() + transformations; get_B(copy=False) aliasing."""
    import tenpy
    from tenpy.networks.mps import MPS
    from tenpy.networks.mpo import MPO
    from tenpy.networks.site import SpinHalfSite
    from tenpy.algorithms.truncation import svd_theta  # noqa: F401
    rng = random.Random(case['seed'])
    H = Hist(cy)
    oracle = []
    L = case.get('L', 4)
    conserve = rng.choice(['Sz', 'parity', None])
    site = SpinHalfSite(conserve=conserve)
    state = [rng.choice(['up', 'down']) for _ in range(L)]
    bc = rng.choice(['finite', 'finite', 'infinite'])
    psi0 = MPS.from_product_state([site] * L, state, bc=bc, unit_cell_width=L)
    # entangle a little so that bonds are non-trivial
    for i in range(L - 1):
        psi0.apply_local_op(i, 'Sx' if conserve is None else 'Sz', unitary=False)
    ops_done = []

    def obs_mps(p):
        return ([Hist.obs_arr(B) for B in p._B], [None if s is None else np.asarray(s).tobytes() for s in p._S],
                list(p.form), float(np.real(p.norm)))

    def site_snap():
        l = site.leg
        return (id(l), id(l.slices), id(l.charges), l.slices.tobytes(), l.charges.tobytes(), l.qconj, l.sorted, l.bunched,
                tuple((k, Hist.obs_arr(site.get_op(k))) for k in sorted(site.opnames)))

    s0 = site_snap()
    # --- constructor copies the tensors it is given
    Bs = [psi0.get_B(i, copy=True) for i in range(L)]
    Ss = [psi0.get_SL(i) for i in range(L)] + [psi0.get_SR(L - 1)]
    before_B = [Hist.obs_arr(B) for B in Bs]
    form_list = ['B'] * L
    form0, nB0, nS0 = list(form_list), len(Bs), len(Ss)
    Bs_ids, Ss_ids = [id(B) for B in Bs], [id(x) for x in Ss]
    Ss_vals = [np.asarray(x).tobytes() for x in Ss]
    psi = MPS([site] * L, Bs, Ss, bc=bc, form=form_list, unit_cell_width=L)
    if form_list != form0 or [id(B) for B in Bs] != Bs_ids or [id(x) for x in Ss] != Ss_ids \
            or [np.asarray(x).tobytes() for x in Ss] != Ss_vals:
        oracle.append(('c03.mps.init.argument-lists-changed', 'MPS(sites, Bs, SVs, form=[...]) changed a caller-owned list/array'))
    ref = obs_mps(psi)
    form_list[0] = 'A'          # the caller edits / re-uses its own lists
    Bs_keep = list(Bs)
    Bs[0] = None
    if obs_mps(psi) != ref:
        oracle.append(('c03.mps.init.aliases-caller-lists', 'editing the lists given as form / Bs to MPS() changed the MPS'))
    Bs[0] = Bs_keep[0]
    for i, B in enumerate(Bs):
        if Hist.obs_arr(B) != before_B[i]:
            oracle.append(('c03.mps.init.argument-changed', f'B[{i}] passed to MPS() changed'))
        mine = Hist.mut_ids(H.fp_arr(B))
        if mine & Hist.mut_ids(H.fp_arr(psi._B[i])) - {H.cbase(B.qtotal)}:
            oracle.append(('c03.mps.init.shares-data', f'MPS._B[{i}] shares block data with the argument'))
    for B in Bs:   # mutate the arguments in place afterwards
        B *= 3.0
        B.itranspose(list(range(B.rank))[::-1])
        if B.stored_blocks:
            B._data[0][...] = 7.0
    for s in Ss:
        s *= 0.5
    if obs_mps(psi) != ref:
        oracle.append(('c03.mps.init.aliases-arguments', 'mutating the tensors given to MPS() changed the MPS'))
    ops_done.append('mps.init')
    # --- psi.copy() then transformations on the copy
    ref = obs_mps(psi)
    cp = psi.copy()
    todo = ['apply_local_op', 'swap_sites', 'canonical_form', 'group_split', 'add', 'compress_svd', 'set_B', 'apply_unitary']
    rng.shuffle(todo)
    for t in todo[:case.get('ntrafo', 5)]:
        try:
            if t == 'apply_local_op':
                cp.apply_local_op(rng.randrange(L), rng.choice(['Sz', 'Sigmaz']), unitary=False)
            elif t == 'apply_unitary':
                cp.apply_local_op(rng.randrange(L), 'Sigmaz', unitary=True)
            elif t == 'swap_sites' and L >= 2:
                cp.swap_sites(rng.randrange(L - 1))
            elif t == 'canonical_form':
                cp.canonical_form()
            elif t == 'group_split' and bc == 'finite' and L % 2 == 0:
                cp.group_sites(2)
                cp.group_split()
            elif t == 'add' and bc == 'finite':
                cp = cp.add(psi, 0.5, 0.5)
            elif t == 'compress_svd' and bc == 'finite':
                cp.compress_svd({'chi_max': 2})
            elif t == 'set_B':
                i = rng.randrange(L)
                B = cp.get_B(i, copy=False)
                cp.set_B(i, B * 2.0, form=None)
            else:
                continue
            ops_done.append('mps.' + t)
        except Exception as e:
            tb = traceback.extract_tb(sys.exc_info()[2])
            ops_done.append('mps.rejected.' + t)
        if obs_mps(psi) != ref:
            oracle.append((f'c03.mps.copy.{t}.original-changed', f'{t} on psi.copy() changed the original MPS'))
            ref = obs_mps(psi)
        if site_snap() != s0:
            oracle.append((f'c03.mps.{t}.site-mutated', 'site leg or site operator changed'))
            s0 = site_snap()
    # --- MPS.from_full must not change the tensor it is given (also when it already carries 'vL' and 'vR')
    try:
        if bc == 'finite' and L <= 4:
            theta = psi.get_theta(0, L)              # labels vL, p0.., vR
            perm = list(range(theta.rank))
            rng.shuffle(perm)
            theta = theta.transpose(perm)            # caller-owned tensor in an arbitrary leg order
            t0 = Hist.obs_arr(theta)
            t_fp = H.fp_arr(theta)
            phi = MPS.from_full([site] * L, theta, bc='finite', unit_cell_width=L)
            if Hist.obs_arr(theta) != t0:
                oracle.append(('c03.mps.from_full.argument-changed',
                               f'MPS.from_full(sites, psi) changed the tensor it was given (leg order {perm} -> '
                               f'{theta.get_leg_labels()})'))
            refphi = obs_mps(phi)
            theta *= 2.0
            if obs_mps(phi) != refphi:
                oracle.append(('c03.mps.from_full.aliases-argument', 'mutating the tensor given to from_full changed the MPS'))
            ops_done.append('mps.from_full')
    except Exception:
        if 'tenpy' not in traceback.format_exc():
            raise
        ops_done.append('mps.rejected.from_full')
    # --- enlarge_mps_unit_cell (in place on a copy): the original is unchanged; in-place MPS methods on one site of the
    #     enlarged state do not leak into the periodic image (the same Array object may be stored at j and j+L)
    if bc == 'infinite':
        try:
            ref = obs_mps(psi)
            big = psi.copy()
            big.enlarge_mps_unit_cell(2)
            img = [Hist.obs_arr(big._B[j]) for j in range(L, 2 * L)]
            big.apply_local_op(0, 'Sigmaz', unitary=True)
            if obs_mps(psi) != ref:
                oracle.append(('c03.mps.copy.enlarge_mps_unit_cell.original-changed', 'enlarge + apply_local_op on psi.copy() changed psi'))
            if [Hist.obs_arr(big._B[j]) for j in range(L, 2 * L)] != img:
                oracle.append(('c03.mps.enlarge_mps_unit_cell.image-site-changed',
                               'apply_local_op on site 0 of the enlarged state changed the tensor of site L'))
            ops_done.append('mps.enlarge')
        except Exception:
            if 'tenpy' not in traceback.format_exc():
                raise
            ops_done.append('mps.rejected.enlarge')
    # --- get_B(copy=False) returns the stored tensor (documented aliasing); copy=True an independent one
    i = rng.randrange(L)
    B_alias = psi.get_B(i, form=None, copy=False)
    B_copy = psi.get_B(i, form=None, copy=True)
    if B_alias is not psi._B[i]:
        oracle.append(('c03.mps.get_B.nocopy-not-stored-tensor', 'get_B(form=None, copy=False) did not return the stored tensor'))
    if Hist.mut_ids(H.fp_arr(B_copy)) & Hist.mut_ids(H.fp_arr(psi._B[i])):
        oracle.append(('c03.mps.get_B.copy-shares-state', 'get_B(copy=True) shares mutable state with the stored tensor'))
    ref = obs_mps(psi)
    B_copy *= 2.0
    if obs_mps(psi) != ref:
        oracle.append(('c03.mps.get_B.copy-aliases', 'mutating get_B(copy=True) changed the MPS'))
    ops_done.append('mps.get_B')
    # --- MPO constructor copies as well
    from tenpy.models.xxz_chain import XXZChain
    try:
        M = XXZChain(dict(L=max(L, 2), Jxx=1., Jz=0.5, hz=0.1, bc_MPS='finite', sort_charge=True))
        Hm = M.H_MPO
        Ws = [Hm.get_W(k, copy=True) for k in range(Hm.L)]
        refW = [Hist.obs_arr(W) for W in Hm._W]
        H2 = MPO(Hm.sites, Ws, bc=Hm.bc, IdL=Hm.IdL, IdR=Hm.IdR, max_range=Hm.max_range, mps_unit_cell_width=Hm.L)
        ref2 = [Hist.obs_arr(W) for W in H2._W]
        for W in Ws:
            W *= 2.0
        if [Hist.obs_arr(W) for W in H2._W] != ref2:
            oracle.append(('c03.mpo.init.aliases-arguments', 'mutating the tensors given to MPO() changed the MPO'))
        psi3 = MPS.from_product_state(Hm.sites, ['up', 'down'] * (Hm.L // 2) + ['up'] * (Hm.L % 2), bc='finite', unit_cell_width=Hm.L)
        r3 = obs_mps(psi3)
        Hm.expectation_value(psi3)
        Hm.apply_naively(psi3.copy())
        if obs_mps(psi3) != r3 or [Hist.obs_arr(W) for W in Hm._W] != refW:
            oracle.append(('c03.mpo.apply.operand-changed', 'MPO expectation_value / apply_naively(copy) changed an operand'))
        ops_done.append('mpo')
    except Exception as e:
        tb = traceback.format_exc()
        if 'tenpy' not in tb:
            raise
        ops_done.append('mpo.rejected')
    return dict(steps=[], fps=[], oracle=oracle, ops=ops_done, nobj=L)


# ------------------------------------------------------------------------------------------------------------------
# MPO level: a second live object derived from an MPO, then in-place methods on the derived object


def dense_mpo(H, npc):
    """the operator on one unit cell selected by IdL[0] / IdR[-1] (uses W tensors AND IdL/IdR together)"""
    if int(np.prod([st.dim for st in H.sites])) > 256:
        return ('too-large', )
    T = None
    for i in range(H.L):
        W = H._W[i].replace_labels(['p', 'p*'], [f'p{i}', f'p{i}*'])
        T = W if T is None else npc.tensordot(T, W, axes=('wR', 'wL'))
    a, b = H.IdL[0], H.IdR[-1]
    if a is None or b is None:
        return ('no-Id', )
    T = T.take_slice([int(a), int(b) % T.get_leg('wR').ind_len], ['wL', 'wR'])
    T = T.transpose([f'p{i}' for i in range(H.L)] + [f'p{i}*' for i in range(H.L)])
    d = T.to_ndarray()
    return (d.shape, np.round(d, 10).tobytes())


def obs_mpo(H, npc):
    Ws = []
    for W in H._W:
        Wn = W.transpose(['wL', 'wR', 'p', 'p*'])   # (leg order of the stored tensors is not an observable of the MPO)
        d = Wn.to_ndarray()
        Ws.append((d.shape, str(d.dtype), np.round(d, 10).tobytes(), tuple(l.to_qflat().tobytes() for l in Wn.legs),
                   tuple(int(l.qconj) for l in Wn.legs), Wn.qtotal.tobytes()))
    try:
        dense = dense_mpo(H, npc)
    except Exception as e:
        dense = ('ERR', type(e).__name__)
    return dict(IdL=[None if x is None else int(x) for x in H.IdL], IdR=[None if x is None else int(x) for x in H.IdR],
                chi=[int(c) for c in H.chi], W=Ws, dense=dense, L=H.L, bc=H.bc, grouped=H.grouped,
                max_range=None if H.max_range is None else float(H.max_range), hc=bool(H.explicit_plus_hc),
                sites=[id(x) for x in H.sites])


def diff_keys(a, b):
    return [k for k in a if a[k] != b[k]]


def run_mpo(case, npc, cy):
    from tenpy.networks.mpo import MPO, MPOGraph
    from tenpy.networks.site import SpinHalfSite
    from tenpy.networks.terms import TermList
    from tenpy.models.spins import SpinChain
    rng = random.Random(case['seed'])
    oracle, ops_done = [], []
    conserve = rng.choice(['Sz', 'Sz', 'parity', None])
    bc = rng.choice(['finite', 'finite', 'infinite'])
    L = rng.choice([2, 3, 4]) if bc == 'finite' else rng.choice([2, 4])
    live = []      # (name, MPO): every MPO ever made stays alive and observed

    def add(name, H):
        live.append([name, H, obs_mpo(H, npc)])
        return H

    def check(step, allowed=()):
        """every live MPO except `allowed` must be observably what it was"""
        for rec in live:
            name, H, snap = rec
            if any(H is a for a in allowed):
                rec[2] = obs_mpo(H, npc)
                continue
            now = obs_mpo(H, npc)
            if now != snap:
                oracle.append((f'c03.mpo.{step}.other-mpo-changed',
                               f'{step}: MPO `{name}` changed in {diff_keys(now, snap)}'))
                rec[2] = now

    # --- source 1: Hamiltonian of a model, virtual legs NOT sorted (so that sort_legcharges really permutes)
    M = SpinChain(dict(L=L, S=0.5, Jx=1., Jy=1., Jz=0.7, hz=0.3 if conserve != 'parity' else 0., hx=0.2 if conserve is None else 0.,
                       bc_MPS=bc, conserve=conserve, sort_mpo_legs=False))
    H = add('H', M.H_MPO)
    s = M.lat.mps_sites()[0]
    ops_done.append('mpo.model')
    # --- source 2: from_grids with caller-owned IdL / IdR lists
    grid = [['Id', 'Sp', 'Sm', 'Sz', 'Sz'], [None, None, None, None, 'Sm'], [None, None, None, None, 'Sp'],
            [None, None, None, None, 'Sz'], [None, None, None, None, 'Id']]
    if conserve in ('Sz', 'parity', None):
        IdL, IdR = [0] * (L + 1), [-1] * (L + 1)
        IdL0, IdR0 = list(IdL), list(IdR)
        grids = [[list(r) for r in grid] for _ in range(L)]
        grids0 = [[list(r) for r in g] for g in grids]
        try:
            Hg = add('from_grids', MPO.from_grids([s] * L, grids, bc, IdL, IdR, mps_unit_cell_width=L))
            if IdL != IdL0 or IdR != IdR0:
                oracle.append(('c03.mpo.from_grids.caller-IdL-IdR-changed',
                               f'MPO.from_grids(sites, grids, {bc!r}, IdL, IdR) changed the caller\'s lists: IdL {IdL0} -> {IdL}, IdR {IdR0} -> {IdR}'))
            if grids != grids0:
                oracle.append(('c03.mpo.from_grids.caller-grids-changed', 'MPO.from_grids changed the caller\'s grids'))
            before = obs_mpo(Hg, npc)
            IdL[1], IdR[1] = None, None      # the caller re-uses / edits its own lists
            if obs_mpo(Hg, npc) != before:
                oracle.append(('c03.mpo.from_grids.aliases-caller-IdL-IdR', 'editing the caller\'s IdL/IdR lists changed the MPO built by from_grids'))
            check('from_grids')
            ops_done.append('mpo.from_grids')
        except Exception as e:
            if 'tenpy' not in traceback.format_exc():
                raise
            ops_done.append('mpo.rejected.from_grids')
    # --- source 3: MPO(sites, Ws, bc, IdL, IdR) from caller-owned lists and tensors
    src = rng.choice([r[1] for r in live])
    Ws = [src.get_W(i, copy=True) for i in range(src.L)]
    myL, myR = list(src.IdL), list(src.IdR)
    myL0, myR0, W0 = list(myL), list(myR), [Hist.obs_arr(W) for W in Ws]
    H3 = add('MPO()', MPO(src.sites, Ws, src.bc, myL, myR, src.max_range, mps_unit_cell_width=src.unit_cell_width))
    if myL != myL0 or myR != myR0 or [Hist.obs_arr(W) for W in Ws] != W0:
        oracle.append(('c03.mpo.init.argument-changed', 'MPO(...) changed its IdL/IdR/Ws arguments'))
    before = obs_mpo(H3, npc)
    myL[rng.randrange(len(myL))] = None
    myR[0] = None
    if obs_mpo(H3, npc) != before:
        oracle.append(('c03.mpo.init.aliases-caller-IdL-IdR', 'editing the lists given as IdL/IdR to MPO(...) changed the MPO'))
    before = obs_mpo(H3, npc)
    for W in Ws:
        W *= 2.0
    Ws[0] = None
    if obs_mpo(H3, npc) != before:
        oracle.append(('c03.mpo.init.aliases-caller-Ws', 'mutating the tensors / list given as Ws to MPO(...) changed the MPO'))
    check('MPO()')
    ops_done.append('mpo.init')
    # --- source 4: MPOGraph
    try:
        tl = TermList([[('Sz', 0), ('Sz', 1)], [('Sz', 0)]], [0.5, 0.25])
        g = MPOGraph.from_term_list(tl, src.sites, src.bc, unit_cell_width=src.unit_cell_width)
        add('graph', g.build_MPO())
        check('build_MPO')
        ops_done.append('mpo.graph')
    except Exception:
        if 'tenpy' not in traceback.format_exc():
            raise
        ops_done.append('mpo.rejected.graph')

    # --- derive second objects by the non-in-place methods, then run in-place methods on the derived object
    derive = ['dagger', 'copy', 'add', 'make_U_I', 'make_U_II', 'extract_segment', 'ctor', 'plus_identity']
    inplace = ['sort_legcharges', 'sort_legcharges', 'group_sites', 'enlarge', 'set_W', 'edit_Id']
    for _ in range(case.get('nderive', 6)):
        name0, A, _ = rng.choice(live[:6])
        dv = rng.choice(derive)
        try:
            if dv == 'dagger':
                D = A.dagger()
            elif dv == 'copy':
                D = A.copy()
            elif dv == 'add':
                D = A + A
            elif dv == 'make_U_I':
                D = A.make_U_I(0.1)
            elif dv == 'make_U_II':
                D = A.make_U_II(0.1)
            elif dv == 'extract_segment':
                D = A.extract_segment(0, A.L - 1)
            elif dv == 'plus_identity':
                D = A.plus_identity(1., 0.5)
            else:
                D = MPO(A.sites, A._W, A.bc, A.IdL, A.IdR, A.max_range, mps_unit_cell_width=A.unit_cell_width)
        except Exception:
            if 'tenpy' not in traceback.format_exc():
                raise
            ops_done.append('mpo.rejected.' + dv)
            check(dv)
            continue
        add(f'{dv}({name0})', D)
        check(dv)                       # deriving is not in place: nothing else may change
        ops_done.append('mpo.' + dv)
        for ip in rng.sample(inplace, 2):
            step = f'{dv}.{ip}'
            try:
                if ip == 'sort_legcharges':
                    D.sort_legcharges()
                elif ip == 'group_sites':
                    if D.L % 2 or D.grouped > 1:
                        continue
                    D.group_sites(2)
                elif ip == 'enlarge':
                    if D.finite or D.L > 4:
                        continue
                    D.enlarge_mps_unit_cell(2)
                elif ip == 'set_W':
                    i = rng.randrange(D.L)
                    D.set_W(i, D.get_W(i, copy=True) * 2.0)
                else:
                    D.IdL[rng.randrange(len(D.IdL))] = None    # direct edit of the derived object's own list
            except Exception:
                if 'tenpy' not in traceback.format_exc():
                    raise
                ops_done.append('mpo.rejected.' + ip)
            else:
                ops_done.append('mpo.' + ip)
            # in place on D: only D may change. Documented exception: a derived object that IS a shallow copy by
            # documentation shares nothing but the tensors - the check treats `copy` like every other derivation.
            n_before = len(oracle)
            check(step, allowed=[D])
            # give the failure a signature that names derivation + in-place method + what was hit
            for k in range(n_before, len(oracle)):
                oracle[k] = (f'c03.mpo.{dv}.{ip}.original-changed', oracle[k][1])
    return dict(steps=[], fps=[], oracle=oracle, ops=ops_done, nobj=len(live))



# ------------------------------------------------------------------------------------------------------------------
# coverage round: every MPS/MPO getter, derivation, constructor and in-place method against a set of live objects


def obs_mps_full(p):
    def arr(x):
        if x is None:
            return None
        if isinstance(x, np.ndarray):
            return (x.shape, np.round(x, 10).tobytes())
        return Hist.obs_arr(x)
    def tensor(B):
        # (the order in which a stored tensor keeps its legs is not an observable of the MPS: everything accesses legs
        #  by label, and e.g. TransferMatrix / group_sites re-order the stored tensors' legs in place)
        try:
            B = B.transpose(p._B_labels)
        except Exception:
            pass
        return Hist.obs_arr(B)
    try:
        qtot = [int(x) for x in p.get_total_charge()]
    except Exception as e:
        qtot = type(e).__name__
    # identities: a function that is not in place must not even replace the stored tensor / singular-value objects
    ids = ([id(B) for B in p._B], [id(x) for x in p._S], id(p._B), id(p._S))
    return dict(ids=ids, total_charge=qtot, B=[tensor(B) for B in p._B], S=[arr(x) for x in p._S], form=[tuple(f) if f is not None else None for f in p.form],
                norm=repr(round(float(np.real(p.norm)), 10)), bc=p.bc, L=p.L, sites=[id(x) for x in p.sites], grouped=p.grouped,
                chi=[int(c) for c in p.chi], dtype=str(p.dtype))


def run_net(case, npc, cy):
    from tenpy.networks.mps import MPS, MPSEnvironment, TransferMatrix
    from tenpy.networks.mpo import MPO, MPOEnvironment
    from tenpy.networks.site import SpinHalfSite
    from tenpy.models.spins import SpinChain
    rng = random.Random(case['seed'])
    oracle, ops_done = [], []
    conserve = rng.choice(['Sz', 'Sz', 'parity', None, None])
    bc = rng.choice(['finite', 'finite', 'infinite'])
    L = rng.choice([2, 3, 4]) if bc == 'finite' else rng.choice([2, 4])
    M = SpinChain(dict(L=L, S=0.5, Jx=1., Jy=1., Jz=0.7, hz=0.3 if conserve != 'parity' else 0., bc_MPS=bc, conserve=conserve,
                       sort_mpo_legs=rng.random() < 0.5))
    sites = M.lat.mps_sites()
    site = sites[0]
    Hm = M.H_MPO
    live_s, live_o = [], []

    def add_s(name, p):
        live_s.append([name, p, obs_mps_full(p)])
        return p

    def add_o(name, H):
        live_o.append([name, H, obs_mpo(H, npc)])
        return H

    def check(step, allowed=()):
        for recs, obs in ((live_s, obs_mps_full), (live_o, lambda H: obs_mpo(H, npc))):
            for rec in recs:
                name, X, snap = rec
                try:
                    now = obs(X)
                except Exception as e:
                    now = {'ERR': type(e).__name__}
                if any(X is a for a in allowed):
                    rec[2] = now
                elif now != snap:
                    keys = [k for k in now if now.get(k) != snap.get(k)]
                    extra = ''
                    if 'B' in keys and 'B' in snap and len(now['B']) == len(snap['B']):
                        comp = ('dense', 'legs', 'labels', 'qtotal', 'dtype')
                        extra = ' ' + str([(i, [c for c, x, y in zip(comp, a, b) if x != y])
                                           for i, (a, b) in enumerate(zip(now['B'], snap['B'])) if a != b])
                    oracle.append((f'c03.net.{step}.other-object-changed', f'{step}: `{name}` changed in {keys}{extra}'))
                    rec[2] = now

    def tenpy_error():
        return 'tenpy' in traceback.format_exc()

    state = [rng.choice(['up', 'down']) for _ in range(L)]
    if conserve == 'Sz' and bc == 'infinite':
        state = ['up', 'down'] * (L // 2)
    psi = MPS.from_product_state(sites, state, bc=bc, unit_cell_width=L)
    # entangle through a few two-site gates so that bonds are non-trivial
    try:
        from tenpy.algorithms.tebd import TEBDEngine
        eng = TEBDEngine(psi, M, dict(dt=0.2, N_steps=2, order=2, trunc_params=dict(chi_max=4, svd_min=1e-10)))
        eng.run_evolution(2, 0.2)
    except Exception:
        if not tenpy_error():
            raise
    # deliberate behaviour with its own signature: the environment constructor canonicalises a non-canonical iMPS ket
    # IN PLACE (with a warning) when bra is ket
    if bc == 'infinite':
        try:
            q = psi.copy()
            if np.linalg.norm(q.norm_test()) > 1.e-10:
                ref = obs_mps_full(q)
                MPOEnvironment(q, Hm, q)
                if obs_mps_full(q) != ref:
                    oracle.append(('c03.net.MPOEnvironment.init-canonicalizes-noncanonical-ket',
                                   'MPOEnvironment(psi, H, psi) on an infinite MPS with norm error > 1e-10 calls '
                                   'psi.canonical_form() on its argument (B and S tensors change; a warning is issued)'))
                ops_done.append('net.MPOEnvironment.noncanonical')
        except Exception:
            if not tenpy_error():
                raise
        psi.canonical_form()
    add_s('psi', psi)
    add_o('H', Hm)
    H_before = obs_mpo(Hm, npc)
    ops_done.append('net.setup')

    # ---------------- observers: nothing may change; returned objects are the caller's
    def observers(p):
        i = rng.randrange(p.L)
        out = []
        calls = [
            ('get_SL', lambda: p.get_SL(i)), ('get_SR', lambda: p.get_SR(i)),
            ('get_B.copy', lambda: p.get_B(i, form=rng.choice(['A', 'B', 'C', None]), copy=True)),
            ('get_theta', lambda: p.get_theta(i if p.finite and i < p.L - 1 or not p.finite else 0, 2 if p.L >= 2 else 1)),
            ('get_theta1', lambda: p.get_theta(i, 1, formL=rng.choice([0., 1.]), formR=rng.choice([0., 1.]))),
            ('expectation_value', lambda: p.expectation_value('Sz')),
            ('expectation_value_multi', lambda: p.expectation_value_multi_sites(['Sz', 'Sz'], 0) if p.L >= 2 else None),
            ('correlation_function', lambda: p.correlation_function('Sz', 'Sz')),
            ('expectation_value_term', lambda: p.expectation_value_term([('Sz', 0), ('Sz', 1)])),
            ('entanglement_entropy', lambda: p.entanglement_entropy()),
            ('entanglement_entropy_n2', lambda: p.entanglement_entropy(n=2)),
            ('entanglement_spectrum', lambda: p.entanglement_spectrum(by_charge=True)),
            ('entanglement_entropy_segment', lambda: p.entanglement_entropy_segment([0], None)),
            ('get_rho_segment', lambda: p.get_rho_segment([0])),
            ('mutinf_two_site', lambda: p.mutinf_two_site(max_range=2)),
            ('overlap', lambda: p.overlap(p)),
            ('norm_test', lambda: p.norm_test()),
            ('get_total_charge', lambda: p.get_total_charge()),
            ('probability_per_charge', lambda: p.probability_per_charge(min(1, p.L - 1))),
            ('average_charge', lambda: p.average_charge(min(1, p.L - 1))),
            ('charge_variance', lambda: p.charge_variance(min(1, p.L - 1))),
            ('sample_measurements', lambda: p.sample_measurements(rng=np.random.default_rng(1))),
            ('correlation_length', lambda: p.correlation_length() if not p.finite else None),
            ('str', lambda: str(p)),
            ('dim', lambda: (p.dim, p.chi, p.nontrivial_bonds)),
            ('H.expectation_value', lambda: Hm.expectation_value(p) if p.L == Hm.L and p.grouped == 1 else None),
            ('H.variance', lambda: Hm.variance(p) if p.L == Hm.L and p.finite and p.grouped == 1 else None),
            ('H.prefactor', lambda: Hm.prefactor(0, ['Sz', 'Sz']) if Hm.L >= 2 else None),
            ('H.to_TermList', lambda: Hm.to_TermList(['Id', 'Sz', 'Sp', 'Sm']) if Hm.finite else None),
            ('H.is_hermitian', lambda: Hm.is_hermitian()),
            ('H.is_equal', lambda: Hm.is_equal(Hm)),
            ('H.get_W', lambda: Hm.get_W(0, copy=True)),
            ('H.chi', lambda: (Hm.chi, Hm.get_IdL(0), Hm.get_IdR(Hm.L - 1))),
            ('H.expectation_value_TM', lambda: Hm.expectation_value_TM(p) if not p.finite and p.L == Hm.L and p.grouped == 1 else None),
            ('H.expectation_value_power', lambda: Hm.expectation_value_power(p) if p.finite and p.L == Hm.L and p.grouped == 1 else None),
            ('expectation_value_terms_sum', lambda: p.expectation_value_terms_sum(Hm.to_TermList(['Id', 'Sz', 'Sp', 'Sm']))
             if p.finite and p.grouped == 1 and p.L == Hm.L else None),
            ('term_correlation_function_right', lambda: p.term_correlation_function_right([('Sz', 0)], [('Sz', 0)]) if p.grouped == 1 else None),
            ('entanglement_entropy_segment2', lambda: p.entanglement_entropy_segment2([0]) if p.finite else None),
            ('overlap_translate_finite', lambda: p.overlap_translate_finite(p, shift=1) if p.finite else None),
            ('correlation_length_charge_sectors', lambda: p.correlation_length_charge_sectors() if not p.finite else None),
            ('TransferMatrix', lambda: TransferMatrix(p, p, charge_sector=0).eigenvectors(num_ev=1) if not p.finite else None),
        ]
        rng.shuffle(calls)
        for name, f in calls[:10]:
            try:
                r = f()
            except Exception:
                if not tenpy_error():
                    raise
                ops_done.append('net.rejected.' + name)
                check(name)
                continue
            ops_done.append('net.' + name)
            check(name)
            # what was returned belongs to the caller (except the documented views get_SL/get_SR/get_B(copy=False))
            if name not in ('get_SL', 'get_SR'):
                try:
                    for x in (r if isinstance(r, (list, tuple)) else [r]):
                        if isinstance(x, npc.Array) and x.stored_blocks:
                            x *= 3.0
                            x._data[0][...] = 5.0
                        elif isinstance(x, np.ndarray) and x.dtype.kind in 'fc' and x.flags.writeable:
                            x += 1.0
                except Exception:
                    pass
                check(name + '.returned-object-aliases')

    observers(psi)

    # ---------------- derivations (new objects) and constructors given caller-owned objects
    def derive(p):
        kind = rng.choice(['copy', 'add', 'get_grouped_mps', 'extract_segment', 'extract_enlarged_segment', 'extract_enlarged_segment',
                           'spatial_inversion', 'from_Bflat', 'from_product_state',
                           'from_lat_product_state', 'from_singlets', 'from_full', 'ctor', 'from_desired_bond_dimension',
                           'from_random_unitary_evolution', 'project_onto_charge_sector', 'H.apply_naively'])
        if kind == 'copy':
            return kind, p.copy()
        if kind == 'add':
            return kind, p.add(p, 0.6, 0.8)
        if kind == 'get_grouped_mps':
            return kind, p.get_grouped_mps(2)
        if kind == 'extract_segment':
            # also the full range (nothing to cut off)
            a, b = (0, p.L - 1) if rng.random() < 0.5 else (0, max(0, p.L - 2))
            return kind, p.extract_segment(a, b)
        if kind == 'extract_enlarged_segment':
            if p.grouped > 1 or p.L < 2:
                return kind, None
            seg = add_s(f'segment({p.bc})', p.extract_segment(0, p.L - 1))
            check('derive.extract_segment')
            add = 0 if p.finite else rng.choice([0, 1])
            big, f, l = seg.extract_enlarged_segment(p, p, 0, p.L - 1, add_unitcells=add)
            return kind, big
        if kind == 'spatial_inversion':
            q = p.copy()
            return kind, q.spatial_inversion()
        if kind == 'from_Bflat':
            Bf = [np.ones((2, 1, 1)) * (k + 1.) for k in range(p.L)]
            Bf0 = [x.copy() for x in Bf]
            q = MPS.from_Bflat([SpinHalfSite(None)] * p.L, Bf, bc='finite', unit_cell_width=p.L)
            if any(not np.array_equal(x, y) for x, y in zip(Bf, Bf0)):
                oracle.append(('c03.net.from_Bflat.argument-changed', 'from_Bflat changed the arrays it was given'))
            ref = obs_mps_full(q)
            for x in Bf:
                x += 1.0
            if obs_mps_full(q) != ref:
                oracle.append(('c03.net.from_Bflat.aliases-argument', 'modifying the arrays given to from_Bflat changed the MPS'))
            return kind, None
        if kind == 'from_product_state':
            st = [rng.choice(['up', 'down']) for _ in range(p.L)]
            st0 = list(st)
            q = MPS.from_product_state(sites[:1] * p.L, st, bc=p.bc, unit_cell_width=p.L)
            if st != st0:
                oracle.append(('c03.net.from_product_state.argument-changed', 'from_product_state changed the list it was given'))
            return kind, q if p.grouped == 1 else None
        if kind == 'from_lat_product_state':
            return kind, MPS.from_lat_product_state(M.lat, [['up']] if L % 2 else [['up'], ['down']])
        if kind == 'from_singlets':
            if p.L < 2:
                return kind, None
            pairs = [(0, 1)]
            q = MPS.from_singlets(SpinHalfSite(conserve), p.L if p.L % 2 == 0 else 2, pairs, bc='finite', unit_cell_width=p.L if p.L % 2 == 0 else 2)
            if pairs != [(0, 1)]:
                oracle.append(('c03.net.from_singlets.argument-changed', 'from_singlets changed the list it was given'))
            return kind, None
        if kind == 'from_full':
            if not p.finite or p.L > 4 or p.grouped > 1:
                return kind, None
            th = p.get_theta(0, p.L)
            t0 = Hist.obs_arr(th)
            q = MPS.from_full(p.sites, th, bc='finite', unit_cell_width=p.L)
            if Hist.obs_arr(th) != t0:
                oracle.append(('c03.net.from_full.argument-changed', 'from_full changed the tensor it was given'))
            return kind, q
        if kind == 'ctor':
            Bs = [p.get_B(k, form=None, copy=False) for k in range(p.L)]     # the stored tensors themselves
            Ss = list(p._S)
            form = [None if f is None else tuple(f) for f in p.form]
            q = MPS(p.sites, Bs, Ss, p.bc, form, p.norm, unit_cell_width=p.unit_cell_width, understood_shift_symmetry=True)
            return kind, q
        if kind == 'from_desired_bond_dimension':
            if conserve is not None:
                return kind, None
            return kind, MPS.from_desired_bond_dimension(sites, 2, bc=bc, unit_cell_width=L)
        if kind == 'from_random_unitary_evolution':
            st = ['up', 'down'] * (L // 2) + ['up'] * (L % 2)
            return kind, MPS.from_random_unitary_evolution(sites, 2, st, bc=bc)
        if kind == 'project_onto_charge_sector':
            if conserve != 'Sz' or not p.finite:
                return kind, None
            pl = np.ones((L, 2)) / np.sqrt(2.)
            pl0 = pl.copy()
            r = MPS.project_onto_charge_sector(sites, pl, (0,) if L % 2 == 0 else (1,), unit_cell_width=L)
            if not np.array_equal(pl, pl0):
                oracle.append(('c03.net.project_onto_charge_sector.argument-changed', 'project_onto_charge_sector changed its p_state_list'))
            return kind, r
        q = p.copy()
        if q.L != Hm.L or q.grouped != 1:
            return kind, None
        Hm.apply_naively(q)
        return kind, q

    def inplace(q, dkind):
        """in-place methods of the derived object: only it may change"""
        methods = ['apply_local_op', 'apply_local_op_unitary', 'apply_product_op', 'apply_local_term', 'swap_sites', 'permute_sites',
                   'canonical_form', 'canonical_form_qr', 'group_sites', 'group_split', 'compress_svd', 'compress', 'H.apply', 'H.apply_zipup',
                   'enlarge_mps_unit_cell', 'roll_mps_unit_cell', 'enlarge_chi', 'perturb', 'gauge_total_charge', 'set_B', 'set_SL',
                   'set_SR', 'convert_form', 'set_svd_theta', 'spatial_inversion', 'increase_L']
        for m in rng.sample(methods, 4):
            plain = q.L == Hm.L and q.grouped == 1 and len(q.sites) and q.sites[0] is site
            try:
                if m == 'apply_local_op':
                    q.apply_local_op(rng.randrange(q.L), 'Sz' if plain else q.sites[0].opnames.copy().pop(), unitary=False)
                elif m == 'apply_local_op_unitary':
                    if not plain:
                        continue
                    q.apply_local_op(rng.randrange(q.L), site.get_op('Sz') * 2.0, unitary=True, renormalize=True)
                elif m == 'apply_product_op':
                    if not plain:
                        continue
                    q.apply_product_op([site.get_op('Sz') * 2.0] * q.L, unitary=True)
                elif m == 'apply_local_term':
                    if not plain or q.L < 2:
                        continue
                    q.apply_local_term([('Sz', 0), ('Sz', 1)], canonicalize=q.finite)
                elif m == 'swap_sites':
                    if q.L < 2:
                        continue
                    q.swap_sites(rng.randrange(q.L - 1), swap_op=None)
                elif m == 'permute_sites':
                    if q.L < 2:
                        continue
                    perm = list(range(q.L))
                    rng.shuffle(perm)
                    q.permute_sites(perm, swap_op=None)
                elif m == 'canonical_form':
                    q.canonical_form(renormalize=rng.random() < 0.5)
                elif m == 'canonical_form_qr':
                    if q.finite:
                        q.canonical_form_finite(renormalize=False, envs_to_update=None)
                    else:
                        q.canonical_form_infinite2()
                elif m == 'group_sites':
                    if q.L % 2 or q.grouped > 1:
                        continue
                    q.group_sites(2)
                elif m == 'group_split':
                    if q.grouped == 1:
                        continue
                    q.group_split()
                elif m == 'compress_svd':
                    q.compress_svd({'chi_max': 3})
                elif m == 'compress':
                    q.compress({'compression_method': 'SVD', 'trunc_params': {'chi_max': 3}})
                elif m == 'H.apply':
                    if not plain:
                        continue
                    Hm.apply(q, {'compression_method': rng.choice(['SVD', 'zip_up']), 'trunc_params': {'chi_max': 4}})
                elif m == 'H.apply_zipup':
                    if not plain:
                        continue
                    Hm.apply_zipup(q, {'trunc_params': {'chi_max': 4}})
                elif m == 'enlarge_mps_unit_cell':
                    if q.finite or q.L > 4:
                        continue
                    q.enlarge_mps_unit_cell(2)
                elif m == 'roll_mps_unit_cell':
                    if q.finite:
                        continue
                    q.roll_mps_unit_cell(1)
                elif m == 'enlarge_chi':
                    q.enlarge_chi([c + 1 for c in q.chi])
                elif m == 'perturb':
                    q.perturb({'N_steps': 1, 'trunc_params': {'chi_max': 4}}, close_1=True, canonicalize=True)
                elif m == 'gauge_total_charge':
                    q.gauge_total_charge()
                elif m == 'set_B':
                    k = rng.randrange(q.L)
                    q.set_B(k, q.get_B(k, form=None, copy=True) * 2.0, form=None)
                elif m == 'set_SL':
                    k = rng.randrange(q.L)
                    q.set_SL(k, np.array(q.get_SL(k)) * 0.5)
                elif m == 'set_SR':
                    k = rng.randrange(q.L)
                    q.set_SR(k, np.array(q.get_SR(k)) * 0.5)
                elif m == 'convert_form':
                    q.convert_form(rng.choice(['A', 'B', 'C']))
                elif m == 'set_svd_theta':
                    if q.L < 2 or q.grouped > 1:
                        continue
                    th = q.get_theta(0, 2).combine_legs([['vL', 'p0'], ['p1', 'vR']], qconj=[+1, -1])
                    q.set_svd_theta(0, th, {'chi_max': 3})
                elif m == 'spatial_inversion':
                    q.spatial_inversion()
                else:
                    if q.finite or not hasattr(q, 'increase_L'):
                        continue
                    q.increase_L(q.L + 1)
            except Exception:
                if not tenpy_error():
                    raise
                ops_done.append('net.rejected.' + m)
            else:
                ops_done.append('net.' + m)
            n0 = len(oracle)
            check(f'{dkind}.{m}', allowed=[q])
            for k in range(n0, len(oracle)):
                oracle[k] = (f'c03.net.{dkind}.{m}.original-changed', oracle[k][1])

    for _ in range(case.get('nderive', 5)):
        name0, p, _ = rng.choice(live_s[:3])
        try:
            dkind, q = derive(p)
        except Exception:
            if not tenpy_error():
                raise
            ops_done.append('net.rejected.derive')
            check('derive')
            continue
        ops_done.append('net.derive.' + dkind)
        check('derive.' + dkind)
        if q is None:
            continue
        owner = next((n for n, X, _ in live_s if X is q), None)
        if owner is not None:
            # a function that is not in place handed back one of the live objects itself
            ops_done.append('net.derive.' + dkind + '.returned-operand')
            oracle.append((f'c03.net.{dkind}.returns-its-operand',
                           f'{dkind}: the returned MPS IS the live object `{owner}` (not a copy): in-place methods on the '
                           'result change the operand'))
            continue
        add_s(f'{dkind}({name0})', q)
        inplace(q, dkind)
        if rng.random() < 0.4:
            observers(q)

    # ---------------- two-operand functions on MPS whose total charge is gauged differently / in different sectors
    def pair_functions(a, b, tag):
        fs = [('overlap', lambda: a.overlap(b)), ('overlap.rev', lambda: b.overlap(a)),
              ('add', lambda: a.add(b, 0.6, 0.8)), ('add.rev', lambda: b.add(a, 0.6, 0.8)),
              ('MPSEnvironment', lambda: MPSEnvironment(a, b)),
              ('MPSEnvironment.use', lambda: (lambda e: (e.get_LP(a.L - 1, store=True), e.get_RP(0, store=True), e.full_contraction(0),
                                                         e.expectation_value('Sz')))(MPSEnvironment(a, b))),
              ('MPSEnvironment.rev', lambda: MPSEnvironment(b, a).full_contraction(0)),
              ('MPOEnvironment', lambda: MPOEnvironment(a, Hm, b).full_contraction(0) if a.L == Hm.L and a.finite else None),
              ('TransferMatrix', lambda: TransferMatrix(a, b, charge_sector=None, form=None) if not a.finite else None),
              ('expectation_value.bra', lambda: MPSEnvironment(a, b).expectation_value_term([('Sz', 0)])),
              ('correlation_function.bra', lambda: MPSEnvironment(a, b).correlation_function('Sz', 'Sz')),
              ('apply_naively', lambda: Hm.apply_naively(b.copy()) if b.L == Hm.L and b.grouped == 1 else None)]
        rng.shuffle(fs)
        for name, f in fs:
            try:
                f()
            except Exception:
                if not tenpy_error():
                    raise
                ops_done.append(f'net.rejected.pair.{name}')
            else:
                ops_done.append(f'net.pair.{name}')
            n0 = len(oracle)
            check(f'pair.{tag}.{name}')
            for k in range(n0, len(oracle)):
                oracle[k] = (f'c03.net.pair.{name}.operand-changed', oracle[k][1])

    if conserve is not None and bc != 'infinite':
        try:
            up = ['up'] * L
            dn1 = ['up'] * L
            dn1[min(1, L - 1)] = 'down'
            a = MPS.from_product_state(sites, up, bc=bc, unit_cell_width=L)
            a.apply_local_op(min(1, L - 1), 'Sm')                 # same state as `b`, total charge carried by B.qtotal
            b = MPS.from_product_state(sites, dn1, bc=bc, unit_cell_width=L)
            c = MPS.from_product_state(sites, up, bc=bc, unit_cell_width=L)   # another charge sector
            d = psi.copy()
            d.gauge_total_charge()
            e = psi.copy()
            e.apply_local_op(0, 'Sp' if state[0] == 'down' else 'Sm')
            pairs = [('Sm-vs-direct', a, b), ('sectors', b, c), ('gauged', psi, d), ('charged-op', psi, e), ('charged-op2', e, a)]
            for nm, x in (('a', a), ('b', b), ('c', c), ('d', d), ('e', e)):
                add_s('pair.' + nm, x)
            for tag, x, y in rng.sample(pairs, 3):
                pair_functions(x, y, tag)
            if L >= 3:
                sa, sb = a.extract_segment(1, L - 1), b.extract_segment(1, L - 1)
                add_s('pair.seg_a', sa)
                add_s('pair.seg_b', sb)
                pair_functions(sa, sb, 'segments')
        except Exception:
            if not tenpy_error():
                raise
            ops_done.append('net.rejected.pairs')
    elif conserve is not None:
        try:
            sa = psi.extract_segment(0, L - 1)
            sb = psi.copy()
            sb.apply_local_op(0, 'Sp' if state[0] == 'down' else 'Sm')
            sb = sb.extract_segment(0, L - 1)
            add_s('pair.seg_a', sa)
            add_s('pair.seg_b', sb)
            pair_functions(sa, sb, 'segments.infinite')
        except Exception:
            if not tenpy_error():
                raise
            ops_done.append('net.rejected.pairs')

    # ---------------- environments hold references to psi / H: nothing they do may change them
    try:
        p = psi
        env = MPSEnvironment(p, p)
        for k in range(p.L):
            env.get_LP(k, store=True)
            env.get_RP(k, store=True)
        LP = env.get_LP(p.L - 1)
        LP *= 2.0                                   # the cached environment tensor, not part of psi
        env.full_contraction(0)
        env.expectation_value('Sz')
        env.del_LP(p.L - 1)
        env.del_RP(0)
        env.set_LP(0, env.get_LP(0), 0)
        env.get_initialization_data()
        env.clear()
        check('MPSEnvironment')
        ops_done.append('net.MPSEnvironment')
        if p.L == Hm.L:
            e2 = MPOEnvironment(p, Hm, p)
            for k in range(p.L):
                e2.get_LP(k, store=True)
                e2.get_RP(k, store=True)
            e2.full_contraction(0)
            RP = e2.get_RP(0)
            RP *= 2.0
            e2.del_RP(0)
            e2.del_LP(p.L - 1)
            e2.get_initialization_data()
            e2.clear()
            check('MPOEnvironment')
            ops_done.append('net.MPOEnvironment')
    except Exception:
        if not tenpy_error():
            raise
        ops_done.append('net.rejected.environment')
        check('environment')
    # ---------------- remaining MPO constructors / derivations
    try:
        Wf = [Hm.get_W(k).to_ndarray() for k in range(Hm.L)] if False else None
        U = Hm.make_U(0.05, rng.choice(['I', 'II']))
        add_o('make_U', U)
        check('make_U')
        if Hm.finite:
            d = Hm.distance(Hm) if hasattr(Hm, 'distance') else None
            Hm.overlap(Hm)
        check('H.overlap')
        ops_done.append('net.mpo-derivations')
    except Exception:
        if not tenpy_error():
            raise
        ops_done.append('net.rejected.mpo-derivations')
        check('mpo-derivations')
    try:
        Wflat = [Hm.get_W(k).transpose(['wL', 'wR', 'p', 'p*']).to_ndarray() for k in range(Hm.L)]
        Wflat0 = [x.copy() for x in Wflat]
        myIdL, myIdR = list(Hm.IdL), list(Hm.IdR)
        Hw = add_o('from_Wflat', MPO.from_Wflat(sites, Wflat, bc=bc, IdL=myIdL, IdR=myIdR, unit_cell_width=L))
        if any(not np.array_equal(x, y) for x, y in zip(Wflat, Wflat0)) or myIdL != list(Hm.IdL) or myIdR != list(Hm.IdR):
            oracle.append(('c03.net.from_Wflat.argument-changed', 'MPO.from_Wflat changed the arrays / lists it was given'))
        ref = obs_mpo(Hw, npc)
        for x in Wflat:
            x += 1.0
        myIdL[0] = None
        if obs_mpo(Hw, npc) != ref:
            oracle.append(('c03.net.from_Wflat.aliases-argument', 'modifying the arrays / lists given to MPO.from_Wflat changed the MPO'))
        check('from_Wflat')
        ops_done.append('net.from_Wflat')
    except Exception:
        if not tenpy_error():
            raise
        ops_done.append('net.rejected.from_Wflat')
    try:
        coeff = np.array([0.5, 0.25] + [0.0] * (L - 2))[:L]
        c0 = coeff.copy()
        Wp = MPO.from_wavepacket(sites, coeff, 'Sz', unit_cell_width=L) if bc == 'finite' else None
        if not np.array_equal(coeff, c0):
            oracle.append(('c03.net.from_wavepacket.argument-changed', 'MPO.from_wavepacket changed its coefficient array'))
        check('from_wavepacket')
        ops_done.append('net.from_wavepacket')
    except Exception:
        if not tenpy_error():
            raise
        ops_done.append('net.rejected.from_wavepacket')
    return dict(steps=[], fps=[], oracle=oracle, ops=ops_done, nobj=len(live_s) + len(live_o))



def main(inp, outp):
    import tenpy
    from tenpy.tools import optimization
    from tenpy.linalg import charges as ch
    from tenpy.linalg import np_conserved as npc
    optimization.set_level(0)
    cy = bool(optimization.have_cython_functions)
    cases = json.load(open(inp))
    results = []
    for case in cases:
        try:
            if case.get('kind') == 'mps':
                results.append(run_mps(case, npc, cy))
            elif case.get('kind') == 'mpo':
                results.append(run_mpo(case, npc, cy))
            elif case.get('kind') == 'net':
                results.append(run_net(case, npc, cy))
            else:
                w = Walk(case, npc, ch, cy)
                H = w.run()
                if case.get('probe'):
                    H.oracle.extend(run_probe(w, case['probe']))
                results.append(dict(steps=H.steps, fps=H.fps, oracle=[list(x) for x in H.oracle], ops=H.ops, nobj=len(H.A),
                                    changed=H.changed, targets=H.targets))
        except Exception:
            results.append({'crash': traceback.format_exc()[-2500:]})
    meta = dict(have_cython=cy, tenpy_file=tenpy.__file__)
    json.dump(dict(meta=meta, results=results), open(outp, 'w'))


if __name__ == '__main__':
    main(sys.argv[1], sys.argv[2])
