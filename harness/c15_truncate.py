"""C15, part 1: `truncate`, `_combine_constraints`, `TruncationError` — real code vs Lean model vs oracle.

Exactness.  Every float is a dyadic rational; spectrum and thresholds are handed to the model and to the
oracle as those exact `Fraction`s.  The real code compares floats (logs, squares, running sums); a comparison
whose exact margin is below the rounding noise is *ambiguous*: the oracle then accepts every resolution of the
ambiguous comparisons (brute force over all of them), the model is run with thresholds nudged to either side.
Comparisons with a clear margin — including exact ties that the float code decides exactly (equal floats have
equal logs; sums of few-bit dyadics are exact) — are compared strictly.

Independent oracle = the documented property stated directly: enumerate all `n` cuts of the value-sorted
spectrum, filter by the constraints in documented priority (a constraint no remaining cut satisfies is
ignored), keep as many values as allowed.  It shares no code with the model and never looks at logs.
"""
import itertools
import math
import time
import warnings
from fractions import Fraction as F

import numpy as np

from vlib import core

TINY = F(1.0e-100)
ORDER = ['chi_max', 'chi_min', 'degeneracy_tol', 'svd_min', 'trunc_cut']
DOC_DEFAULTS = {'chi_max': 100, 'chi_min': None, 'degeneracy_tol': None, 'svd_min': 1.0e-14, 'trunc_cut': 1.0e-14}
ETA = F(1, 2 ** 30)  # relative nudge of a threshold for the model variants of an ambiguous case
MAX_AMB = 10
LOGNOISE = 1e-14  # bound on the rounding noise of `logS[i] - logS[i-1]`, relative to the size of the logs


def fr(x):
    return F(float(x))


def rs(q):
    q = F(q)
    return str(q.numerator) if q.denominator == 1 else f'{q.numerator}/{q.denominator}'


def pr(s):
    return F(s)


# --------------------------------------------------------------------------------------------
# real code


def run_impl(case):
    from tenpy.linalg.truncation import truncate
    S = np.array(case['S'], dtype=np.float64)
    S0 = S.copy()
    opts = dict(case['opts'])
    if case.get('as_config'):
        from tenpy.tools.params import asConfig
        opts = asConfig(opts, 'truncation')
    out = {}
    with warnings.catch_warnings(record=True) as w:
        warnings.simplefilter('always')
        try:
            mask, norm_new, err = truncate(S, opts)
        except (ValueError, IndexError) as e:
            return {'raise': type(e).__name__}
    msgs = [str(x.message) for x in w if issubclass(x.category, UserWarning)]
    out['dropped'] = [m.split('constraint for ')[1] for m in msgs if m.startswith("truncation: can't satisfy")]
    out['warn_small'] = any('no Schmidt value above' in m for m in msgs)
    out['warn_neg'] = any('negative Schmidt values' in m for m in msgs)
    out['mask_ok'] = isinstance(mask, np.ndarray) and mask.dtype == np.bool_ and mask.shape == S.shape
    out['mask'] = [bool(b) for b in mask] if out['mask_ok'] else None
    out['norm_new'] = float(norm_new)
    out['eps'] = float(err.eps)
    out['ov'] = float(err.ov)
    out['input_unchanged'] = bool(np.array_equal(S, S0))
    return out


# --------------------------------------------------------------------------------------------
# oracle


def resolved_opts(case):
    o = dict(DOC_DEFAULTS)
    o.update(case['opts'])
    return o


def near_ties(vals):
    """distinct values closer than the resolution of the log-sort"""
    for a, b in zip(vals, vals[1:]):
        if a != b and a > 0 and (b - a) <= a * F(1, 10 ** 12):
            return True
    return False


def tables(v, o, amb_sort):
    """For the ascending spectrum `v` (Fractions): {constraint: (ok[c], ambiguous[c])} for every cut c."""
    n = len(v)
    T = {}
    cm = o['chi_max']
    if cm is not None:
        T['chi_max'] = ([n - c <= cm for c in range(n)], [False] * n)
    cn = o['chi_min']
    if cn is not None:
        T['chi_min'] = ([n - c >= cn for c in range(n)], [False] * n)
    tol = o['degeneracy_tol']
    if tol is not None and tol != 0:
        ok, amb = [True], [False]
        for c in range(1, n):
            a, b = v[c - 1], v[c]
            if b <= 0:  # both zero: ratio 1, a multiplet for every positive tolerance
                ok.append(not (0 < tol)), amb.append(False)
            elif a <= 0:  # zero next to a positive value: not degenerate
                ok.append(True), amb.append(False)
            else:
                L = math.log(b / a)
                ok.append(not (abs(L) < tol))
                # equal floats have equal logs (difference exactly 0); otherwise a few ulp of the logs
                amb.append(a != b and abs(L - tol) < LOGNOISE * (1 + abs(math.log(a)) + abs(math.log(b))))
        T['degeneracy_tol'] = (ok, amb)
    m = o['svd_min']
    if m is not None:
        m = fr(m)
        ok = [all(x >= m for x in v[c:]) for c in range(n)]
        amb = [m > 0 and v[c] != m and abs(v[c] / m - 1) < F(1, 10 ** 12) for c in range(n)]
        T['svd_min'] = (ok, amb)
    t = o['trunc_cut']
    if t is not None:
        t2 = fr(t) * fr(t)
        cs = list(itertools.accumulate(x * x for x in v))
        # the largest number of smallest values whose weight fits into the budget must be discarded
        fit = max([c for c in range(n + 1) if (cs[c - 1] if c else 0) <= t2])
        ok = [c >= fit for c in range(n)]
        vf = np.array([float(x) for x in v])
        csf = np.cumsum(vf ** 2)
        tf = float(t) * float(t)
        # a running sum that came out exact in floats (few-bit dyadics) is compared exactly by the code, ties
        # included; otherwise a comparison closer than the rounding noise is ambiguous
        exact = [(not amb_sort) and F(tf) == t2 and F(float(csf[c])) == cs[c] for c in range(n)]
        amb = [(not exact[c]) and abs(cs[c] - t2) <= F(1, 10 ** 12) * max(cs[c], t2) for c in range(n)]
        T['trunc_cut'] = (ok, amb)
    return T


def resolve(n, T, flips=frozenset()):
    """priority filter; `flips` = set of (constraint, c) whose decision is inverted. -> (cut, dropped, adm chain)"""
    adm = list(range(n))
    dropped, chain = [], []
    for name in ORDER:
        if name not in T:
            continue
        ok = T[name][0]
        f = [c for c in adm if ok[c] != ((name, c) in flips)]
        if f:
            adm = f
        else:
            dropped.append(name)
        chain.append((name, list(adm)))
    return min(adm), dropped, chain


def admissible(n, T):
    """all (cut, dropped) reachable by resolving the ambiguous comparisons either way; None if too many"""
    ambs = [(name, c) for name in ORDER if name in T for c in range(n) if T[name][1][c]]
    if len(ambs) > MAX_AMB:
        return None, ambs
    out = set()
    for k in range(len(ambs) + 1):
        for sub in itertools.combinations(ambs, k):
            cut, dropped, _ = resolve(n, T, frozenset(sub))
            out.add((cut, tuple(dropped)))
    return out, ambs


def oracle(case, impl):
    """-> (signature | None, detail, info).  Signature names WHAT fails."""
    S = [fr(x) for x in case['S']]
    n = len(S)
    o = resolved_opts(case)
    info = {'amb': 0, 'skipped': False}
    t = o['trunc_cut']
    if t is not None and t >= 1.0:
        if impl.get('raise') != 'ValueError':
            return 'truncate.trunc_cut>=1.not-rejected', f'trunc_cut={t}: got {impl}', info
        return None, None, info
    if n == 0:
        return None, None, info  # outside the quantifier of the property
    if 'raise' in impl:
        return 'truncate.raises', f'{impl}', info
    if not impl['mask_ok']:
        return 'truncate.mask.shape-dtype', 'mask is not a bool array of the shape of S', info
    if not impl['input_unchanged']:
        return 'truncate.mutates-input', 'S was modified', info
    mask = impl['mask']
    kept = sorted(x for x, b in zip(S, mask) if b)
    disc = sorted(x for x, b in zip(S, mask) if not b)
    nk = len(kept)
    if nk == 0:
        return 'truncate.keeps-nothing', f'mask {mask}', info
    v = sorted(S)
    amb_sort = near_ties(v)
    info['amb_sort'] = amb_sort
    slack = F(1, 10 ** 12) if amb_sort else 0
    if disc and disc[-1] > kept[0] * (1 + slack):
        if kept[0] <= 0 and 0 < disc[-1] < TINY:
            return ('truncate.monotone.positive-value-below-1e-100-discarded-for-zero',
                    f'discarded {float(disc[-1])!r} but kept {float(kept[0])!r}', info)
        return 'truncate.monotone', f'discarded {float(disc[-1])!r} > kept {float(kept[0])!r}', info
    cm = o['chi_max']
    if cm is not None and cm >= 1 and nk > cm:
        return 'truncate.chi_max-exceeded', f'kept {nk} > chi_max {cm}', info
    # reported numbers, against the mask the code itself returned
    e_exact = sum(x * x for x in disc)
    n_exact = sum(x * x for x in kept)
    if not close(impl['eps'], e_exact, exact_sums(S)):
        return 'truncate.eps-not-discarded-weight', f'eps {impl["eps"]!r} vs sum of discarded squares {float(e_exact)!r}', info
    if not close(impl['norm_new'] ** 2, n_exact, False, ulps=8):
        return 'truncate.norm_new', f'norm_new^2 {impl["norm_new"] ** 2!r} vs sum of kept squares {float(n_exact)!r}', info
    if not close_abs(impl['ov'], 1 - 2 * F(impl['eps']), 1 + 2 * abs(F(impl['eps']))):
        return 'truncate.err.ov', f'ov {impl["ov"]!r} vs 1-2eps', info
    # constraints in priority
    T = tables(v, o, amb_sort)
    adm, ambs = admissible(n, T)
    info['amb'] = len(ambs)
    if adm is None:
        info['skipped'] = True
        return None, None, info
    c_impl = n - nk
    info['expected'] = sorted(adm)
    if c_impl not in {c for c, _ in adm}:
        cut, dropped, chain = resolve(n, T)
        for name, a in chain:
            if c_impl not in a:
                return (f'truncate.violates.{name}',
                        f'keeps {nk} of {n}; documented priority gives {n - cut} (ignored: {dropped})', info)
        return ('truncate.keeps-fewer-than-allowed',
                f'keeps {nk} of {n}; documented priority allows {n - cut} (ignored: {dropped})', info)
    return None, None, info


def exact_sums(S):
    """True when squares and all sub-sums of squares of S are exactly representable (few-bit dyadics)."""
    sq = [x * x for x in S]
    if any(F(float(q)) != q for q in sq):
        return False
    den = 1
    for q in sq:
        den = max(den, q.denominator)
    tot = sum(sq)
    return all(den % q.denominator == 0 for q in sq) and tot * den < 2 ** 53


def close(x, exact, is_exact, ulps=16):
    """float `x` against an exact rational; strict equality when the float computation is exact"""
    exact = F(exact)
    if not math.isfinite(x):
        return False
    if is_exact:
        return F(x) == exact
    return abs(F(x) - exact) <= ulps * F(1, 2 ** 52) * max(abs(exact), F(1, 2 ** 1000)) or F(x) == exact


def close_abs(x, exact, scale, ulps=16):
    """float against exact rational with an absolute tolerance of `ulps` ulp of `scale` (for 1 - 2*eps)"""
    return math.isfinite(x) and abs(F(x) - F(exact)) <= ulps * F(1, 2 ** 52) * scale


# --------------------------------------------------------------------------------------------
# model


def deg_r(case):
    tol = case['opts'].get('degeneracy_tol')
    if tol is None or tol == 0:
        return None
    if case.get('deg_r') is not None:
        return pr(case['deg_r'])
    return F(math.exp(tol))


def model_line(case, nudge=(0, 0, 0)):
    """driver request; `nudge` = relative shift (in units of ETA) of the thresholds (deg_r, svd_min, trunc_cut)"""
    o = {}
    src = case['opts']
    for k in ('chi_max', 'chi_min'):
        if k in src:
            o[k] = src[k]
    if 'degeneracy_tol' in src:
        r = deg_r(case)
        o['deg_r'] = None if r is None else rs(r * (1 + nudge[0] * ETA))
    if 'svd_min' in src:
        o['svd_min'] = None if src['svd_min'] is None else rs(fr(src['svd_min']) * (1 + nudge[1] * ETA))
    if 'trunc_cut' in src:
        o['trunc_cut'] = None if src['trunc_cut'] is None else rs(fr(src['trunc_cut']) * (1 + nudge[2] * ETA))
        if nudge[2] and src['trunc_cut'] is not None:
            o['trunc_cut_check'] = rs(fr(src['trunc_cut']))  # `trunc_cut >= 1` is decided on the real threshold
    return {'k': 'truncate', 'S': [rs(fr(x)) for x in case['S']], 'tiny': rs(TINY), 'opts': o}


def model_deg_consistent(case):
    """the rational threshold handed to the model decides every adjacent ratio like exp(tol) does"""
    r = deg_r(case)
    if r is None:
        return True
    tol = case['opts']['degeneracy_tol']
    key = sorted(TINY if x <= 0 else fr(x) for x in case['S'])
    for a, b in zip(key, key[1:]):
        L = math.log(b / a)
        if a != b and abs(L - tol) < LOGNOISE * (1 + abs(math.log(a)) + abs(math.log(b))):
            continue  # flagged ambiguous anyway
        if (b >= r * a) != (L >= tol):
            return False
    return True


def diff_model(case, impl, mod):
    """-> None or (field, detail)"""
    if '_raw' in mod or 'error' in mod:
        return 'driver', str(mod)
    if ('raise' in mod) or ('raise' in impl):
        if mod.get('raise') != impl.get('raise'):
            return 'raise', f'model {mod.get("raise")} impl {impl.get("raise")}'
        return None
    S = [fr(x) for x in case['S']]
    kept = sorted(x for x, b in zip(S, impl['mask']) if b)
    if mod['nkept'] != len(kept):
        return 'nkept', f'model keeps {mod["nkept"]}, impl {len(kept)}'
    if [pr(x) for x in mod['kept']] != kept:
        return 'kept-values', f'model {mod["kept"]} impl {[rs(x) for x in kept]}'
    ex = exact_sums(S)
    if not close(impl['eps'], pr(mod['eps']), ex):
        return 'eps', f'model {mod["eps"]} impl {impl["eps"]!r}'
    if not close(impl['norm_new'] ** 2, pr(mod['norm2']), False, ulps=8):
        return 'norm2', f'model {mod["norm2"]} impl {impl["norm_new"] ** 2!r}'
    if not close_abs(impl['ov'], pr(mod['ov']), 1 + 2 * abs(pr(mod['eps']))):
        return 'ov', f'model {mod["ov"]} impl {impl["ov"]!r}'
    if mod['dropped'] != impl['dropped']:
        return 'warnings', f'model {mod["dropped"]} impl {impl["dropped"]}'
    if mod['warn_small'] != impl['warn_small'] or mod['warn_neg'] != impl['warn_neg']:
        return 'warn-flags', f'model {mod["warn_small"]},{mod["warn_neg"]} impl {impl["warn_small"]},{impl["warn_neg"]}'
    return None


# --------------------------------------------------------------------------------------------
# generator

ABSENT = '__absent__'
DY = [2.0 ** -k for k in range(0, 13)] + [k / 16 for k in range(1, 16)] + [3 * 2.0 ** -k for k in range(2, 10)]
RAT = [p / q for q in range(3, 13) for p in range(1, q + 1) if math.gcd(p, q) == 1]
PYTH = [[3, 4, 12, 84], [5, 12, 84], [8, 15, 144], [3, 4], [6, 8, 24], [1, 1, 1, 1, 2], [2, 2, 2, 2, 3, 12]]


def gen_spectrum(rng):
    n = rng.choice([1, 1, 2, 2, 3, 3, 4, 4, 5, 5, 6, 6, 7, 8, 9, 10, 11, 12])
    mode = rng.choice(['dyadic', 'dyadic', 'dyadic', 'rational', 'mixed', 'geometric', 'pyth', 'small'])
    if mode == 'dyadic':
        vals = [rng.choice(DY) for _ in range(n)]
    elif mode == 'rational':
        vals = [rng.choice(RAT) for _ in range(n)]
    elif mode == 'mixed':
        vals = [rng.choice(DY + RAT) for _ in range(n)]
    elif mode == 'small':  # around the default thresholds 1e-14 (svd_min, trunc_cut) and the 1e-10 warning
        vals = [rng.choice([1.0, 0.5, 0.5, 1e-7, 1e-9, 1e-11, 1e-13, 3e-14, 1e-14, 5e-15, 1e-15, 1e-16]) for _ in range(n)]
    elif mode == 'geometric':
        base = rng.choice([0.5, 0.25, 0.75, 1 / 3, 0.1])
        vals = [base ** k for k in range(n)]
    else:
        p = rng.choice(PYTH)
        vals = [x / 128 for x in p][:n]
        while len(vals) < n:
            vals.append(rng.choice(DY))
    if n > 1 and rng.random() < 0.5:  # exact ties
        for _ in range(rng.randint(1, max(1, n // 2))):
            vals[rng.randrange(n)] = vals[rng.randrange(n)]
    if rng.random() < 0.25:  # zeros
        for _ in range(rng.randint(1, max(1, n // 3))):
            vals[rng.randrange(n)] = 0.0
    if mode == 'small':
        pass
    elif rng.random() < 0.3:
        s = rng.choice([2.0, 4.0, 0.5, 0.125, 3.0, 10.0, 1e-3, 7.0])
        vals = [x * s for x in vals]
    elif rng.random() < 0.3 and any(vals):
        nrm = float(np.linalg.norm(np.array(vals)))
        vals = [x / nrm for x in vals]
    order = rng.choice(['asc', 'desc', 'shuffle', 'shuffle'])
    if order == 'asc':
        vals.sort()
    elif order == 'desc':
        vals.sort(reverse=True)
    else:
        rng.shuffle(vals)
    return [float(x) for x in vals], mode


def _fsqrt(q):
    """exact rational square root representable as a float, else None"""
    q = F(q)
    a, b = math.isqrt(q.numerator), math.isqrt(q.denominator)
    if a * a == q.numerator and b * b == q.denominator:
        t = F(a, b)
        if F(float(t)) == t:
            return float(t)
    return None


def gen_opts(rng, S):
    n = len(S)
    v = sorted(fr(x) for x in S)
    cs = list(itertools.accumulate(x * x for x in v))
    opts, extra = {}, {}

    def put(k, val):
        if val != ABSENT:
            opts[k] = val

    # values well beyond the length as well: slices with a start before the beginning of the array (`-chi` < -n)
    beyond = [n + 1, n + 2, n + 3, 2 * n - 1, 2 * n, 2 * n + 1, 3 * n, 3 * n + 2]
    put('chi_max', rng.choice([ABSENT, None, None, 0, 1, 1, 2, 2, 3, max(n - 1, 0), n, n + 1, 100, rng.choice(beyond)]))
    put('chi_min', rng.choice([ABSENT, ABSENT, None, None, 0, 1, 2, 2, 3, max(n - 1, 0), n, n + 1,
                               rng.choice(beyond), rng.choice(beyond), rng.randint(n + 2, 2 * n + 2)]))
    # degeneracy_tol
    r = rng.random()
    if r < 0.25:
        pass
    elif r < 0.35:
        put('degeneracy_tol', rng.choice([None, None, 0.0]))
    elif r < 0.8:
        ratios = sorted({b / a for a, b in zip(v, v[1:]) if a > 0 and b > a})
        ratios += sorted({v[j] / v[i] for i in range(n) for j in range(i + 1, n) if v[i] > 0 and v[j] > v[i]})[:4]
        ratios = [q for q in ratios if q < 10 ** 6]
        rr = rng.choice(ratios) if ratios and rng.random() < 0.8 else rng.choice([F(2), F(3, 2), F(4), F(1025, 1024)])
        s = rng.choice([1, 1, 1, 1, -1, -1, -1, -1, 0])
        lr = math.log(rr)
        delta = 1e-6 * max(1.0, lr)
        opts['degeneracy_tol'] = lr + s * delta
        extra['deg_r'] = rs(rr * (1 + s * F(1, 2_000_000)))
    elif r < 0.97:
        put('degeneracy_tol', rng.choice([1e-10, 1e-8, 1e-3, 0.1, 0.5, 1.0, 3.0]))
    else:
        put('degeneracy_tol', -0.1)
    # svd_min
    r = rng.random()
    pos = [x for x in v if x > 0]
    if r < 0.2:
        pass
    elif r < 0.35:
        put('svd_min', None)
    elif r < 0.4:
        put('svd_min', rng.choice([0.0, 1e-14, 1e-14, -0.1]))
    elif pos:
        x = float(rng.choice(pos))
        k = rng.random()
        if k < 0.4:
            put('svd_min', x)  # exactly a value of the spectrum
        elif k < 0.7:
            y = float(rng.choice(pos))
            put('svd_min', (x + y) / 2)
        elif k < 0.8:
            put('svd_min', float(np.nextafter(x, rng.choice([0.0, 10.0]))))  # one ulp beside: ambiguous
        elif k < 0.9:
            put('svd_min', float(v[-1]) * 2)
        else:
            put('svd_min', x * rng.choice([0.5, 0.99, 1.01, 1.5]))
    # trunc_cut
    r = rng.random()
    if r < 0.2:
        pass
    elif r < 0.35:
        put('trunc_cut', None)
    elif r < 0.4:
        put('trunc_cut', rng.choice([0.0, 1e-14, 1e-14]))
    elif r < 0.43:
        put('trunc_cut', rng.choice([1.0, 1.5, float(np.nextafter(1.0, 0.0))]))
    else:
        i = rng.randrange(n)
        k = rng.random()
        t = None
        if k < 0.45:
            t = _fsqrt(cs[i])  # exactly on a partial sum
        if t is None and k < 0.75:
            lo = cs[i - 1] if i else F(0)
            t = math.sqrt(float((lo + cs[i]) / 2))  # between two partial sums
        if t is None:
            t = math.sqrt(float(cs[i]))
            if k > 0.9:
                t = float(np.nextafter(t, rng.choice([0.0, 10.0])))
        if rng.random() < 0.03:
            t = -t
        if t >= 1.0 and rng.random() < 0.8:
            t = float(np.nextafter(1.0, 0.0)) if rng.random() < 0.3 else 0.5
        put('trunc_cut', float(t))
    return opts, extra


def gen_case(rng):
    S, mode = gen_spectrum(rng)
    opts, extra = gen_opts(rng, S)
    if mode == 'small' and rng.random() < 0.6:  # defaults of svd_min / trunc_cut
        for k in rng.choice([['svd_min'], ['trunc_cut'], ['svd_min', 'trunc_cut']]):
            opts.pop(k, None)
    case = {'part': 'truncate', 'S': S, 'opts': opts}
    if rng.random() < 0.05:
        case['as_config'] = True  # a tenpy Config instead of a dict
    case.update(extra)
    return case


def gen_oversized(rng):
    """chi_min (and chi_max) anywhere in n+1 .. 3n+2 combined with each lower-priority constraint, chosen so that the
    latter wants to discard most of the spectrum: an unsatisfiable chi_min must be ignored, not reinterpreted"""
    n = rng.randint(1, 8)
    S = sorted({rng.choice(DY) for _ in range(n)}, reverse=True)
    if rng.random() < 0.3:
        S += [S[-1]] * rng.randint(1, 2)  # a multiplet at the bottom
    if rng.random() < 0.3:
        S.append(rng.choice([1e-9, 1e-12, 0.0]))
    n = len(S)
    v = sorted(fr(x) for x in S)
    opts = {'chi_max': rng.choice([None, None, n + 1, n + 2, 2 * n, 2 * n + 1, 3 * n, 100]),
            'chi_min': rng.randint(n + 1, 3 * n + 2), 'svd_min': None, 'trunc_cut': None}
    extra = {}
    which = rng.choice(['svd_min', 'trunc_cut', 'degeneracy_tol', 'svd_min+trunc_cut', 'all'])
    j = rng.randrange(n)  # the lower-priority constraint asks to discard v[:j] (at least)
    if 'svd_min' in which or which == 'all':
        opts['svd_min'] = float(v[j])
    if 'trunc_cut' in which or which == 'all':
        cs = sum(x * x for x in v[:j + 1])
        t = math.sqrt(float(cs)) * 0.999
        opts['trunc_cut'] = t if t < 1.0 else 0.5
    if which in ('degeneracy_tol', 'all'):
        opts['degeneracy_tol'] = rng.choice([1e-8, 0.1, 1.0, 3.0])
        if which == 'degeneracy_tol':
            opts['chi_max'] = rng.randint(1, n)  # forces a cut; the multiplet rule then decides where
    rng.shuffle(S)
    case = {'part': 'truncate', 'S': [float(x) for x in S], 'opts': opts, 'stream': 'oversized-chi'}
    case.update(extra)
    return case


def gen_special(rng):
    """streams outside the main contract: ulp-neighbours, one negative value, values below 1e-100, empty"""
    k = rng.random()
    if k < 0.4:  # ulp neighbours (the log-sort cannot tell them apart)
        x = rng.uniform(0.01, 0.9)
        S = [x, float(np.nextafter(x, 1.0))] + [rng.choice(DY) for _ in range(rng.randint(0, 3))]
        rng.shuffle(S)
        return {'part': 'truncate', 'S': S, 'stream': 'ulp',
                'opts': {'chi_max': rng.choice([1, 2, None]), 'svd_min': rng.choice([None, x]),
                         'trunc_cut': rng.choice([None, x]), 'degeneracy_tol': rng.choice([None, 1e-10])}}
    if k < 0.7:  # exactly one non-positive entry
        S = [rng.choice(DY) for _ in range(rng.randint(1, 5))] + [rng.choice([-0.5, -0.25, -1e-12, -1e-9, 0.0])]
        rng.shuffle(S)
        c = {'part': 'truncate', 'S': S, 'stream': 'neg'}
        c['opts'], extra = gen_opts(rng, [abs(x) for x in S])
        c['opts'].pop('degeneracy_tol', None)
        c['opts'].pop('svd_min', None)
        return c
    if k < 0.9:  # positive values below the 1e-100 replacement, together with zeros
        S = [rng.choice([1e-200, 1e-150, 1e-101]), 0.0] + [rng.choice(DY) for _ in range(rng.randint(0, 2))]
        rng.shuffle(S)
        return {'part': 'truncate', 'S': S, 'stream': 'tiny',
                'opts': {'chi_max': rng.choice([1, 2]), 'svd_min': None, 'trunc_cut': None}}
    if k < 0.96:  # longer than the default chi_max
        n = rng.randint(101, 130)
        base = rng.choice([0.5, 0.75, 0.9])
        S = [base ** (i // rng.choice([1, 2])) for i in range(n)]
        rng.shuffle(S)
        return {'part': 'truncate', 'S': S, 'stream': 'long',
                'opts': rng.choice([{}, {'svd_min': None, 'trunc_cut': None}, {'chi_max': 105, 'svd_min': None},
                                    {'chi_min': 101}])}
    return {'part': 'truncate', 'S': [], 'stream': 'empty', 'opts': {'chi_max': rng.choice([None, 1])}}


# --------------------------------------------------------------------------------------------
# shrinking


def failing_sig(case):
    try:
        return oracle(case, run_impl(case))[0]
    except Exception as e:  # a crash of the harness on a shrunk input is not the failure we are after
        return None


def shrink(case, sig):
    cur = {k: (dict(v) if isinstance(v, dict) else list(v) if isinstance(v, list) else v) for k, v in case.items()}
    changed = True
    while changed:
        changed = False
        cands = []
        for i in range(len(cur['S'])):
            c = dict(cur, S=cur['S'][:i] + cur['S'][i + 1:])
            cands.append(c)
        for k in list(cur['opts']):
            if cur['opts'][k] is not None:
                o = dict(cur['opts'])
                o[k] = None
                cands.append(dict(cur, opts=o))
        for k in ORDER:
            if k not in cur['opts']:
                o = dict(cur['opts'])
                o[k] = None
                cands.append(dict(cur, opts=o))
        for k in ('chi_max', 'chi_min'):
            if isinstance(cur['opts'].get(k), int) and cur['opts'][k] > 0:
                o = dict(cur['opts'])
                o[k] -= 1
                cands.append(dict(cur, opts=o))
        srt = sorted(cur['S'], reverse=True)
        if srt != cur['S']:
            cands.append(dict(cur, S=srt))
        for c in cands:
            if c['S'] and failing_sig(c) == sig:
                cur, changed = c, True
                break
    return cur


# --------------------------------------------------------------------------------------------
# running


def nontrivial(case, impl):
    if 'raise' in impl or not impl.get('mask_ok'):
        return False
    nk = sum(impl['mask'])
    return len(case['S']) >= 2 and (nk < len(case['S']) or bool(impl['dropped']))


def histogram(res, case, impl, info):
    n = len(case['S'])
    res.count('trunc.n=%s' % (n if n <= 12 else '>100'))
    for k in ORDER:
        v = case['opts'].get(k, ABSENT)
        res.count(f'trunc.{k}=' + ('absent' if v == ABSENT else 'None' if v is None else 'set'))
        if k in ('chi_max', 'chi_min') and isinstance(v, int):
            res.count(f'trunc.{k}.vs-n=' + ('<n' if v < n else 'n' if v == n else 'n+1' if v == n + 1 else 'n+2..2n' if v <= 2 * n else '>2n'))
    S = case['S']
    res.count('trunc.ties=' + str(len(set(S)) < len(S)))
    res.count('trunc.zeros=' + str(any(x == 0 for x in S)))
    res.count('trunc.sorted=' + ('desc' if S == sorted(S, reverse=True) else 'asc' if S == sorted(S) else 'no'))
    res.count('trunc.normalised=' + str(abs(sum(x * x for x in S) - 1) < 1e-12))
    if 'stream' in case:
        res.count('trunc.stream=' + case['stream'])
    if 'raise' in impl:
        res.count('trunc.raise=' + impl['raise'])
        return
    if impl.get('mask_ok'):
        for d in impl['dropped']:
            res.count('trunc.ignored=' + d)
        res.count('trunc.n_ignored=%d' % len(impl['dropped']))
        nk = sum(impl['mask'])
        res.count('trunc.kept=' + ('all' if nk == n else 'one' if nk == 1 else 'some'))
    res.count('trunc.ambiguous=%d' % min(info.get('amb', 0), 3))
    if info.get('skipped'):
        res.count('trunc.skipped-too-ambiguous')


def run_cases(ctx, cases, use_model=True):
    res = core.Result()
    impls = [run_impl(c) for c in cases]
    verdicts = [oracle(c, i) for c, i in zip(cases, impls)]
    # model requests: exact thresholds, plus nudged variants for ambiguous cases
    lines, where = [], []
    if use_model:
        for idx, (c, (sig, _, info)) in enumerate(zip(cases, verdicts)):
            if c.get('stream') in ('ulp',):
                continue
            variants = [(0, 0, 0)]
            if info.get('amb', 0) or not model_deg_consistent(c):
                variants = list(itertools.product((-1, 1), repeat=3))
            for nd in variants:
                lines.append(model_line(c, nd))
                where.append(idx)
    outs = core.run_driver('C15', lines) if lines else []
    per, seen = {}, {}
    for idx, o in zip(where, outs):
        per.setdefault(idx, []).append(o)
    for idx, (c, impl, (sig, detail, info)) in enumerate(zip(cases, impls, verdicts)):
        res.note_case(c, nontrivial(c, impl))
        histogram(res, c, impl, info)
        if sig:
            seen[sig] = seen.get(sig, 0) + 1
            res.count('trunc.fail.' + sig)
            if seen[sig] <= 2:  # shrink the first ones of each kind, keep a few more as they are
                small = shrink(c, sig)
                sig2, det2, _ = oracle(small, run_impl(small))
                small['original'] = {k: v for k, v in c.items()}
                res.fail('property', sig2 or sig, det2 or detail, small)
            elif seen[sig] <= 10:
                res.fail('property', sig, detail, c)
            continue
        if idx in per:
            res.traces_validated += 1
            diffs = [diff_model(c, impl, m) for m in per[idx]]
            if all(d is not None for d in diffs):
                if len(diffs) > 1 and info.get('amb', 0) > 1:
                    res.count('trunc.model-ambiguous-multi')  # several borderline comparisons: oracle only
                    continue
                d = diffs[0]
                res.fail('correspondence', 'truncate.model-vs-impl.' + d[0], d[1] + f' | impl {impl}', c)
    return res


CORPUS = [
    # tenpy's own test spectrum: chi_min forces the degeneracy constraint to be ignored
    {'part': 'truncate', 'S': [1.0, 0.5, 0.25, 0.25, 0.25, 0.125],
     'opts': {'chi_max': 4, 'chi_min': 3, 'degeneracy_tol': 1e-8, 'svd_min': None, 'trunc_cut': None}},
    # exactly on a partial sum: 9+16=25
    {'part': 'truncate', 'S': [0.0234375, 0.03125, 0.5], 'opts': {'chi_max': None, 'svd_min': None, 'trunc_cut': 0.0390625}},
    # chi_min == number of values, chi_min off by one would drop it
    {'part': 'truncate', 'S': [0.5, 0.25, 0.125], 'opts': {'chi_max': None, 'chi_min': 3, 'svd_min': 0.3, 'trunc_cut': None}},
    {'part': 'truncate', 'S': [0.5, 0.25, 0.125], 'opts': {'chi_max': None, 'chi_min': 2, 'svd_min': 0.3, 'trunc_cut': None}},
    # unsatisfiable svd_min is ignored, trunc_cut still applies
    {'part': 'truncate', 'S': [0.25, 0.5, 0.125], 'opts': {'chi_max': None, 'svd_min': 2.0, 'trunc_cut': 0.125}},
    # all defaults
    {'part': 'truncate', 'S': [0.5, 0.0, 1e-15, 0.5], 'opts': {}},
    # chi_min far beyond the length is unsatisfiable and ignored; svd_min still applies
    {'part': 'truncate', 'S': [0.8, 0.6, 1e-9], 'opts': {'chi_max': None, 'chi_min': 5, 'svd_min': 0.7, 'trunc_cut': None}},
    {'part': 'truncate', 'S': [0.5, 0.25, 0.125, 0.0625], 'opts': {'chi_max': None, 'chi_min': 7, 'svd_min': None, 'trunc_cut': 0.2}},
    {'part': 'truncate', 'S': [0.5, 0.25, 0.25, 0.125], 'opts': {'chi_max': 2, 'chi_min': 6, 'degeneracy_tol': 0.1, 'svd_min': None, 'trunc_cut': None}},
    {'part': 'truncate', 'S': [0.75], 'opts': {'chi_max': 1, 'chi_min': 2, 'degeneracy_tol': 0.5, 'svd_min': 1.0, 'trunc_cut': 0.9}},
]


def load_corpus():
    import json
    out = list(CORPUS)
    d = core.CORPUS_DIR / 'C15'
    if d.exists():
        for f in sorted(d.glob('*.json')):
            c = json.loads(f.read_text())
            c = c.get('case', c)
            if c.get('part') == 'truncate':
                c.pop('original', None)
                out.append(c)
    return out


def gen_cases(rng, n):
    out = []
    for i in range(n):
        out.append(gen_special(rng) if i % 25 == 24 else gen_oversized(rng) if i % 25 == 12 else gen_case(rng))
    return out


def _chunk(args):
    """one worker: its own PRNG (seed, chunk index), its own Lean driver process"""
    prop, tier, seed, tag, n, use_model = args
    core.use_repo()
    ctx = core.Ctx(prop, tier, seed, 0)
    rng = ctx.sub_rng(tag)
    return run_cases(ctx, gen_cases(rng, n), use_model=use_model)


def n_chunks(default):
    """thorough-tier volume; VERIF_C15_CHUNKS shrinks it (smoke runs on a loaded machine)"""
    import os
    return int(os.environ.get('VERIF_C15_CHUNKS', default))


def run_parallel(ctx, tag, n_chunks, chunk, use_model=True):
    import multiprocessing as mp
    res = core.Result()
    jobs = [(ctx.prop, ctx.tier, ctx.seed, f'{tag}:{i}', chunk, use_model) for i in range(n_chunks)]
    deadline = ctx.t0 + 0.6 * ctx.budget_s if ctx.budget_s else None
    with mp.get_context('fork').Pool(min(16, mp.cpu_count() or 1)) as pool:
        for r in pool.imap(_chunk, jobs):
            res.merge(r)
            if deadline and time.time() > deadline:  # loaded machine: report what was covered, never a verdict
                res.count('trunc.stopped-at-budget')
                pool.terminate()
                break
    return res


def run(ctx):
    res = run_cases(ctx, load_corpus())
    if ctx.quick:
        res.merge(run_cases(ctx, gen_cases(ctx.sub_rng('truncate'), 30000)))
    else:
        res.merge(run_parallel(ctx, 'truncate', n_chunks(40), 25000))
    return res


def search(ctx):
    res = run_cases(ctx, load_corpus(), use_model=False)
    if ctx.quick:
        res.merge(run_cases(ctx, gen_cases(ctx.sub_rng('truncate-search'), 30000), use_model=False))
    else:
        res.merge(run_parallel(ctx, 'truncate-search', n_chunks(32), 25000, use_model=False))
    return res
