"""C10: one generated coupling model -> real tenpy objects, every representation as a dense matrix,
the independent many-body oracle, and the request line for the Lean model."""
import copy
import itertools
import json
import warnings
from fractions import Fraction

import numpy as np

from harness import ops_common as oc

TOL = 1e-10


# ---------------------------------------------------------------------------------------------
# building the real model


def build_lattice(case):
    sites = oc.make_unit_cell(case['sites'], case.get('common'))
    lat = oc.make_lattice(case['lattice'], sites)
    return lat


class Recorder:
    """logs the outputs of order_combine_term / multi_coupling_term_handle_JW during one call
    (given data for the Lean model: Jordan-Wigner handling belongs to C12)"""

    def __init__(self):
        self.signs = []
        self.handled = []

    def __enter__(self):
        import tenpy.models.model as mm
        from tenpy.networks import terms as tt
        self._mm, self._tt = mm, tt
        self._oc = mm.order_combine_term
        self._h = tt.MultiCouplingTerms.multi_coupling_term_handle_JW
        rec = self

        def oc_wrap(term, sites):
            res = rec._oc(term, sites)
            rec.signs.append(int(res[1]))
            return res

        def h_wrap(self_, strength, term, sites, op_string=None):
            res = rec._h(self_, strength, term, sites, op_string)
            rec.handled.append((complex(res[0]), [int(i) for i in res[1]], list(res[2]), list(res[3])))
            return res

        mm.order_combine_term = oc_wrap
        tt.MultiCouplingTerms.multi_coupling_term_handle_JW = h_wrap
        return self

    def __exit__(self, *a):
        self._mm.order_combine_term = self._oc
        self._tt.MultiCouplingTerms.multi_coupling_term_handle_JW = self._h


_ORIG = {}


def _orig(name):
    """the unpatched adder of CouplingModel (the zoo logger patches the class attributes)"""
    if not _ORIG:
        from tenpy.models.model import CouplingModel
        for n in ['add_onsite', 'add_coupling', 'add_onsite_term', 'add_coupling_term', 'add_multi_coupling_term',
                  'add_multi_coupling', 'add_local_term', 'add_exponentially_decaying_coupling',
                  'add_exponentially_decaying_centered_terms']:
            _ORIG[n] = getattr(CouplingModel, n)
    return _ORIG[name]


def lam_np(spec):
    v = oc.strength_to_np(spec)
    return v


def apply_call(M, call, lean_calls, site_index):
    """apply one high-level call to the CouplingModel `M`; append the Lean form of the call."""
    lat = M.lat
    f = call['f']
    ph = bool(call.get('plus_hc', False))
    cat = call.get('category')
    s_np = oc.strength_to_np(call['strength'])
    mps_sites = lat.mps_sites()
    N = lat.N_sites

    def si_u(u):
        return site_index[id(lat.unit_cell[u])]

    def si_i(i):
        return site_index[id(mps_sites[i % N])]

    if f == 'add_onsite':
        from tenpy.tools.misc import to_array
        arr = to_array(s_np, lat.Ls)
        vals = [[int(i), oc.gq(arr[tuple(il)])] for i, il in zip(*lat.mps_lat_idx_fix_u(call['u']))]
        lean_calls.append(['onsite', si_u(call['u']), vals, call['op'], cat, ph])
        _orig('add_onsite')(M, s_np, call['u'], call['op'], category=cat, plus_hc=ph)
    elif f == 'add_coupling':
        dx = np.array(call['dx'])
        u1, u2 = call['u1'], call['u2']
        p = lat.possible_couplings(u1, u2, dx, s_np)
        pairs = [[int(i), int(j), oc.gq(s)] for i, j, s in zip(*p)]
        p2 = lat.possible_couplings(u2, u1, -dx, np.conj(s_np))
        pairs_hc = [[int(i), int(j), oc.gq(s)] for i, j, s in zip(*p2)]
        all_zero = not np.any(np.asarray(s_np) != 0.)
        lean_calls.append(['coupling', si_u(u1), si_u(u2), all_zero, pairs, pairs_hc, call['op1'], call['op2'],
                           call.get('op_string'), cat, ph])
        _orig('add_coupling')(M, s_np, u1, call['op1'], u2, call['op2'], dx, op_string=call.get('op_string'),
                       category=cat, plus_hc=ph)
    elif f == 'add_onsite_term':
        lean_calls.append(['onsite_term', si_i(call['i']), oc.gq(s_np), call['i'], call['op'], cat, ph])
        _orig('add_onsite_term')(M, s_np, call['i'], call['op'], category=cat, plus_hc=ph)
    elif f == 'add_coupling_term':
        lean_calls.append(['coupling_term', si_i(call['i']), si_i(call['j']), oc.gq(s_np), call['i'], call['j'],
                           call['op_i'], call['op_j'], call['op_string'], cat, ph])
        _orig('add_coupling_term')(M, s_np, call['i'], call['j'], call['op_i'], call['op_j'], call['op_string'],
                            category=cat, plus_hc=ph)
    elif f == 'add_multi_coupling_term':
        lean_calls.append(['multi_term', [si_i(i) for i in call['ijkl']], oc.gq(s_np), call['ijkl'], call['ops'],
                           call['op_string'], cat, ph, call.get('switchLR', 'middle_i')])
        _orig('add_multi_coupling_term')(M, s_np, list(call['ijkl']), list(call['ops']), list(call['op_string']),
                                  category=cat, plus_hc=ph, switchLR=call.get('switchLR', 'middle_i'))
    elif f in ('add_multi_coupling', 'add_local_term'):
        explicit = M.explicit_plus_hc
        with Recorder() as rec:
            if f == 'add_multi_coupling':
                ops = [(o, list(dx), u) for o, dx, u in call['ops']]
                _orig('add_multi_coupling')(M, s_np, ops, category=cat, plus_hc=ph, switchLR=call.get('switchLR', 'middle_i'))
            else:
                term = [(o, list(idx)) for o, idx in call['term']]
                _orig('add_local_term')(M, s_np, term, category=cat, plus_hc=ph)
        # raw (un-halved, unsigned) strengths per handled term: undo what the adder did
        if f == 'add_multi_coupling':
            ops = [(o, list(dx), u) for o, dx, u in call['ops']]
            n_main = len(lat.possible_multi_couplings(ops, s_np)[0]) if np.any(np.asarray(s_np) != 0.) else 0
            category = cat if cat is not None else ' '.join(
                ['{op}_{i}'.format(op=op, i=chr(ord('i') + m)) for m, (op, _, _) in enumerate(call['ops'])])
        else:
            n_main = None
            category = None
        handled, signs = rec.handled, rec.signs
        if f == 'add_local_term':
            # add_local_term handles 1- and 2-site terms itself: only >2 sites are modelled here
            raise NotImplementedError
        main, hc = [], []
        scale = 0.5 if (explicit and not ph) else 1.0
        for k, (h, sg) in enumerate(zip(handled, signs)):
            s_in, ijkl, ops_h, strs = h
            raw = s_in / sg / (scale if k < n_main else 1.0) if sg != 0 else 0.0
            (main if k < n_main else hc).append([oc.gq(raw), sg, ijkl, ops_h, strs])
        lean_calls.append(['multi', main, hc, category, ph, call.get('switchLR', 'middle_i')])
    elif f == 'add_exp':
        lam = lam_np(call['lambda'])
        lam_list = [oc.gq(x) for x in (np.full(N, lam) if np.isscalar(lam) else lam)]
        subs = call.get('subsites')
        subs_start = call.get('subsites_start')
        s_list = list(range(N)) if subs is None else list(subs)
        ss_list = s_list if subs_start is None else list(subs_start)
        lean_calls.append(['exp', si_i(ss_list[0]) if subs_start is not None else (si_u(0) if subs is None else si_i(s_list[0])),
                           si_u(0) if subs is None else si_i(s_list[0]), oc.gq(s_np), lam_list,
                           call['op_i'], call['op_j'], s_list, ss_list, call.get('op_string'), ph])
        _orig('add_exponentially_decaying_coupling')(M, s_np, lam, call['op_i'], call['op_j'], subsites=subs,
                                              subsites_start=subs_start, op_string=call.get('op_string'), plus_hc=ph)
    elif f == 'add_centered':
        lam = lam_np(call['lambda'])
        lam_list = [oc.gq(x) for x in (np.full(N, lam) if np.isscalar(lam) else lam)]
        subs = call.get('subsites')
        s_list = list(range(N)) if subs is None else list(subs)
        lean_calls.append(['centered', si_i(call['i']), si_u(0) if subs is None else si_i(s_list[0]), oc.gq(s_np),
                           lam_list, call['op_i'], call['op_j'], call['i'], s_list, call.get('op_string'), ph])
        _orig('add_exponentially_decaying_centered_terms')(M, s_np, lam, call['op_i'], call['op_j'], call['i'], subsites=subs,
                                                    op_string=call.get('op_string'), plus_hc=ph)
    else:
        raise ValueError(f)


def is_empty_model(case):
    """True if the calls of the case add no term at all (tenpy cannot build an MPO of the zero operator)"""
    from tenpy.models.model import CouplingModel
    lat = build_lattice(case)
    M = CouplingModel(lat, bool(case.get('explicit', False)))
    site_index = {id(s): 0 for s in lat.unit_cell}
    with warnings.catch_warnings():
        warnings.simplefilter('ignore')
        for call in case['calls']:
            apply_call(M, call, [], site_index)
        ot = M.all_onsite_terms()
        ot.remove_zeros()
        ct = M.all_coupling_terms()
        ct.remove_zeros()
        n = len(ot.to_TermList().terms) + len(ct.to_TermList().terms)
        if lat.bc_MPS == 'finite':
            n += len(M.exp_decaying_terms.to_TermList(cutoff=0.).terms)
        else:
            n += len(M.exp_decaying_terms.exp_decaying_terms)
    return n == 0


def build_model(case):
    """returns (model, lean_calls, distinct_sites) ; the model is a CouplingMPOModel subclass instance"""
    from tenpy.models.model import CouplingMPOModel
    lat = build_lattice(case)
    distinct, site_index = [], {}
    for s in lat.unit_cell:
        if id(s) not in site_index:
            site_index[id(s)] = len(distinct)
            distinct.append(s)
    lean_calls = []

    class GenModel(CouplingMPOModel):
        def init_lattice(self, model_params):
            return lat

        def init_terms(self, model_params):
            for call in case['calls']:
                apply_call(self, call, lean_calls, site_index)

    params = {'explicit_plus_hc': bool(case.get('explicit', False)), 'sort_mpo_legs': bool(case.get('sort_mpo_legs', False))}
    with warnings.catch_warnings():
        warnings.simplefilter('ignore')
        M = GenModel(params)
    return M, lean_calls, distinct


# ---------------------------------------------------------------------------------------------
# canonical export of the containers (same format as drivers/C10.lean)


def onsite_entries(ot):
    return [[[op, oc.gq(d[op])] for op in sorted(d)] for d in ot.onsite_terms]


def coupling_entries(ct):
    res = []
    d0 = ct.coupling_terms
    for i in sorted(d0):
        for (opi, opstr) in sorted(d0[i]):
            d2 = d0[i][(opi, opstr)]
            for j in sorted(d2):
                for opj in sorted(d2[j]):
                    res.append([int(i), opi, opstr, int(j), opj, oc.gq(d2[j][opj])])
    return res


def multi_entries(mt):
    tl = mt._fill_term_list(mt.terms_left, mt._connect_left)
    tr = mt._fill_term_list(mt.terms_right, mt._connect_right)
    res = []
    for l, r, c in zip(tl, tr, mt.connections):
        if c is None:
            res.append(None)
            continue
        res.append({'left': [[int(i), o, s] for i, o, s in (l or ())], 'right': [[int(i), o, s] for i, o, s in (r or ())],
                    'switchLR': int(c[0]), 'op_switch': c[1], 'shift': int(c[2]), 'strength': oc.gq(c[3])})
    return res


def ct_json(ct):
    from tenpy.networks.terms import MultiCouplingTerms
    if isinstance(ct, MultiCouplingTerms):
        return {'multi': True, 'conns': multi_entries(ct), 'max_range': int(ct.max_range())}
    return {'multi': False, 'entries': coupling_entries(ct), 'max_range': int(ct.max_range())}


def exp_json(edt, N):
    def lam_l(l):
        return [oc.gq(x) for x in (np.full(N, l) if np.isscalar(l) else l)]
    return {'terms': [[oc.gq(s), lam_l(l), oi, oj, [int(x) for x in sub], [int(x) for x in sst], ostr]
                      for (s, l, oi, oj, sub, sst, ostr) in edt.exp_decaying_terms],
            'centered': [[oc.gq(s), lam_l(l), oi, oj, int(i), [int(x) for x in sub], ostr]
                         for (s, l, oi, oj, i, sub, ostr) in edt.centered_terms]}


def norm_num(x):
    """normalise every [re, im] pair inside a JSON value (ints vs 'p/q' strings)"""
    if isinstance(x, list):
        if len(x) == 2 and all(isinstance(v, (int, str)) and not isinstance(v, bool) for v in x) and _is_num(x[0]) and _is_num(x[1]):
            return oc.norm_gq(x)
        return [norm_num(v) for v in x]
    if isinstance(x, dict):
        return {k: (norm_num(v) if k != 'op_switch' else v) for k, v in x.items()}
    return x


def _is_num(v):
    if isinstance(v, int):
        return True
    if isinstance(v, str):
        try:
            Fraction(v)
            return True
        except (ValueError, ZeroDivisionError):
            return False
    return False


# ---------------------------------------------------------------------------------------------
# dense matrices of the representations


def pipe_index_map(leg):
    """(number of base states, array m) with m[k] = index inside `leg` of the k-th product state of the
    base (non-pipe) legs in C order; pipes of pipes (grouped sites) are resolved recursively"""
    if not hasattr(leg, 'legs'):
        return leg.ind_len, np.arange(leg.ind_len)
    subs = [pipe_index_map(l) for l in leg.legs]
    sizes = [n for n, _ in subs]
    total = int(np.prod(sizes))
    res = np.empty(total, dtype=np.intp)
    for k, idx in enumerate(itertools.product(*[range(n) for n in sizes])):
        res[k] = leg.map_incoming_flat([int(m[i]) for (_, m), i in zip(subs, idx)])
    return total, res


def ed_dense(ed):
    """full_H of an ExactDiag as ndarray in the Kronecker basis of the (ungrouped) sites' internal bases"""
    arr = ed.full_H.to_ndarray()
    _, m = pipe_index_map(ed._pipe)
    return arr[np.ix_(m, m)]


def grouped_dense(M, n):
    """dense matrix of the model with `n` sites grouped, mapped back to the ungrouped site basis"""
    from tenpy.algorithms.exact_diag import ExactDiag
    M2 = copy.deepcopy(M)
    M2.group_sites(n)
    ed = ExactDiag(M2)
    ed.build_full_H_from_mpo()
    return ed_dense(ed), M2


def representations(M, case, want=None):
    """dict name -> dense ndarray | Exception, for a finite model"""
    from tenpy.algorithms.exact_diag import (ExactDiag, get_numpy_Hamiltonian, get_scipy_sparse_Hamiltonian)
    from tenpy.models.model import NearestNeighborModel, MPOModel, CouplingModel
    reps = {}
    coupling = isinstance(M, CouplingModel)

    def attempt(name, fn):
        if want is not None and name not in want:
            return
        try:
            with warnings.catch_warnings():
                warnings.simplefilter('ignore')
                reps[name] = fn()
        except Exception as e:  # noqa: BLE001
            reps[name] = e

    def from_mpo(model):
        ed = ExactDiag(model)
        ed.build_full_H_from_mpo()
        return ed_dense(ed)

    def from_bonds(model):
        ed = ExactDiag(model)
        ed.build_full_H_from_bonds()
        return ed_dense(ed)

    L = M.lat.N_sites
    D = int(np.prod([s.dim for s in M.lat.mps_sites()]))
    attempt('mpo', lambda: from_mpo(M))
    # the from-couplings exporters build arrays of the wrong (huge) size for centred terms: only small systems
    exporters_ok = coupling and not (any(c['f'] == 'add_centered' for c in case.get('calls', [])) and D > 64)
    if exporters_ok:
        attempt('numpy', lambda: get_numpy_Hamiltonian(M, undo_sort_charge=False))
        attempt('sparse', lambda: get_scipy_sparse_Hamiltonian(M, undo_sort_charge=False).toarray())

    def undo():
        H = get_numpy_Hamiltonian(M, undo_sort_charge=True)
        perm = kron_perm([s.perm for s in M.lat.mps_sites()])
        # H_undo[a, b] = H_int[P a, P b] with P the inverse permutation per site
        return H[np.ix_(perm, perm)]
    if exporters_ok:
        attempt('numpy_undo', undo)

    def mpomodel_numpy():
        MM = MPOModel(M.lat, M.H_MPO)
        return get_numpy_Hamiltonian(MM, undo_sort_charge=False)
    if D <= 128:  # the implementation's own split_legs/to_ndarray path is slow for many small blocks
        attempt('mpomodel_numpy', mpomodel_numpy)

    if L >= 2:
        H_bond = None
        try:
            with warnings.catch_warnings():
                warnings.simplefilter('ignore')
                H_bond = M.calc_H_bond() if coupling else getattr(M, 'H_bond', None)
        except (ValueError, AssertionError) as e:
            # not a nearest-neighbour model (multi-site terms trip `assert len(term) == 2`)
            if isinstance(e, ValueError) and 'nearest' not in str(e).lower() and 'exp_decaying' not in str(e):
                reps['calc_H_bond'] = e
        if H_bond is not None and any(h is not None for h in H_bond):
            nn = NearestNeighborModel(M.lat, H_bond)
            attempt('bonds', lambda: from_bonds(nn))

            def mpo_from_bond():
                H2 = nn.calc_H_MPO_from_bond()
                return from_mpo(MPOModel(M.lat, H2))
            attempt('mpo_from_bond', mpo_from_bond)

            def bond_from_mpo():
                Hb = M.calc_H_bond_from_MPO()
                return from_bonds(NearestNeighborModel(M.lat, Hb))
            attempt('bond_from_mpo', bond_from_mpo)
        if L % 2 == 0 and L >= 4:
            attempt('grouped', lambda: grouped_dense(M, 2)[0])

    def sorted_legs():
        M2 = copy.deepcopy(M)
        M2.H_MPO.sort_legcharges()
        return from_mpo(M2)
    attempt('sorted', sorted_legs)
    return reps


def mpo_window_dense(H, n_sites):
    """dense operator of the terms of an (infinite) MPO lying completely inside sites 0 … n_sites-1:
    contraction of W[0][IdL, :] … W[n-1][:, IdR] (own contraction, no extract_segment); grouped sites are
    resolved into the original ones"""
    import tenpy.linalg.np_conserved as npc
    full = H.get_W(0).take_slice(H.get_IdL(0), 'wL').replace_labels(['p', 'p*'], ['p0', 'p0*'])
    for i in range(1, n_sites):
        W = H.get_W(i).replace_labels(['p', 'p*'], ['p%d' % i, 'p%d*' % i])
        full = npc.tensordot(full, W, axes=['wR', 'wL'])
    full = full.take_slice(H.get_IdR(n_sites - 1), 'wR')
    if H.explicit_plus_hc:
        full = full + full.conj().itranspose(full.get_leg_labels())
    ps = ['p%d' % i for i in range(n_sites)]
    pipe = npc.LegPipe([full.get_leg(p) for p in ps], qconj=1)
    full = full.combine_legs([ps, [p + '*' for p in ps]], new_axes=[0, 1], pipes=[pipe, pipe.conj()])
    arr = full.to_ndarray()
    _, m = pipe_index_map(pipe)
    return arr[np.ix_(m, m)]


def bond_dense(hb):
    """two-site operator (legs p0, p0*, p1, p1*) as a matrix in the Kronecker basis of the two sites"""
    a = hb.transpose(['p0', 'p1', 'p0*', 'p1*']).to_ndarray()
    d0, d1 = a.shape[:2]
    return a.reshape(d0 * d1, d0 * d1)


def bonds_window_dense(H_bond, dims, n_sites):
    """sum of the bond operators lying inside sites 0 … n_sites-1 of an infinite nearest-neighbour model:
    ``H_bond[j % L]`` acts on sites (j-1, j) (documented convention), j = 1 … n_sites-1"""
    L = len(H_bond)
    D = int(np.prod(dims[:n_sites]))
    out = np.zeros((D, D), dtype=complex)
    for j in range(1, n_sites):
        hb = H_bond[j % L]
        if hb is None:
            continue
        dl = int(np.prod(dims[:j - 1]))
        dr = int(np.prod(dims[j + 1:n_sites]))
        out += np.kron(np.eye(dl), np.kron(bond_dense(hb), np.eye(dr)))
    return out


def strip_boundary_onsite(Dm, dims):
    """remove from a window operator the parts X (x) 1 … 1 and 1 … 1 (x) Y acting on the first / last site only and the
    multiple of the identity.  Two decompositions of one translation invariant nearest-neighbour operator into terms
    (on-site parts attributed to bonds or not) restricted to a window differ by exactly such terms."""
    n = Dm.shape[0]
    d0, dl = int(dims[0]), int(dims[-1])
    r0, rl = n // d0, n // dl
    X = np.einsum('aibi->ab', Dm.reshape(d0, r0, d0, r0)) / r0
    Y = np.einsum('iaib->ab', Dm.reshape(rl, dl, rl, dl)) / rl
    c = np.trace(Dm) / n
    return Dm - np.kron(X, np.eye(r0)) - np.kron(np.eye(rl), Y) + c * np.eye(n)


def rho_window_dense(psi, n_sites, first=0):
    """reduced density matrix of sites first … first+n_sites-1 as a matrix in the Kronecker basis"""
    rho = psi.get_rho_segment(list(range(first, first + n_sites)))
    ps = ['p%d' % k for k in range(n_sites)]
    a = rho.transpose(ps + [p + '*' for p in ps]).to_ndarray()
    D = int(np.prod(a.shape[:n_sites]))
    return a.reshape(D, D)


def random_imps(sites, seed, chi=3, width=None):
    """random infinite MPS: dense complex tensors for sites without charges, else a random product of basis states"""
    from tenpy.networks.mps import MPS
    rs = np.random.RandomState(seed)
    L = len(sites)
    if all(s.leg.chinfo.qnumber == 0 for s in sites):
        Bs = [rs.normal(size=(s.dim, chi, chi)) + 1j * rs.normal(size=(s.dim, chi, chi)) for s in sites]
        psi = MPS.from_Bflat(sites, Bs, [np.ones(chi) / np.sqrt(chi)] * (L + 1), bc='infinite', form=None,
                             unit_cell_width=width or L)
        psi.canonical_form()
        return psi
    state = [int(rs.randint(s.dim)) for s in sites]
    return MPS.from_product_state(sites, state, bc='infinite', permute=False, unit_cell_width=width or L)


def kron_perm(perms):
    """permutation of the Kronecker basis induced by per-site permutations:
    index (a_0, a_1, …) ↦ (perm_0[a_0], perm_1[a_1], …)"""
    dims = [len(p) for p in perms]
    idx = np.arange(int(np.prod(dims))).reshape(dims)
    res = idx[np.ix_(*[np.asarray(p) for p in perms])]
    return res.reshape(-1)


# ---------------------------------------------------------------------------------------------
# oracle


def lattice_positions(lat, n_cells=1):
    """all (x, u) with x in the (possibly repeated along x) lattice; returns dict (x.., u) -> mps index"""
    pos = {}
    N = lat.N_sites
    for c in range(n_cells):
        for i, idx in enumerate(lat.order):
            key = (int(idx[0]) + c * lat.Ls[0],) + tuple(int(v) for v in idx[1:])
            pos[key] = i + c * N
    return pos


def oracle_terms(case, lat, n_cells=1):
    """the intended operator of every call as a list of (coefficient, [(opname, mps_site)…] in
    multiplication order, plus_hc flag) from the documented meaning of the adders; lattice
    positions enumerated by brute force.  For infinite MPS: all translates inside `n_cells` cells."""
    pos = lattice_positions(lat, n_cells)
    finite = lat.bc_MPS == 'finite'
    Ls = list(lat.Ls)
    bc_open = [bool(b) for b in lat.bc]          # True = open
    dim = lat.dim
    Lx_total = Ls[0] * n_cells
    terms = []

    def boxes(dxs):
        """all placements of a box of operators with offsets `dxs`: yields (strength index, [lattice idx…]).
        Following the docstrings of add_coupling / add_multi_coupling: operator m sits at x + dx_m; along an
        open direction the whole box has to fit, along a periodic one positions wrap; the strength array has
        shape Ls - box_size*open and its entry [0,…] belongs to the first box fitting into the lattice."""
        mins = [min(d[a] for d in dxs) for a in range(dim)]
        maxs = [max(d[a] for d in dxs) for a in range(dim)]
        shape = [l - (mx - mn) * int(o) for l, mx, mn, o in zip(Ls, maxs, mins, bc_open)]
        if any(v <= 0 for v in shape):
            return shape, []
        res = []
        ranges = []
        for a in range(dim):
            if a == 0 and not finite:
                ranges.append(range(-(maxs[0] - mins[0]) - Ls[0], Lx_total + Ls[0]))
            else:
                ranges.append(range(shape[a]))
        for idx in itertools.product(*ranges):
            ps, ok = [], True
            for d in dxs:
                y = []
                for a in range(dim):
                    v = idx[a] + d[a] - mins[a]
                    if a == 0 and not finite:
                        if not (0 <= v < Lx_total):
                            ok = False
                    elif bc_open[a]:
                        assert 0 <= v < Ls[a]
                    else:
                        v = v % Ls[a]
                    y.append(v)
                ps.append(tuple(y))
            if ok:
                res.append((tuple(idx[a] % shape[a] for a in range(dim)), ps))
        return shape, res

    def base_points():
        rng0 = range(Lx_total) if not finite else range(Ls[0])
        return itertools.product(rng0, *[range(l) for l in Ls[1:]])

    from tenpy.tools.misc import to_array  # tiling convention of strength arrays (tools, not model code)
    for call in case['calls']:
        f = call['f']
        ph = bool(call.get('plus_hc', False))
        s = oc.strength_to_np(call['strength'])
        if f in ('add_onsite', 'add_coupling', 'add_multi_coupling') and not np.any(np.asarray(s) != 0.):
            continue  # "nothing to do: can even accept non-defined onsite operators"
        if f == 'add_onsite':
            arr = to_array(s, Ls)
            for x in base_points():
                i = pos.get(tuple(x) + (call['u'],))
                if i is None:
                    continue
                xi = tuple(v % l for v, l in zip(x, Ls))
                terms.append((complex(arr[xi]), [(call['op'], i)], ph))
        elif f in ('add_coupling', 'add_multi_coupling'):
            if f == 'add_coupling':
                ops = [(call['op1'], [0] * dim, call['u1']), (call['op2'], list(call['dx']), call['u2'])]
            else:
                ops = [(o[0], list(o[1]), o[2]) for o in call['ops']]
            shape, bxs = boxes([o[1] for o in ops])
            if not bxs:
                continue
            arr = to_array(s, shape)
            ostr = call.get('op_string') if f == 'add_coupling' else None
            for idx, ps in bxs:
                sites = [pos.get(p + (o[2],)) for p, o in zip(ps, ops)]
                if any(v is None for v in sites):
                    continue
                if ostr is not None and ostr != 'JW':
                    # explicit string between the two (bosonic) operators: plain tensor product
                    i, j = sites
                    od = {i: ops[0][0], j: ops[1][0]}
                    for k in range(min(i, j) + 1, max(i, j)):
                        od[k] = ostr
                    terms.append(('string', complex(arr[idx]), od, ph))
                else:
                    terms.append((complex(arr[idx]), [(o[0], i) for o, i in zip(ops, sites)], ph))
        elif f == 'add_local_term':
            term = []
            okk = True
            for o, idx in call['term']:
                i = pos.get(tuple(idx))
                if i is None:
                    okk = False
                term.append((o, i))
            if okk:
                terms.append((complex(s), term, ph))
        elif f == 'add_onsite_term':
            for c in range(n_cells if not finite else 1):
                terms.append((complex(s), [(call['op'], call['i'] + c * lat.N_sites)], ph))
        elif f in ('add_coupling_term', 'add_multi_coupling_term', 'add_exp', 'add_centered'):
            terms.append(('raw', call, ph))
        else:
            raise ValueError(f)
    return terms


def raw_call_matrix(mb, call, N, n_cells=None):
    """many-body matrix of a low-level call whose meaning is a plain operator string
    (n_cells: infinite MPS, all translates by multiples of N that fit into n_cells unit cells)"""
    f = call['f']
    s = oc.strength_to_np(call['strength'])
    H = mb.zero()
    Ltot = N * (n_cells or 1)

    def translates(ops):
        if n_cells is None:
            return [ops]
        res = []
        for sh in range(-n_cells - 4, n_cells + 4):
            o2 = {k + sh * N: v for k, v in ops.items()}
            if all(0 <= k < Ltot for k in o2):
                res.append(o2)
        return res

    if f == 'add_coupling_term':
        ops = {call['i']: call['op_i'], call['j']: call['op_j']}
        for k in range(call['i'] + 1, call['j']):
            ops[k] = call['op_string']
        for o2 in translates(ops):
            H = H + complex(s) * mb.string(o2)
    elif f == 'add_multi_coupling_term':
        ops = {}
        ijkl = call['ijkl']
        for n, (i, o) in enumerate(zip(ijkl, call['ops'])):
            ops[i] = o
            if n + 1 < len(ijkl):
                for k in range(i + 1, ijkl[n + 1]):
                    ops[k] = call['op_string'][n]
        for o2 in translates(ops):
            H = H + complex(s) * mb.string(o2)
    elif f == 'add_exp':
        lam = oc.strength_to_np(call['lambda'])
        lam = np.full(N, lam) if np.isscalar(lam) else np.asarray(lam)
        subs = list(range(N)) if call.get('subsites') is None else list(call['subsites'])
        start = subs if call.get('subsites_start') is None else list(call['subsites_start'])
        if n_cells is not None:  # infinite: the sums over i and j run over all unit cells
            subs = [x + c * N for c in range(n_cells) for x in subs]
            start = [x + c * N for c in range(n_cells) for x in start]
        for i in start:
            for j in subs:
                if j <= i:
                    continue
                pref = lam[i % N] * np.prod([lam[n % N] for n in subs if i < n < j])
                H = H + complex(s) * complex(pref) * mb.product([(call['op_i'], i), (call['op_j'], j)])
    elif f == 'add_centered':
        lam = oc.strength_to_np(call['lambda'])
        lam = np.full(N, lam) if np.isscalar(lam) else np.asarray(lam)
        subs = list(range(N)) if call.get('subsites') is None else list(call['subsites'])
        i = call['i'] % N
        for j in subs:
            if j == i:
                continue
            if j < i:
                pref = np.prod([lam[n] for n in subs if j < n <= i])
            else:
                pref = np.prod([lam[n] for n in subs if i <= n < j])
            H = H + complex(s) * complex(pref) * mb.product([(call['op_i'], i), (call['op_j'], j)])
    return H


def oracle_matrix(case, lat, n_cells=1):
    """intended dense operator; returns (H, A_part, B_part) with H the represented operator:
    explicit_plus_hc=False:  A + B + B†     (B = calls with plus_hc)
    explicit_plus_hc=True :  (A + A†)/2 + B + B†"""
    sites = lat.mps_sites() * n_cells
    mb = oc.ManyBody(sites)
    N = lat.N_sites
    A, B = mb.zero(), mb.zero()
    for t in oracle_terms(case, lat, n_cells):
        if t[0] == 'raw':
            m = raw_call_matrix(mb, t[1], N, n_cells if lat.bc_MPS != 'finite' else None)
        elif t[0] == 'string':
            m = t[1] * mb.string(t[2])
        else:
            c, term, _ = t
            m = c * mb.product(term)
        if t[-1]:
            B = B + m
        else:
            A = A + m
    if case.get('explicit', False):
        H = 0.5 * (A + A.conj().T) + B + B.conj().T
    else:
        H = A + B + B.conj().T
    return oc.dense(H), oc.dense(A), oc.dense(B)


def termlist_matrix(mb, stl, hc=False):
    """matrix of a list of (strength, {site: opname}) strings"""
    H = mb.zero()
    for c, ops in stl:
        H = H + c * mb.string(ops)
    if hc:
        H = H + H.conj().T
    return oc.dense(H)


def container_strings(M, with_strings=True):
    """the operator strings stored in the model's containers: list of (strength, {site: opname});
    `with_strings=False` forgets the operators between the sites (what TermList does)"""
    from tenpy.networks.terms import MultiCouplingTerms
    N = M.lat.N_sites
    res = []
    ot = M.all_onsite_terms()
    for i, d in enumerate(ot.onsite_terms):
        for op, s in d.items():
            res.append((complex(s), {i: op}))
    ct = M.all_coupling_terms()
    if isinstance(ct, MultiCouplingTerms):
        tl = ct._fill_term_list(ct.terms_left, ct._connect_left)
        tr = ct._fill_term_list(ct.terms_right, ct._connect_right)
        for l, r, c in zip(tl, tr, ct.connections):
            if c is None:
                continue
            sw, opsw, shift, s = c
            ops = {}
            last_i, last_str = None, None
            for i, o, st in (l or ()):
                if last_i is not None and with_strings:
                    for k in range(last_i + 1, i):
                        ops[k] = last_str
                ops[i] = o
                last_i, last_str = i, st
            if last_i is not None and with_strings:
                for k in range(last_i + 1, sw):
                    ops[k] = last_str
            if with_strings or opsw != (last_str if last_str is not None else ''):
                ops[sw] = opsw
            last_i = sw
            for i, o, st in reversed(r or ()):
                i = i + shift
                if with_strings:
                    for k in range(last_i + 1, i):
                        ops[k] = st
                ops[i] = o
                last_i = i
            res.append((complex(s), ops))
    else:
        for i, d1 in ct.coupling_terms.items():
            for (opi, ostr), d2 in d1.items():
                for j, d3 in d2.items():
                    for opj, s in d3.items():
                        ops = {i: opi, j: opj}
                        if with_strings:
                            for k in range(i + 1, j):
                                ops[k] = ostr
                        res.append((complex(s), ops))
    edt = M.exp_decaying_terms
    for (s, lam, oi, oj, subs, sst, ostr) in edt.exp_decaying_terms:
        lam = np.full(N, lam) if np.isscalar(lam) else np.asarray(lam)
        for i in sst:
            for j in subs:
                if j <= i:
                    continue
                pref = lam[i] * np.prod([lam[n] for n in subs if i < n < j])
                ops = {int(i): oi, int(j): oj}
                if with_strings:
                    for k in range(i + 1, j):
                        ops[int(k)] = ostr
                res.append((complex(s) * complex(pref), ops))
    for (s, lam, oi, oj, i, subs, ostr) in edt.centered_terms:
        lam = np.full(N, lam) if np.isscalar(lam) else np.asarray(lam)
        for j in subs:
            if j == i:
                continue
            if j < i:
                pref = np.prod([lam[n] for n in subs if j < n <= i])
            else:
                pref = np.prod([lam[n] for n in subs if i <= n < j])
            ops = {int(i): oi, int(j): oj}
            if with_strings:
                for k in range(min(i, j) + 1, max(i, j)):
                    ops[int(k)] = ostr
            res.append((complex(s) * complex(pref), ops))
    return res
