"""C02: generation of the initial tensors of a history (pure data; every choice from the given PRNG) and their
construction as real `npc.Array`s (valid tensors: some blocks missing, some stored blocks all-zero, rows possibly in
arbitrary order with `_qdata_sorted=False`)."""
import itertools

import numpy as np

from vlib import npcgen

DTYPES = ['float64', 'float64', 'complex128', 'complex128', 'int64', 'float32', 'complex64']
ALPHABET = ['a', 'b', 'c', 'd', 'e', 'f']


def reachable_qtotals(mods, legs):
    """charges of all block combinations (cap on the grid size)"""
    grids = [range(len(l['charges'])) for l in legs]
    n = 1
    for g in grids:
        n *= max(1, len(g))
    if n > 400:
        return []
    out = []
    for idx in itertools.product(*grids):
        tot = [sum(l['charges'][i][k] * l['qconj'] for i, l in zip(idx, legs)) for k in range(len(mods))]
        v = npcgen.valid(mods, tot)
        if v not in out:
            out.append(v)
    return out


def conj_leg(d):
    d = dict(d)
    d['qconj'] = -d['qconj']
    return d


def gen_init(rng, thorough=False):
    mods = npcgen.gen_mods(rng)
    npool = rng.choice([2, 3, 3, 4])
    zero_size = rng.random() < 0.08
    pool = [npcgen.gen_leg(rng, mods, max_blocks=4, max_size=2 if rng.random() < 0.6 else 3,
                           allow_empty=zero_size) for _ in range(npool)]
    for l in pool:   # a leg of length 0 makes every tensor empty: keep them rare
        if npcgen.leg_len(l) == 0:   # from_func cannot build tensors with a leg without blocks
            l['slices'], l['charges'] = [0, 1], [npcgen.gen_charge(rng, mods)]
    if rng.random() < 0.5:  # a length-1 leg for squeeze
        pool.append(dict(mods=list(mods), slices=[0, 1], charges=[npcgen.gen_charge(rng, mods)],
                         qconj=rng.choice([1, -1]), ctor='qind'))
    tensors = []
    nt = rng.choice([1, 2, 2, 3])
    for t in range(nt):
        rank = rng.choices([1, 2, 3, 4], weights=[2, 5, 4, 1])[0]
        legs = []
        for _ in range(rank):
            i = rng.randrange(len(pool))
            legs.append(dict(pool=i, conj=rng.random() < 0.4))
        ldicts = [conj_leg(pool[l['pool']]) if l['conj'] else pool[l['pool']] for l in legs]
        reach = reachable_qtotals(mods, ldicts)
        if reach and rng.random() < 0.9:
            qtotal = rng.choice(reach)
        else:
            qtotal = npcgen.gen_charge(rng, mods)
        if rng.random() < 0.6:
            labels = rng.sample(ALPHABET, rank)
            if rng.random() < 0.2:
                labels[rng.randrange(rank)] = None
        else:
            labels = None
        tensors.append(dict(name=f'i{t}', legs=legs, qtotal=qtotal, dtype=rng.choice(DTYPES), labels=labels,
                            dseed=rng.randrange(10 ** 6), p_drop=rng.choice([0.0, 0.3, 0.3, 0.6]),
                            p_zero=rng.choice([0.0, 0.0, 0.1, 0.3]), shuffle=rng.random() < 0.4,
                            via=rng.choice(['from_func', 'from_func', 'from_ndarray'])))
    init = dict(mods=mods, pool=pool, tensors=tensors)
    # some histories live on a DipolarChargeInfo (charge 0 = the charge, charge 1 = its dipole moment): the only
    # ChargeInfo whose shift_charges / shift_charges_horizontal act non-trivially
    if len(mods) >= 2 and (mods[0] == 1 or (mods[1] != 1 and mods[0] % mods[1] == 0)) and rng.random() < 0.5:
        init['dipolar'] = dict(charge_idcs=[0], dipole_idcs=[1], dipole_dims=[0])
    return init


def int_func(rs, dtype):
    cplx = np.dtype(dtype).kind == 'c'

    def f(shape):
        x = rs.randint(-3, 4, size=shape).astype(np.float64)
        if cplx:
            return x + 1j * rs.randint(-3, 4, size=shape)
        return x
    return f


def build_one(t, pool_legs, io, npc):
    legs = [pool_legs[l['pool']].conj() if l['conj'] else pool_legs[l['pool']] for l in t['legs']]
    rs = np.random.RandomState(t['dseed'])
    a = npc.Array.from_func(int_func(rs, t['dtype']), legs, dtype=np.dtype(t['dtype']), qtotal=list(t['qtotal']),
                            labels=t['labels'])
    if t['via'] == 'from_ndarray':
        a = npc.Array.from_ndarray(a.to_ndarray(), legs, dtype=np.dtype(t['dtype']), qtotal=list(t['qtotal']),
                                   labels=t['labels'])
    n = len(a._data)
    keep = [rs.random_sample() >= t['p_drop'] for _ in range(n)]
    a._data = [b for b, k in zip(a._data, keep) if k]
    a._qdata = np.array(a._qdata[np.array(keep, dtype=bool)], dtype=np.intp, order='C').reshape(-1, a.rank)
    for b in a._data:
        if rs.random_sample() < t['p_zero']:
            b[...] = 0
    if t['shuffle'] and len(a._data) > 1:
        perm = rs.permutation(len(a._data))
        a._data = [a._data[i] for i in perm]
        a._qdata = np.array(a._qdata[perm], dtype=np.intp, order='C')
        a._qdata_sorted = False
    return a


def make_leg_ci(d, ci):
    """like vlib.npcio.make_leg, for a given ChargeInfo instance"""
    from tenpy.linalg.charges import LegCharge, QTYPE
    ch = np.array(d['charges'], dtype=QTYPE).reshape(len(d['charges']), len(d['mods']))
    if d.get('ctor', 'init') == 'qind':
        return LegCharge.from_qind(ci, d['slices'], ch, d['qconj'])
    return LegCharge(ci, d['slices'], ch, d['qconj'])


def build_init(init, io, npc):
    if init.get('dipolar'):
        from tenpy.linalg.charges import DipolarChargeInfo
        dp = init['dipolar']
        ci = DipolarChargeInfo(list(init['mods']), None, list(dp['charge_idcs']), list(dp['dipole_idcs']),
                               list(dp['dipole_dims']))
        pool_legs = [make_leg_ci(d, ci) for d in init['pool']]
    else:
        pool_legs = [io.make_leg(d) for d in init['pool']]
    env = {}
    for t in init['tensors']:
        env[t['name']] = build_one(t, pool_legs, io, npc)
    return env, pool_legs
