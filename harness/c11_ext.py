"""C11 extension round: environments / expectation value / variance, re-arrangements (sort_legcharges, group_sites,
enlarge_mps_unit_cell, extract_segment), the glue of the decision procedures (overlap windows, explicit_plus_hc
branches, is_equal / is_hermitian / distance) and to_TermList — real tenpy code vs the Lean models
lean/TenpyModel/C11/Ext{Env,Struct,Decide,Terms}.lean (driver op "ext"), plus the dense oracle for each operation.

A case is {'kind': 'ext', 'base': <W or terms case of c11_lib>, 'ops': {...}, 'seed': int}.  All numbers are small
Gaussian integers / dyadic rationals, so the float arithmetic of the implementation is exact and values are compared
exactly; tolerances only where site matrices are irrational (spin 1, bosons)."""
import json
import subprocess
import traceback
import warnings
from fractions import Fraction

import numpy as np

from harness import ops_common as oc
from harness import c11_lib as cl
from harness import c11_check as cc
from harness import c10_model as cm

TOL = 1e-10


# ---------------------------------------------------------------------------------------------
# generation


def _rand_range(rng, L):
    return rng.choice([None, None, 'inf', 0, 1, 2, L, L + 1])


def gen_case(rng, quick=True):
    r0 = rng.random()
    if r0 < 0.6:
        base = cl.gen_W_case(rng, quick)
    elif r0 < 0.8:
        base = cl.gen_terms_case(rng, quick)
    else:
        # sites with conserved charges: the virtual legs of the MPO carry charges that are in general not sorted
        while True:
            base = cl.gen_terms_case(rng, quick)
            if base['site']['kw'].get('conserve') is not None:
                break
    for k in ('plus_identity', 'UI', 'prefactor', 'apply', 'epc', 'B_is_A_plus_one'):
        base.pop(k, None)
    L, finite = base['L'], base['finite']
    W = base['kind'] == 'W'
    chargeless = W or base['site']['kw'].get('conserve') is None
    ops = {}
    has_B = ('WB' in base) or ('tlB' in base)
    # operate on the sum A + B (markers IdR = -1) instead of A
    if has_B and rng.random() < 0.3:
        ops['use_sum'] = True
    # a malformed stream: missing outer markers
    if rng.random() < 0.06:
        ops['drop_marker'] = rng.choice(['IdL0', 'IdRL'])
    ops['max_range'] = _rand_range(rng, L)
    ops['plus_hc'] = rng.random() < 0.3
    r = rng.random()
    if finite and chargeless and r < 0.6:
        cmax = rng.choice([2, 2, 3])
        d_chi = [1] + [rng.randint(1, cmax) for _ in range(L - 1)] + [1]
        # the model evaluates two cuts (the implementation all of them, against the dense oracle)
        cuts = sorted({0, rng.randrange(L)}) + ([L] if rng.random() < 0.2 else [])
        ops['env'] = {'chi': d_chi, 'seed': rng.randrange(1 << 30), 'Spow': rng.random() < 0.4,
                      'bra': rng.random() < 0.4, 'cplx': rng.random() < 0.6, 'cuts': cuts}
    if rng.random() < (0.3 if chargeless else 0.9):
        ops['sort'] = True
    if rng.random() < 0.45:
        n = rng.choice([1, 2, 2, 2, 3, 3, 0, L, L + 1])
        ops['group'] = {'n': n}
        if rng.random() < 0.15:
            ops['group']['sizes_from_n'] = rng.choice([1, 2, 3])    # grouped_sites built for another n (assert)
    if rng.random() < 0.35:
        ops['enlarge'] = {'factor': rng.choice([0, 1, 2, 2, 3])}
    if rng.random() < 0.45:
        first = rng.randint(0, 2 * L)
        last = first + rng.randint(-1, 2 * L)
        ops['segment'] = {'first': first, 'last': max(last, 0)}
    if has_B and rng.random() < 0.8:
        dec = {'max_range_B': _rand_range(rng, L), 'plus_hc_B': rng.random() < 0.3,
               'num_sites': rng.choice([None, None, L, L + 1, 2 * L + 1, 3 * L]) if not finite else None,
               'is_equal_max_range': rng.choice([None, None, 0, 1, 2, 'inf']) if not finite else rng.choice([None, 1])}
        if not finite and rng.random() < 0.3:
            dec['B_enlarged'] = rng.choice([2, 3])       # B = A with a larger unit cell (L_B != L_A)
        if rng.random() < 0.05:
            dec['mixed_bc'] = True                       # finite vs infinite operand: ValueError
        ops['decide'] = dec
    if rng.random() < 0.5:
        ops['hermitian'] = {'max_range': rng.choice([None, None, 1, 2]) if not finite else None}
    if has_B and rng.random() < 0.6:
        # A + B with attributes on both operands (flag, max_range); rarely different flags (ValueError)
        ops['add'] = {'max_range_B': _rand_range(rng, L), 'flag_mismatch': rng.random() < 0.08,
                      'seed': rng.randrange(1 << 30), 'chi': [1] + [rng.randint(1, 2) for _ in range(L - 1)] + [1]}
    if ops['plus_hc'] and rng.random() < 0.5:
        ops['flag_rejects'] = True
    if ops.get('use_sum') and rng.random() < 0.7:
        ops['ui'] = {'dt': [oc.fr_str(Fraction(rng.randint(-2, 2), 4)), oc.fr_str(Fraction(rng.choice([-1, 1, 2]), 4))]}
    if W and rng.random() < 0.6:
        d = base['d']
        start = None
        if rng.random() < 0.5:
            start = [rng.randrange(L) for _ in range(rng.randint(1, 3))]
            if rng.random() < 0.15:
                start.append(L + rng.randint(0, 2))      # outside a finite chain: IndexError
        ign = [[rng.randrange(d), rng.randrange(d)] for _ in range(rng.randint(0, 2))]
        ops['termlist'] = {'start': start, 'max_range': rng.choice([None, None, 0, 1, 2, 2 * L]), 'ignore': ign}
    return {'kind': 'ext', 'base': base, 'ops': ops, 'seed': rng.randrange(1 << 30)}


def gen_cases(rng, n, quick=True):
    with warnings.catch_warnings():
        warnings.simplefilter('ignore')
        return [gen_case(rng, quick) for _ in range(n)]


def case_hist(case):
    b, ops = case['base'], case['ops']
    h = ['ext_base=' + b['kind'], 'ext_finite=%s' % b['finite'], 'ext_L=%d' % b['L']]
    for k in ('env', 'sort', 'group', 'enlarge', 'segment', 'decide', 'hermitian', 'termlist', 'use_sum', 'drop_marker', 'ui', 'add', 'flag_rejects'):
        if k in ops:
            h.append('ext_op=' + k)
    h.append('ext_max_range=%s' % ops.get('max_range'))
    h.append('ext_plus_hc=%s' % ops.get('plus_hc'))
    if 'env' in ops:
        h.append('ext_env_bra_is_ket=%s' % (not ops['env']['bra']))
        h.append('ext_env_chi_max=%d' % max(ops['env']['chi']))
    if 'group' in ops:
        h.append('ext_group_n=%s' % ops['group']['n'])
    if 'decide' in ops:
        h.append('ext_decide_flags=%s/%s' % (ops.get('plus_hc'), ops['decide']['plus_hc_B']))
        h.append('ext_decide_num_sites=%s' % ops['decide'].get('num_sites'))
    return h


def nontrivial(case):
    b = case['base']
    if b['kind'] == 'W':
        return max(b['chi']) > 2
    return any(len(t) >= 2 for t, _ in b['tlA'])


# ---------------------------------------------------------------------------------------------
# real objects


def _py_range(x):
    return np.inf if x == 'inf' else x


def build(case):
    """A (the operand), B (partner or None) with the attributes set as the case says"""
    base, ops = case['base'], case['ops']
    if base['kind'] == 'W':
        A = cl.W_to_mpo(base, base['WA'])
        B = cl.W_to_mpo(base, base['WB'], 'B') if 'WB' in base else None
    else:
        A = cl.terms_to_mpo(base, base['tlA'])
        B = cl.terms_to_mpo(base, base['tlB'], 'B') if 'tlB' in base else None
    if ops.get('use_sum') and B is not None and cc.can_add(A, B):
        # both operands carry the flag; the sum has to inherit it (it is NOT set again on the result)
        A.explicit_plus_hc = bool(ops.get('plus_hc'))
        B2 = B.copy()
        B2.explicit_plus_hc = bool(ops.get('plus_hc'))
        A = A + B2
    else:
        A.explicit_plus_hc = bool(ops.get('plus_hc'))
    A.max_range = _py_range(ops.get('max_range'))
    if ops.get('drop_marker') == 'IdL0':
        A.IdL[0] = None
    elif ops.get('drop_marker') == 'IdRL':
        A.IdR[-1] = None
    dec = ops.get('decide')
    if dec is not None and B is not None:
        if dec.get('B_enlarged'):
            B = A.copy()
            B.enlarge_mps_unit_cell(dec['B_enlarged'])
        if dec.get('mixed_bc'):
            B = _other_bc(B)
        B.max_range = _py_range(dec.get('max_range_B'))
        B.explicit_plus_hc = bool(dec.get('plus_hc_B'))
    return A, B


def build_operands(case):
    """the two stored operands of the case without any attribute set"""
    base = case['base']
    if base['kind'] == 'W':
        return cl.W_to_mpo(base, base['WA']), cl.W_to_mpo(base, base['WB'], 'B')
    return cl.terms_to_mpo(base, base['tlA']), cl.terms_to_mpo(base, base['tlB'], 'B')


def _other_bc(H):
    """the same tensors declared with the other boundary condition (only used to provoke the ValueError)"""
    from tenpy.networks.mpo import MPO
    try:
        return MPO(H.sites, [H.get_W(i) for i in range(H.L)], 'infinite' if H.finite else 'finite', list(H.IdL), list(H.IdR),
                   max_range=H.max_range, mps_unit_cell_width=H.unit_cell_width)
    except Exception:  # noqa: BLE001
        return H


def make_mps(sites, spec, which):
    """finite MPS with small (Gaussian) integer tensors, singular values 1 or powers of two; not canonical"""
    import tenpy.linalg.np_conserved as npc
    from tenpy.networks.mps import MPS
    rs = np.random.RandomState((spec['seed'] + (7919 if which == 'bra' else 0)) % (1 << 31))
    chi = spec['chi']
    L = len(sites)
    Bs = []
    for i in range(L):
        shape = (chi[i], sites[i].dim, chi[i + 1])
        B = rs.randint(-2, 3, size=shape).astype(complex)
        if spec.get('cplx'):
            B = B + 1j * rs.randint(-1, 2, size=shape)
        else:
            B = B.real.copy()
        Bs.append(npc.Array.from_ndarray_trivial(B, labels=['vL', 'p', 'vR']))
    if spec.get('Spow'):
        SVs = [2.0 ** rs.randint(-1, 2, size=c) for c in chi]
    else:
        SVs = [np.ones(c) for c in chi]
    return MPS(sites, Bs, SVs, 'finite', 'B', unit_cell_width=L)


def mps_json(psi):
    def lay(form):
        out = []
        for i in range(psi.L):
            B = psi.get_B(i, form).transpose(['vL', 'vR', 'p']).to_ndarray()
            out.append([[int(a), int(b), int(p), oc.gq(B[a, b, p])] for a, b, p in zip(*np.nonzero(B))])
        return out
    S = [[oc.gq(x) for x in psi.get_SL(i)] for i in range(psi.L)] + [[oc.gq(x) for x in psi.get_SR(psi.L - 1)]]
    return {'A': lay('A'), 'B': lay('B'), 'S': S, 'chi': [int(c) for c in psi.chi] if len(psi.chi) == psi.L + 1
            else [int(psi.get_B(0, 'B').get_leg('vL').ind_len)] + [int(psi.get_B(i, 'B').get_leg('vR').ind_len) for i in range(psi.L)]}


def mps_vector(psi):
    """dense state the tensors stand for: theta[0] B[1] ... B[L-1] (outer bonds of dimension 1)"""
    v = psi.get_theta(0, 1).transpose(['vL', 'p0', 'vR']).to_ndarray()[0]
    for i in range(1, psi.L):
        v = np.tensordot(v, psi.get_B(i, 'B').transpose(['vL', 'p', 'vR']).to_ndarray(), axes=[-1, 0])
    return v[..., 0].reshape(-1)


def leg_charges(leg):
    """raw charges per index of a leg (what LegPipe([leg], qconj=leg.qconj) sorts by)"""
    q = np.repeat(np.asarray(leg.charges), leg.get_block_sizes(), axis=0)
    return [[int(x) for x in row] for row in q]


def bond_charges(H):
    qs = [leg_charges(H.get_W(i).get_leg('wL')) for i in range(H.L)]
    qs.append(leg_charges(H.get_W(H.L - 1).get_leg('wR')))
    return qs


def segment_dense(H, first, last):
    """own contraction of W[first] ... W[last] between IdL[first] and IdR[last+1] (no extract_segment)"""
    import tenpy.linalg.np_conserved as npc
    n = last + 1 - first
    full = H.get_W(first).take_slice(H.get_IdL(first), 'wL').replace_labels(['p', 'p*'], ['p0', 'p0*'])
    for k in range(1, n):
        W = H.get_W(first + k).replace_labels(['p', 'p*'], ['p%d' % k, 'p%d*' % k])
        full = npc.tensordot(full, W, axes=['wR', 'wL'])
    full = full.take_slice(H.get_IdR(last), 'wR')
    ps = ['p%d' % i for i in range(n)]
    pipe = npc.LegPipe([full.get_leg(p) for p in ps], qconj=1)
    full = full.combine_legs([ps, [p + '*' for p in ps]], new_axes=[0, 1], pipes=[pipe, pipe.conj()])
    arr = full.to_ndarray()
    _, m = cm.pipe_index_map(pipe)
    return arr[np.ix_(m, m)]


def grouped_json(G, sizes, dims):
    """tensors of a grouped MPO with the physical index of each grouped site resolved into the product names
    "a0.a1…" of the original sites"""
    W = []
    i0 = 0
    for g, s in enumerate(sizes):
        w = G.get_W(g).transpose(['wL', 'wR', 'p', 'p*']).to_ndarray()
        _, m = cm.pipe_index_map(G.sites[g].leg) if hasattr(G.sites[g].leg, 'legs') else (None, np.arange(w.shape[2]))
        inv = np.empty(len(m), dtype=int)
        inv[m] = np.arange(len(m))
        ds = dims[i0:i0 + s]

        def name(k):
            idx = []
            for dd in reversed(ds):
                idx.append(k % dd)
                k //= dd
            return '.'.join(str(x) for x in reversed(idx))
        ents = []
        for l, r, a, b in zip(*np.nonzero(w)):
            ents.append([int(l), int(r), name(int(inv[a])), name(int(inv[b])), oc.gq(w[l, r, a, b])])
        W.append(ents)
        i0 += s
    chi = [int(x) for x in G.chi]
    return {'chi': chi, 'idL': [None if x is None else int(x) % chi[b] for b, x in enumerate(G.IdL)],
            'idR': [None if x is None else int(x) % chi[b] for b, x in enumerate(G.IdR)], 'W': W}


def norm_named(j):
    W = []
    for ents in j['W']:
        acc = {}
        for l, r, a, b, c in ents:
            k = (l, r, str(a), str(b))
            z = oc.gq_key(c)
            p = acc.get(k, (Fraction(0), Fraction(0)))
            acc[k] = (p[0] + z[0], p[1] + z[1])
        W.append(sorted([[l, r, a, b, [oc.fr_str(z[0]), oc.fr_str(z[1])]] for (l, r, a, b), z in acc.items() if z != (0, 0)],
                        key=lambda e: json.dumps(e[:4])))
    return {'chi': list(j['chi']), 'idL': list(j['idL']), 'idR': list(j['idR']), 'W': W}


def range_json(r):
    if r is None:
        return None
    if r == np.inf or r == 'inf':
        return 'inf'
    return int(r)


def mpox_json(H):
    j = cl.mpo_json(H)
    j['maxRange'] = range_json(H.max_range)
    j['plusHc'] = bool(H.explicit_plus_hc)
    j['finite'] = bool(H.finite)
    return j


# ---------------------------------------------------------------------------------------------
# one case: real side (every operation in its own try), request for the model, comparison


class Raised:
    """marker for "the implementation raised" (compared with `null` of the model)"""

    def __init__(self, e):
        self.name = type(e).__name__
        self.msg = str(e)[:200]

    def __repr__(self):
        return f'Raised({self.name}: {self.msg})'


def call(fn):
    try:
        with warnings.catch_warnings():
            warnings.simplefilter('ignore')
            return fn()
    except Exception as e:  # noqa: BLE001
        return Raised(e)


def real_side(case):
    from tenpy.networks.mpo import MPOEnvironment
    from tenpy.networks import site as tsite
    base, ops = case['base'], case['ops']
    A, B = build(case)
    L, finite = A.L, A.finite
    dims = [s.dim for s in A.sites]
    R = {'A': A, 'B': B, 'dims': dims}
    req = {'k': 'ext', 'd': dims, 'finite': finite, 'A': mpox_json(A)}
    if 'env' in ops:
        e = ops['env']
        psi = make_mps(A.sites, e, 'ket')
        phi = make_mps(A.sites, e, 'bra') if e['bra'] else psi
        R['psi'], R['phi'] = psi, phi
        req['psi'] = mps_json(psi)
        if e['bra']:
            req['phi'] = mps_json(phi)
        req['cuts'] = e['cuts']
        env = call(lambda: MPOEnvironment(phi, A, psi))
        R['env_init'] = env
        all_cuts = sorted(set(range(L)) | set(e['cuts']))
        R['all_cuts'] = all_cuts
        if isinstance(env, Raised):
            R['full_contraction_all'] = [env for _ in all_cuts]
        else:
            R['full_contraction_all'] = [call(lambda: complex(env.full_contraction(i0))) for i0 in all_cuts]
        R['full_contraction'] = [R['full_contraction_all'][all_cuts.index(i0)] for i0 in e['cuts']]
        # the two-layer network of the variance has |ket|·|W|²·|bra| edges per site in the model: small cases only
        cost = max((len(req['psi']['B'][i]) ** 2) * (len(req['A']['W'][i]) ** 2) for i in range(L))
        req['var'] = bool(cost <= 40000)
        R['ev'] = call(lambda: complex(A.expectation_value(psi)))
        R['variance'] = call(lambda: complex(A.variance(psi)))
        R['var_contr'] = call(lambda: complex(_variance_contr(A, psi)))
    # copy / dagger: always (cheap); the flag and the denoted operator must survive
    R['copy'] = call(lambda: A.copy())
    R['dagger'] = call(lambda: A.dagger())
    if 'add' in ops and B is not None:
        ad = ops['add']
        A0, B0 = build_operands(case)
        A0.explicit_plus_hc = bool(ops.get('plus_hc'))
        B0.explicit_plus_hc = bool(ops.get('plus_hc')) != bool(ad['flag_mismatch'])
        A0.max_range = _py_range(ops.get('max_range'))
        B0.max_range = _py_range(ad['max_range_B'])
        R['add_operands'] = (A0, B0)
        if A0.finite or (cc.markers_everywhere(A0) and cc.markers_everywhere(B0)):
            req['add'] = {'A0': mpox_json(A0), 'B0': mpox_json(B0)}
        R['add'] = call(lambda: A0 + B0)
        R['add_rev'] = call(lambda: B0 + A0)
    if ops.get('flag_rejects') and A.explicit_plus_hc:
        psi0 = None
        if finite and all(s_.leg.chinfo.qnumber == 0 for s_ in A.sites):
            psi0 = make_mps(A.sites, {'seed': case['seed'], 'chi': [1] * (L + 1)}, 'ket')
        R['flag_rejects'] = {
            'plus_identity': call(lambda: A.plus_identity(1., 2.)) if finite else None,
            'make_U_I': call(lambda: A.make_U_I(0.1)),
            'make_U_II': call(lambda: A.make_U_II(0.1)),
            'variance': call(lambda: A.variance(psi0)) if psi0 is not None else None,
        }
    if 'sort' in ops:
        req['sort'] = {'q': bond_charges(A)}

        def do_sort():
            S = A.copy()
            S.sort_legcharges()
            return S
        R['sort'] = call(do_sort)
    if 'group' in ops:
        g = ops['group']
        sizes = None
        gs = None
        if 'sizes_from_n' in g and g['sizes_from_n'] >= 1:
            gs = call(lambda: tsite.group_sites(A.sites, g['sizes_from_n'], charges='same'))
            if not isinstance(gs, Raised):
                sizes = [s.n_sites for s in gs]
        req['group'] = {'n': g['n'], 'sizes': sizes}

        def do_group():
            G = A.copy()
            G.group_sites(g['n'], grouped_sites=None if sizes is None else gs)
            return G
        R['group'] = call(do_group)
        R['group_sizes'] = sizes
    if 'enlarge' in ops:
        f = ops['enlarge']['factor']
        req['enlarge'] = {'factor': f, 'window': 1}

        def do_enl():
            E = A.copy()
            E.enlarge_mps_unit_cell(f)
            return E
        R['enlarge'] = call(do_enl)
    if 'segment' in ops:
        s = ops['segment']
        req['segment'] = {'ucw': int(A.unit_cell_width), 'first': s['first'], 'last': s['last']}
        R['segment'] = call(lambda: A.extract_segment(s['first'], s['last']))
    if 'decide' in ops and B is not None:
        dec = ops['decide']
        req['B'] = mpox_json(B)
        ns = dec.get('num_sites')
        req['numSites'] = ns
        req['isEqualMaxRange'] = range_json(dec.get('is_equal_max_range'))
        mr = _py_range(dec.get('is_equal_max_range'))
        dsite = float(np.prod(dims)) ** (1.0 / len(dims))
        n_big = max(_window_sizes(A, B, ns, mr))
        req['overlapSpec'] = bool(dsite ** n_big <= 3000)
        R['overlap'] = call(lambda: complex(A.overlap(B, understood_infinite=True, num_sites=ns)))
        R['distance'] = call(lambda: complex(A.distance(B, understood_infinite=True, num_sites=ns)))
        R['is_equal'] = call(lambda: bool(A.is_equal(B, max_range=mr)))
        R['is_equal_BA'] = call(lambda: bool(B.is_equal(A, max_range=mr)))
    if 'hermitian' in ops:
        mr = ops['hermitian'].get('max_range')
        req['hermitian'] = {'maxRange': range_json(mr)}
        R['is_hermitian'] = call(lambda: bool(A.is_hermitian(max_range=mr)))
    if 'termlist' in ops:
        t = ops['termlist']
        d = dims[0]
        req['termlist'] = {'start': t['start'], 'maxRange': t['max_range'], 'ignore': t['ignore']}
        basis = [f'E{a}{b}' for a in range(d) for b in range(d)]
        R['termlist'] = call(lambda: A.to_TermList(basis, start=t['start'], max_range=t['max_range'], cutoff=1e-12,
                                                   ignore=[f'E{a}{b}' for a, b in t['ignore']]))
        if has_negative_markers(A):
            A2 = normalised(A)
            R['termlist_norm'] = call(lambda: A2.to_TermList(basis, start=t['start'], max_range=t['max_range'], cutoff=1e-12,
                                                             ignore=[f'E{a}{b}' for a, b in t['ignore']]))
    if 'ui' in ops and cc.markers_everywhere(A) and not A.explicit_plus_hc:
        dt = oc.parse_gq(ops['ui']['dt'])
        R['ui'] = call(lambda: A.make_U_I(dt))
        A2 = normalised(A)
        R['ui_norm'] = call(lambda: A2.make_U_I(dt))
    R['req'] = req
    return R


def _srange(H):
    r = H.max_range
    return H.L if (r is None or r == np.inf) else int(r)


def has_negative_markers(H):
    return any(x is not None and x < 0 for x in list(H.IdL) + list(H.IdR))


def normalised(H):
    """the same MPO with every marker spelled as a non-negative index"""
    H2 = H.copy()
    chi = H2.chi
    H2.IdL = [None if x is None else int(x) % chi[b] for b, x in enumerate(H2.IdL)]
    H2.IdR = [None if x is None else int(x) % chi[b] for b, x in enumerate(H2.IdR)]
    return H2


def terms_json(tl):
    return [[[[int(o[1]), int(o[2]), int(i)] for o, i in term], oc.gq(s_)] for term, s_ in zip(tl.terms, tl.strength)]


def _window_sizes(A, B, ns, mr):
    """the numbers of sites overlap / is_equal will contract (for bounding the work of the model's specification)"""
    def srange(H):
        r = H.max_range
        return H.L if (r is None or r == np.inf) else int(r)

    def known(r):
        return r is not None and r < np.inf
    if A.finite:
        return [A.L]
    n_ov = ns if ns is not None else max(A.L + 2 * srange(A), B.L + 2 * srange(B))
    if known(mr):
        n_eq = A.L + 2 * int(mr)
    elif known(A.max_range) and known(B.max_range):
        n_eq = A.L + 2 * int(max(A.max_range, B.max_range))
    else:
        n_eq = 3 * A.L
    return [n_ov, n_eq]


def _variance_contr(A, psi):
    """<psi|H H|psi> as MPO.variance contracts it (exp_val = 0)"""
    return A.variance(psi, exp_val=0.)


def _cnum(j):
    return None if j is None else oc.parse_gq(j)


def _same(a, b, exact, scale=1.0):
    if exact:
        return a == b
    return abs(a - b) <= 1e-9 * max(1.0, scale, abs(a), abs(b))


def _near(a, b, scale=1.0):
    """comparison with the dense oracle (numpy sums: rounding)"""
    return abs(a - b) <= 1e-9 * max(1.0, scale, abs(a), abs(b))


def check(case, R, lo, use_model=True):
    """fails, facts.  R: real side, lo: model output (None without model)"""
    fails, facts = [], {}
    base, ops = case['base'], case['ops']
    A, B, dims = R['A'], R['B'], R['dims']
    L, finite = A.L, A.finite
    exact = base['kind'] == 'W' or base['site']['cls'] in ('SpinHalfSite', 'FermionSite')
    model = use_model and lo is not None
    if model and 'error' in lo:
        fails.append(('correspondence', 'ext.model.driver-error', str(lo['error'])[:400]))
        model = False

    def prop(sig, detail):
        fails.append(('property', 'ext.' + sig, detail))

    def corr(sig, detail):
        fails.append(('correspondence', 'ext.model.' + sig, detail))

    def attempt(sig, fn):
        try:
            with warnings.catch_warnings():
                warnings.simplefilter('ignore')
                return fn()
        except Exception as e:  # noqa: BLE001
            prop(f'{sig}.oracle-error.{type(e).__name__}', traceback.format_exc()[-800:])
            return None

    markers_ok = A.IdL[0] is not None and A.IdR[-1] is not None

    def dense(H, n=None):
        return cl.mpo_dense(H, n or H.L)

    def cmp_value(name, real, mod, scale=1.0):
        """real: complex | Raised; mod: [re, im] | None"""
        if isinstance(real, Raised):
            if mod is not None:
                corr(name + '.raises', f'implementation raised {real!r}, model returns {mod}')
            return
        if mod is None:
            corr(name + '.rejects', f'model rejects, implementation returns {real!r}')
            return
        if not _same(complex(real), _cnum(mod), exact, scale):
            corr(name, f'impl {real!r} model {mod}')

    def cmp_mpo(name, real, mod, to_json=cl.mpo_json, norm=cl.norm_mpo_json):
        if isinstance(real, Raised):
            if mod is not None:
                corr(name + '.raises', f'implementation raised {real!r}, model returns an MPO')
            return False
        if mod is None:
            corr(name + '.rejects', 'model rejects, implementation returns an MPO')
            return False
        got, want = norm(to_json(real)), norm(mod)
        if got != want and not (not exact and cc.mpo_json_close(got, want)):
            for k in ('chi', 'idL', 'idR'):
                if got[k] != want[k]:
                    corr(f'{name}.{k}', f'impl {got[k]} model {want[k]}')
                    return False
            corr(f'{name}.W', f'impl {json.dumps(got["W"])[:400]} model {json.dumps(want["W"])[:400]}')
            return False
        return True

    dA = attempt('dense', lambda: dense(A, L)) if markers_ok else None
    if dA is not None and A.explicit_plus_hc:
        pass  # mpo_window_dense already adds the conjugate for a flagged MPO
    # ---- the attributes through copy / dagger and through the in-place operations ------------------------------
    tolA = TOL * max(1.0, float(np.max(np.abs(dA))) if (dA is not None and dA.size) else 1.0)
    for name in ('copy', 'dagger'):
        X = R.get(name)
        if isinstance(X, Raised):
            prop(f'{name}.error.{X.name}', repr(X))
            continue
        if X.explicit_plus_hc != A.explicit_plus_hc or X.bc != A.bc or X.max_range != A.max_range:
            prop(f'{name}.attributes-changed', f'explicit_plus_hc {A.explicit_plus_hc} -> {X.explicit_plus_hc}, bc {A.bc} -> '
                 f'{X.bc}, max_range {A.max_range} -> {X.max_range}')
        elif dA is not None and X.IdL[0] is not None and X.IdR[-1] is not None:
            dX = attempt(name, lambda: dense(X, L))
            want = dA if name == 'copy' else dA.conj().T
            if dX is not None and oc.maxdiff(dX, want) > tolA:
                prop(f'{name}.dense-mismatch', f'{name}() stands for another operator (flag {A.explicit_plus_hc}): differs by '
                     f'{oc.maxdiff(dX, want):.2e}')
    for name in ('sort', 'group', 'enlarge', 'segment'):
        X = R.get(name)
        if X is not None and not isinstance(X, Raised) and X.explicit_plus_hc != A.explicit_plus_hc:
            prop(f'{name}.explicit_plus_hc-changed', f'{A.explicit_plus_hc} -> {X.explicit_plus_hc}')
    if 'flag_rejects' in R:
        facts['flag_rejects'] = True
        for name, X in R['flag_rejects'].items():
            if X is not None and not (isinstance(X, Raised) and X.name == 'NotImplementedError'):
                prop(f'{name}.explicit_plus_hc-accepted', f'{name} of a flagged MPO: {X!r}')
    # ---- A + B with attributes ------------------------------------------------------------------------------------
    if 'add' in R:
        A0, B0 = R['add_operands']
        ad = ops['add']
        facts['add_attr'] = True
        facts['add_flagged'] = bool(A0.explicit_plus_hc and B0.explicit_plus_hc)
        mism = A0.explicit_plus_hc != B0.explicit_plus_hc
        sumform = cc.can_add(A0, B0)
        for key, X, (P, Q) in (('add', R['add'], (A0, B0)), ('add_rev', R['add_rev'], (B0, A0))):
            if mism:
                if not (isinstance(X, Raised) and X.name == 'ValueError'):
                    prop('add.different-flags-accepted', f'{key}: {X!r}')
                continue
            if not sumform:
                continue
            if isinstance(X, Raised):
                prop(f'add.error.{X.name}', f'{key}: {X!r}')
                continue
            if X.explicit_plus_hc != P.explicit_plus_hc:
                prop('add.explicit_plus_hc-lost', f'{key}: operands flagged {P.explicit_plus_hc}, sum flagged {X.explicit_plus_hc}')
            known_r = P.max_range is not None and Q.max_range is not None
            want_r = max(P.max_range, Q.max_range) if known_r else None
            if X.max_range != want_r:
                prop('add.max_range-wrong', f'{key}: {P.max_range}, {Q.max_range} -> {X.max_range}')
            nwin = L if finite else 2 * L
            if float(np.prod(dims)) ** (nwin / L) <= 1300:
                dP, dQ, dX = (attempt('dense', lambda H=H: dense(H, nwin)) for H in (P, Q, X))
                if dP is not None and dQ is not None and dX is not None:
                    dd = oc.maxdiff(dX, dP + dQ)
                    if dd > TOL * max(1.0, float(np.max(np.abs(dP + dQ))) if dP.size else 1.0):
                        prop('add.flagged-dense-mismatch' if P.explicit_plus_hc else 'add.dense-mismatch',
                             f'{key}: the sum (flag {X.explicit_plus_hc}) stands for an operator that differs from the sum of '
                             f'the operators of the operands (flags {P.explicit_plus_hc}, {Q.explicit_plus_hc}) by {dd:.2e}')
        X = R['add']
        if not mism and sumform and not isinstance(X, Raised) and finite and all(s_.leg.chinfo.qnumber == 0 for s_ in A0.sites):
            # <psi|A + B|psi> = <psi|A|psi> + <psi|B|psi>
            psi = make_mps(A0.sites, {'seed': ad['seed'], 'chi': ad['chi'], 'cplx': True}, 'ket')
            ev = [call(lambda H=H: complex(H.expectation_value(psi))) for H in (X, A0, B0)]
            if not any(isinstance(e, Raised) for e in ev):
                facts['add_expectation'] = True
                if not _near(ev[0], ev[1] + ev[2], abs(ev[1]) + abs(ev[2]) + 1.0):
                    prop('add.expectation-not-additive', f'<psi|A+B|psi> = {ev[0]!r}, <A> + <B> = {ev[1] + ev[2]!r} '
                         f'(flags {A0.explicit_plus_hc}, {B0.explicit_plus_hc} -> {X.explicit_plus_hc})')
        if model and 'add' in lo:
            ma = lo['add']
            if isinstance(X, Raised):
                if ma is not None and (mism or sumform):
                    corr('add.raises', f'implementation raised {X!r}, model returns an MPO')
            elif ma is None:
                corr('add.rejects', 'model rejects, implementation returns an MPO')
            elif sumform:
                if cmp_mpo('add_attr', X, ma['mpo']):
                    if bool(X.explicit_plus_hc) != ma['plusHc'] or bool(X.finite) != ma['finite'] \
                            or range_json(X.max_range) != ma['maxRange']:
                        corr('add.attributes', f'impl flag {X.explicit_plus_hc} finite {X.finite} max_range {X.max_range}; model {ma["plusHc"]} '
                             f'{ma["finite"]} {ma["maxRange"]}')
                    if not ma['full_ok']:
                        corr('add.full_ok', 'model: full(A + B) != full(A) + full(B)')
    # ---- environments ---------------------------------------------------------------------------
    if 'env' in ops:
        psi, phi = R['psi'], R['phi']
        facts['env'] = True
        vk, vb = mps_vector(psi), mps_vector(phi)
        if dA is not None:
            want = complex(np.vdot(vb, dA @ vk))
            sc = abs(want) + 1.0
            for i0, val in zip(R['all_cuts'], R['full_contraction_all']):
                if i0 >= L:
                    if not isinstance(val, Raised):
                        prop('full_contraction.site-outside-chain-accepted', f'full_contraction({i0}) on L={L} returned {val!r}')
                    continue
                if isinstance(val, Raised):
                    if A.explicit_plus_hc and phi is not psi and val.name == 'NotImplementedError':
                        continue    # (repaired behaviour: <bra|H^dagger|ket> cannot be had from <bra|H|ket>)
                    prop(f'full_contraction.error.{val.name}', f'i0={i0}: {val!r}')
                elif not _near(val, want, sc):
                    if A.explicit_plus_hc and phi is not psi:
                        prop('full_contraction.explicit_plus_hc.bra_is_not_ket',
                             f'<bra|H + H^dagger|ket> = {want!r}, full_contraction({i0}) = {val!r} (res + conj(res) is only right '
                             'for bra = ket)')
                    else:
                        prop('full_contraction.dense-mismatch', f'i0={i0}: {val!r} vs <bra|H|ket> = {want!r}')
                    break
            wantev = complex(np.vdot(vk, dA @ vk))
            ev = R['ev']
            if isinstance(ev, Raised):
                prop(f'expectation_value.error.{ev.name}', repr(ev))
            elif not _near(ev, wantev, abs(wantev) + 1.0):
                prop('expectation_value.finite.dense-mismatch', f'{ev!r} vs dense {wantev!r}')
            if not A.explicit_plus_hc:
                wantvar = complex(np.vdot(vk, dA @ (dA @ vk))) - wantev ** 2
                var = R['variance']
                if isinstance(var, Raised):
                    prop(f'variance.error.{var.name}', repr(var))
                elif not _near(var, wantvar, abs(wantvar) + abs(wantev) ** 2 + 1.0):
                    prop('variance.dense-mismatch', f'{var!r} vs dense {wantvar!r}')
            else:
                if not isinstance(R['variance'], Raised):
                    prop('variance.explicit_plus_hc-accepted', f'variance of a flagged MPO returned {R["variance"]!r}')
        else:
            # missing outer marker: the environment cannot be initialised
            if not isinstance(R['env_init'], Raised) and not all(isinstance(v, Raised) for v in R['full_contraction_all']):
                prop('full_contraction.missing-marker-accepted', f'IdL[0]/IdR[L] missing, values {R["full_contraction_all"]}')
        if model:
            for i0, val, mod, spec in zip(ops['env']['cuts'], R['full_contraction'], lo['full_contraction'],
                                          lo['full_contraction_spec'] + [None] * 8):
                if A.explicit_plus_hc and phi is not psi:
                    break       # `res + conj(res)` is meaningless for bra != ket (see the oracle); not compared
                cmp_value(f'full_contraction', val, mod, 1.0)
                if mod is not None and spec is not None and oc.gq_key(mod) != oc.gq_key(spec):
                    corr('full_contraction_ok', f'i0={i0}: model value {mod} != tri(state, denote, state) {spec}')
            cmp_value('expectation_value_finite', R['ev'], lo['ev'])
            if 'variance' in lo:
                facts['variance_model'] = True
                cmp_value('variance', R['variance'], lo['variance'])
            if 'variance' in lo and not isinstance(R['variance'], Raised):
                cmp_value('variance_contr', R['var_contr'], lo['var_contr'])
                if lo['var_contr'] is not None and oc.gq_key(lo['var_contr']) != oc.gq_key(lo['var_spec']):
                    corr('variance_ok', f'model {lo["var_contr"]} != quad(state, denote, denote, state) {lo["var_spec"]}')
    # ---- sort_legcharges --------------------------------------------------------------------------
    if 'sort' in ops:
        S = R['sort']
        facts['sort'] = True
        if isinstance(S, Raised):
            prop(f'sort_legcharges.error.{S.name}', repr(S))
        else:
            q2 = bond_charges(S)
            if any(any(_qlt(b[k + 1], b[k]) for k in range(len(b) - 1)) for b in q2):
                prop('sort_legcharges.not-sorted', f'charges after sorting: {q2}')
            if markers_ok:
                d = oc.maxdiff(dense(S, L), dA)
                if d > TOL * max(1.0, float(np.max(np.abs(dA))) if dA.size else 1.0):
                    prop('sort_legcharges.dense-mismatch', f'operator changed by {d:.2e}')
            if any(q2[b] != sorted(R['req']['sort']['q'][b], key=lambda c: tuple(reversed(c))) for b in range(L + 1)):
                prop('sort_legcharges.charges-not-a-permutation', 'charges of a bond are not the sorted charges of the operand')
            facts['sort_nontrivial'] = any(q != sorted(q, key=lambda c: tuple(reversed(c))) for q in R['req']['sort']['q'])
        if model:
            if cmp_mpo('sort_legcharges', S, lo['sort']) and not lo['sort_ok']:
                corr('sort_ok', 'model: denotation changed by sort_legcharges')
    # ---- group_sites ------------------------------------------------------------------------------
    if 'group' in ops:
        G = R['group']
        n = ops['group']['n']
        facts['group'] = True
        sizes = R['group_sizes']
        if sizes is None and n >= 1:
            sizes = [min(n, L - i) for i in range(0, L, n)]
        if not isinstance(G, Raised):
            if markers_ok:
                d = oc.maxdiff(dense(G, G.L), dA)
                if d > TOL * max(1.0, float(np.max(np.abs(dA))) if dA.size else 1.0):
                    prop('group_sites.dense-mismatch', f'operator changed by {d:.2e} (n={n})')
            # a term of range r (in sites) must fit into max_range grouped sites: max_range_new * min(sizes) >= r
            r0, r1 = A.max_range, G.max_range
            if r0 is not None and r0 != np.inf and sizes:
                if r1 is None or r1 == np.inf or r1 * max(min(sizes), 1) < r0 or (r1 - 1) * max(min(sizes), 1) >= r0 > 0:
                    prop('group_sites.max_range-wrong', f'max_range {r0} -> {r1} for group sizes {sizes}')
            elif r0 != r1:
                prop('group_sites.max_range-wrong', f'max_range {r0} -> {r1}')
        elif n >= 1 and R['group_sizes'] is None:
            prop(f'group_sites.error.{G.name}', f'n={n}: {G!r}')
        if model:
            ok = cmp_mpo('group_sites', G, lo['group'], to_json=lambda H: grouped_json(H, sizes, dims), norm=norm_named)
            if ok:
                if not lo['group_ok']:
                    corr('group_ok', 'model: denotation of the grouped MPO is not the regrouped denotation')
                if range_json(G.max_range) != lo['group_max_range']:
                    corr('group_sites.max_range', f'impl {G.max_range} model {lo["group_max_range"]}')
    # ---- enlarge_mps_unit_cell --------------------------------------------------------------------
    if 'enlarge' in ops:
        E = R['enlarge']
        f = ops['enlarge']['factor']
        facts['enlarge'] = True
        if isinstance(E, Raised):
            if not finite and f > 1:
                prop(f'enlarge_mps_unit_cell.error.{E.name}', repr(E))
        else:
            if finite or f <= 1:
                prop('enlarge_mps_unit_cell.accepted', f'finite={finite}, factor={f} accepted')
            elif markers_ok and float(np.prod(dims)) ** f <= 600:
                d = oc.maxdiff(dense(E, E.L), dense(A, f * L))
                if d > TOL * 10:
                    prop('enlarge_mps_unit_cell.dense-mismatch', f'window of {f} unit cells changed by {d:.2e}')
        if model:
            if cmp_mpo('enlarge_mps_unit_cell', E, lo['enlarge']) and not lo['enlarge_ok']:
                corr('enlarge_ok', 'model: window of the enlarged MPO differs')
    # ---- extract_segment --------------------------------------------------------------------------
    if 'segment' in ops:
        Sg = R['segment']
        s = ops['segment']
        facts['segment'] = True
        n = s['last'] + 1 - s['first']
        inside = (not finite) or (s['last'] < L)
        if not isinstance(Sg, Raised):
            dsite = float(np.prod(dims)) ** (1.0 / len(dims))
            if n >= 1 and Sg.IdL[0] is not None and Sg.IdR[-1] is not None and dsite ** n <= 600:
                want = attempt('segment', lambda: segment_dense(A, s['first'], s['last']))
                if want is not None:
                    A_flag = A.explicit_plus_hc
                    if A_flag:
                        want = want + want.conj().T
                    d = oc.maxdiff(dense(Sg, Sg.L), want)
                    if d > TOL * max(1.0, float(np.max(np.abs(want))) if want.size else 1.0):
                        prop('extract_segment.dense-mismatch', f'segment [{s["first"]}, {s["last"]}] differs by {d:.2e}')
                    facts['segment_dense'] = True
        elif n >= 1 and inside:
            prop(f'extract_segment.error.{Sg.name}', f'[{s["first"]}, {s["last"]}]: {Sg!r}')
        if model and inside:
            cmp_mpo('extract_segment', Sg, lo['segment'])
    # ---- overlap / distance / is_equal ----------------------------------------------------------------
    if 'decide' in ops and B is not None:
        dec = ops['decide']
        facts['decide'] = True
        mixed = A.finite != B.finite
        ns = dec.get('num_sites')
        # unrepaired `distance`: <A|A>, <A|B>, <B|B> on their own default windows
        three_windows = (not finite and ns is None and not mixed
                         and len({A.L + 2 * _srange(A), B.L + 2 * _srange(B)}) > 1)
        both = A.IdL[0] is not None and B.IdL[0] is not None
        if mixed:
            for k in ('overlap', 'is_equal'):
                if not isinstance(R[k], Raised):
                    prop(f'{k}.mixed-boundary-conditions-accepted', f'{k} of a finite and an infinite MPO returned {R[k]!r}')
        elif both:
            def srange(H):
                r = H.max_range
                return H.L if (r is None or r == np.inf) else int(r)
            n_ov = L if finite else (ns if ns is not None else max(A.L + 2 * srange(A), B.L + 2 * srange(B)))
            dsite = float(np.prod(dims)) ** (1.0 / len(dims))
            ok_markers = (finite and A.IdR[-1] is not None and B.IdR[-1] is not None) or \
                (not finite and cc.markers_everywhere(A) and cc.markers_everywhere(B))
            if ok_markers and n_ov >= max(A.L, B.L) and dsite ** n_ov <= 1300:
                wa, wb = attempt('dense', lambda: dense(A, n_ov)), attempt('dense', lambda: dense(B, n_ov))
                if wa is not None and wb is not None and wa.shape == wb.shape:
                    want = complex(np.vdot(wa.reshape(-1), wb.reshape(-1)))
                    ov = R['overlap']
                    if isinstance(ov, Raised):
                        prop(f'overlap.error.{ov.name}', repr(ov))
                    elif not _near(ov, want, abs(want) + 1.0):
                        prop('overlap.window-not-frobenius', f'overlap {ov!r} on {n_ov} sites vs tr(A^† B) = {want!r} '
                             f'(flags {A.explicit_plus_hc}/{B.explicit_plus_hc})')
                    wd = float(np.sum(np.abs(wa - wb) ** 2))
                    dist = R['distance']
                    if isinstance(dist, Raised):
                        if three_windows:
                            prop('distance.infinite-default-window.three-different-windows',
                                 f'{dist!r}: <A|A>, <A|B>, <B|B> are taken on {A.L + 2 * _srange(A)}, {n_ov}, '
                                 f'{B.L + 2 * _srange(B)} sites; |A-B|_F^2 = {wd!r} on {n_ov} sites')
                        else:
                            prop(f'distance.error.{dist.name}', repr(dist))
                    elif not _near(complex(dist), complex(wd), wd + float(np.sum(np.abs(wa) ** 2)) + 1.0):
                        n_aa, n_bb = A.L + 2 * srange(A), B.L + 2 * srange(B)
                        if three_windows:
                            prop('distance.infinite-default-window.three-different-windows',
                                 f'distance {dist!r} vs |A-B|_F^2 = {wd!r} on {n_ov} sites: <A|A>, <A|B>, <B|B> are taken on '
                                 f'{n_aa}, {n_ov}, {n_bb} sites')
                        else:
                            prop('distance.window-not-frobenius', f'distance {dist!r} vs |A-B|_F^2 = {wd!r}')
                    facts['decide_window_dense'] = True
            # is_equal: window of the documented size
            mr = _py_range(dec.get('is_equal_max_range'))

            def known(r):
                return r is not None and r < np.inf
            if finite:
                n_eq = L
            elif known(mr):
                n_eq = A.L + 2 * int(mr)
            elif known(A.max_range) and known(B.max_range):
                n_eq = A.L + 2 * int(max(A.max_range, B.max_range))
            else:
                n_eq = 3 * A.L
            if ok_markers and n_eq >= max(A.L, B.L) and dsite ** n_eq <= 1300:
                wa, wb = attempt('dense', lambda: dense(A, n_eq)), attempt('dense', lambda: dense(B, n_eq))
                if wa is not None and wb is not None and wa.shape == wb.shape:
                    nrm = float(np.sum(np.abs(wa) ** 2) + np.sum(np.abs(wb) ** 2))
                    dd = float(np.sum(np.abs(wa - wb) ** 2))
                    for key in ('is_equal', 'is_equal_BA'):
                        ie = R[key]
                        if isinstance(ie, Raised):
                            prop(f'is_equal.error.{ie.name}', repr(ie))
                        elif nrm > 1e-6 and ie != (dd < 1e-10 * nrm) and (dd < 1e-12 * nrm or dd > 1e-8 * nrm):
                            if key == 'is_equal_BA' and A.L != B.L:
                                continue        # the window of B.is_equal(A) is counted in B's unit cells
                            prop('is_equal.window-decision-wrong', f'{key} = {ie}, |A-B|^2 = {dd:.3e}, |A|^2+|B|^2 = {nrm:.3e} '
                                 f'on {n_eq} sites')
        if model:
            cmp_value('overlap', R['overlap'], lo['overlap'])
            if lo['overlap'] is not None and lo['overlap_spec'] is not None and \
                    oc.gq_key(lo['overlap']) != oc.gq_key(lo['overlap_spec']):
                corr('overlap_ok', f'model overlap {lo["overlap"]} != frob of the windows {lo["overlap_spec"]}')
            dist = R['distance']
            md = lo['distance']
            if isinstance(dist, Raised):
                if md is not None and not three_windows:
                    corr('distance.raises', f'implementation raised {dist!r}, model returns {md}')
            elif md is None:
                corr('distance.rejects', f'model rejects, implementation returns {dist!r}')
            elif not _same(abs(complex(dist)), abs(_cnum(md)), exact):
                # the model has one window for <A|A>, <A|B>, <B|B> (repaired behaviour); the unrepaired implementation
                # takes three default windows, which the oracle reports when they differ
                if not three_windows:
                    corr('distance', f'impl {dist!r} model {md}')
            for key in ('is_equal', 'is_equal_BA'):
                ie = R[key]
                mi = lo[key]
                if isinstance(ie, Raised):
                    if mi is not None:
                        corr(f'{key}.raises', f'implementation raised {ie!r}, model returns {mi}')
                elif mi is None:
                    corr(f'{key}.rejects', f'model rejects, implementation returns {ie}')
                elif exact and ie != mi:
                    corr(key, f'impl {ie} model {mi}')
    if 'hermitian' in ops:
        ih = R['is_hermitian']
        facts['hermitian'] = True
        if A.explicit_plus_hc and ih is not True:
            prop('is_hermitian.flagged-not-true', f'is_hermitian of a flagged MPO = {ih!r}')
        if model:
            mi = lo['is_hermitian']
            if isinstance(ih, Raised):
                if mi is not None:
                    corr('is_hermitian.raises', f'implementation raised {ih!r}, model returns {mi}')
            elif mi is None:
                corr('is_hermitian.rejects', f'model rejects, implementation returns {ih}')
            elif exact and ih != mi:
                corr('is_hermitian', f'impl {ih} model {mi}')
    # ---- make_U_I on an MPO with negative markers (sum MPOs): metamorphic -------------------------------
    if 'ui' in R:
        U, U2 = R['ui'], R['ui_norm']
        facts['ui_negative_markers'] = has_negative_markers(A)
        if isinstance(U, Raised) != isinstance(U2, Raised):
            prop('make_U_I.negative-IdR.raises-differently', f'{U!r} vs {U2!r}')
        elif not isinstance(U, Raised):
            j1, j2 = cl.norm_mpo_json(cl.mpo_json(U)), cl.norm_mpo_json(cl.mpo_json(U2))
            if j1['idL'] != j2['idL'] or j1['idR'] != j2['idR']:
                prop('make_U_I.negative-IdR.wrong-IdLR',
                     f'IdR = {list(A.IdR)}: make_U_I returns markers {j1["idL"]}, with the same markers spelled as '
                     f'non-negative indices {j2["idL"]}')
            elif j1 != j2:
                prop('make_U_I.negative-IdR.tensors-differ', 'tensors depend on the spelling of the markers')
    # ---- to_TermList ----------------------------------------------------------------------------------
    if 'termlist' in ops:
        t = ops['termlist']
        tl = R['termlist']
        facts['termlist'] = True
        d = dims[0]
        got = None
        if not isinstance(tl, Raised) and 'termlist_norm' in R and not isinstance(R['termlist_norm'], Raised):
            # the result must not depend on how a marker is spelled (IdR = -1 vs chi - 1)
            g1, g2 = terms_json(tl), terms_json(R['termlist_norm'])
            facts['termlist_negative_markers'] = True
            if g1 != g2:
                prop('to_TermList.negative-IdR-never-matches',
                     f'IdR = {list(A.IdR)}: {len(g1)} terms, with the same markers spelled as non-negative indices {len(g2)} terms')
                tl = R['termlist_norm']         # the model is compared with the run on the normalised markers
        if not isinstance(tl, Raised):
            got = terms_json(tl)
            # oracle: a finite MPO in standard form is the sum of its terms (all of them, nothing ignored)
            std = finite and base.get('markers') and not base.get('partial') and 'drop_marker' not in ops
            if std and t['start'] is None and t['max_range'] is None and not t['ignore'] and not A.explicit_plus_hc \
                    and A.max_range is None and dA is not None:
                tot = np.zeros_like(dA)
                for term, s_ in got:
                    mats = [np.eye(dd) for dd in dims]
                    for a, b, i in term:
                        E = np.zeros((d, d))
                        E[a, b] = 1.
                        mats[i] = mats[i] @ E if not np.array_equal(mats[i], np.eye(d)) else E
                    m = np.array([[1.0]])
                    for x in mats:
                        m = np.kron(m, x)
                    tot = tot + oc.parse_gq(s_) * m
                dd = oc.maxdiff(tot, dA)
                facts['termlist_sum'] = True
                if dd > TOL * max(1.0, float(np.max(np.abs(dA))) if dA.size else 1.0):
                    neg = any(x is not None and x < 0 for x in A.IdR)
                    prop('to_TermList.negative-IdR-never-matches' if neg else 'to_TermList.sum-of-terms-mismatch',
                         f'sum of the {len(got)} terms differs from the operator by {dd:.2e} (IdR = {list(A.IdR)})')
        elif finite and t['start'] is not None and any(i >= L for i in t['start']):
            pass            # start outside the chain
        elif A.IdL[0] is None or A.IdR[-1] is None:
            pass
        else:
            prop(f'to_TermList.error.{tl.name}', repr(tl))
        if model:
            mt = lo['termlist']
            if isinstance(tl, Raised):
                if mt is not None:
                    corr('to_TermList.raises', f'implementation raised {tl!r}, model returns {len(mt)} terms')
            elif mt is None:
                corr('to_TermList.rejects', 'model rejects, implementation returns a term list')
            else:
                a = [[term, list(oc.gq_key(s_))] for term, s_ in got]
                b = [[term, list(oc.gq_key(s_))] for term, s_ in mt]
                if a != b:
                    corr('to_TermList', f'impl {json.dumps(got)[:400]} model {json.dumps(mt)[:400]}')
    return fails, facts


def _qlt(a, b):
    return tuple(reversed(a)) < tuple(reversed(b))


def work(cases, use_model=True):
    """records (same format as C11.work_chunk) for a list of ext cases; one driver call"""
    from vlib import core
    known = {k['signature'] for k in core.load_known_findings() if k.get('property') == 'C11'}
    out = []
    reals, reqs, idx = [], [], []
    for n, case in enumerate(cases):
        rec = {'case': case, 'fails': [], 'facts': {}, 'skipped': None}
        out.append(rec)
        try:
            with warnings.catch_warnings():
                warnings.simplefilter('ignore')
                R = real_side(case)
        except Exception as e:  # noqa: BLE001
            rec['fails'].append(('property', f'ext.build.error.{type(e).__name__}', traceback.format_exc()[-1200:]))
            continue
        reals.append(R)
        reqs.append(R['req'])
        idx.append(n)
    louts = [None] * len(reals)
    if use_model and reqs:
        try:
            louts = core.run_driver('C11', reqs, timeout=300)
        except core.DriverError as e:
            louts = [{'error': 'driver: ' + str(e)[:400]}] * len(reals)
        except subprocess.TimeoutExpired:
            # infrastructure (e.g. `lake env` blocked by a build lock): skipped and counted, not a verdict
            for n in idx:
                out[n]['skipped'] = 'infra:driver-timeout'
            return out
    for n, R, lo in zip(idx, reals, louts):
        rec = out[n]
        try:
            rec['fails'], rec['facts'] = check(rec['case'], R, lo, use_model)
        except Exception:  # noqa: BLE001
            rec['fails'], rec['facts'] = [('correspondence', 'ext.harness.exception', traceback.format_exc()[-1500:])], {}
        seen = set()
        for f in rec['fails']:
            if f[0] == 'property' and f[1] not in seen and len(seen) < 2 and f[1] not in known:
                seen.add(f[1])
                try:
                    rec.setdefault('shrunk', {})[f[1]] = shrink(rec['case'], f[1])
                except Exception:  # noqa: BLE001
                    pass
    return out


def shrink(case, sig):
    """drop the operations that are not needed for the property failure `sig` (oracle only)"""
    def fails_same(c):
        try:
            with warnings.catch_warnings():
                warnings.simplefilter('ignore')
                R = real_side(c)
                fails, _ = check(c, R, None, use_model=False)
        except Exception:  # noqa: BLE001
            return False
        return any(f[1] == sig for f in fails)
    cur = case
    for k in list(cur['ops'].keys()):
        if k not in cur['ops']:
            continue
        cand = dict(cur, ops={kk: v for kk, v in cur['ops'].items() if kk != k})
        if fails_same(cand):
            cur = cand
    return cur
