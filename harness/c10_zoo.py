"""C10: every predefined model class of tenpy.models over a small parameter grid.

The model is constructed by its own `__init__`; the adders of CouplingModel are wrapped while it runs so that the
high-level calls (`add_onsite`, `add_coupling`, `add_multi_coupling`, `add_coupling_term`) are logged in the case
format of the generated coupling models.  From there on a zoo model is checked exactly like a generated one:
Lean model of the adders/containers/graph, many-body oracle of the logged calls, all dense representations."""
import importlib
import itertools
import warnings

import numpy as np

from harness import ops_common as oc


def _grid(**kw):
    keys = list(kw)
    return [dict(zip(keys, vals)) for vals in itertools.product(*[kw[k] for k in keys])]


F, I = 'finite', 'infinite'

ZOO = [
    ('tenpy.models.xxz_chain', 'XXZChain', _grid(L=[4], Jxx=[1.0], Jz=[0.5], hz=[0.25], bc_MPS=[F, I], explicit_plus_hc=[False])),
    ('tenpy.models.xxz_chain', 'XXZChain2', _grid(L=[4], Jxx=[1.0], Jz=[-0.5], hz=[0.25], bc_MPS=[F, I], conserve=['Sz', None],
                                                     explicit_plus_hc=[False, True])),
    ('tenpy.models.tf_ising', 'TFIChain', _grid(L=[5], J=[1.0], g=[0.5], bc_MPS=[F, I], conserve=['parity', None], explicit_plus_hc=[False, True])),
    ('tenpy.models.tf_ising', 'TFIModel', _grid(lattice=['Square', 'Honeycomb'], Lx=[2], Ly=[2], J=[1.0], g=[1.5], bc_MPS=[F, I], bc_y=['cylinder', 'ladder'])),
    ('tenpy.models.spins', 'SpinChain', _grid(L=[4], S=[0.5, 1.0], Jx=[1.0], Jy=[0.5], Jz=[0.25], hz=[0.5], D=[0.25], E=[0.0, 0.5],
                                              muJ=[0.0, 0.5], bc_MPS=[F], conserve=['best'])),
    ('tenpy.models.spins', 'SpinChain', _grid(L=[2], S=[0.5], Jx=[1.0], Jy=[1.0], Jz=[0.25], hx=[0.0, 0.5], bc_MPS=[I], conserve=['best', None])),
    ('tenpy.models.spins', 'SpinModel', _grid(lattice=['Ladder', 'Triangular', 'Kagome'], L=[2], Lx=[1], Ly=[2], S=[0.5], Jx=[1.0], Jy=[1.0], Jz=[0.5],
                                              hz=[0.25], bc_MPS=[F, I], bc_y=['cylinder'])),
    ('tenpy.models.spins', 'DipolarSpinChain', _grid(L=[5], S=[1], J3=[1.0], J4=[0.0, 0.5], bc_MPS=[F], conserve=['best', 'Sz', 'parity', None])),
    ('tenpy.models.spins_nnn', 'SpinChainNNN', _grid(L=[3], S=[0.5], Jx=[1.0], Jy=[1.0], Jz=[0.5], Jxp=[0.5], Jyp=[0.5], Jzp=[0.25], hz=[0.25],
                                                     bc_MPS=[F, I], conserve=['best', None])),
    ('tenpy.models.spins_nnn', 'SpinChainNNN2', _grid(L=[5], S=[0.5], Jx=[1.0], Jy=[1.0], Jz=[0.5], Jxp=[0.5], Jyp=[0.5], Jzp=[0.25], hx=[0.0, 0.25],
                                                      bc_MPS=[F, I], conserve=['best'])),
    ('tenpy.models.fermions_spinless', 'FermionChain', _grid(L=[5], J=[1.0], V=[0.5], mu=[0.25], bc_MPS=[F, I], conserve=['N', 'parity', None],
                                                              explicit_plus_hc=[False, True])),
    ('tenpy.models.fermions_spinless', 'FermionModel', _grid(lattice=['Square', 'Ladder', 'Honeycomb'], L=[3], Lx=[2], Ly=[2], J=[1.0], V=[0.5], mu=[0.25],
                                                              bc_MPS=[F, I], bc_y=['cylinder', 'ladder'])),
    ('tenpy.models.hubbard', 'BoseHubbardChain', _grid(L=[4], n_max=[2], t=[1.0], U=[0.5], V=[0.0, 0.25], mu=[0.25], bc_MPS=[F, I], conserve=['N', 'parity', None])),
    ('tenpy.models.hubbard', 'BoseHubbardModel', _grid(lattice=['Square'], Lx=[2], Ly=[2], n_max=[1], t=[1.0], U=[0.5], mu=[0.25], bc_MPS=[F], bc_y=['cylinder', 'ladder'])),
    ('tenpy.models.hubbard', 'FermiHubbardChain', _grid(L=[3], t=[1.0], U=[0.5], V=[0.0, 0.25], mu=[0.25], bc_MPS=[F, I], cons_N=['N', 'parity', None],
                                                        cons_Sz=['Sz', None], explicit_plus_hc=[False, True])),
    ('tenpy.models.hubbard', 'FermiHubbardModel', _grid(lattice=['Ladder'], L=[2], t=[1.0], U=[0.5], mu=[0.25], bc_MPS=[F, I])),
    ('tenpy.models.hubbard', 'FermiHubbardModel2', _grid(L=[4], t=[1.0], U=[0.5], V=[0.25], mu=[0.25], bc_MPS=[F, I], cons_N=['N'], cons_Sz=['Sz', None])),
    ('tenpy.models.hubbard', 'DipolarBoseHubbardChain', _grid(L=[5], Nmax=[1], t=[1.0], t4=[0.0, 0.5], U=[0.5], mu=[0.25], bc_MPS=[F], conserve=['best', 'N', None])),
    ('tenpy.models.tj_model', 'tJChain', _grid(L=[4], t=[1.0], J=[0.5], bc_MPS=[F, I], cons_N=['N', None], cons_Sz=['Sz', None])),
    ('tenpy.models.tj_model', 'tJModel', _grid(lattice=['Ladder'], L=[2], t=[1.0], J=[0.5], bc_MPS=[F])),
    ('tenpy.models.clock', 'ClockChain', _grid(L=[3], q=[3, 4], J=[1.0], g=[0.5], bc_MPS=[F, I], conserve=['Z', None])),
    ('tenpy.models.pxp', 'PXPChain', _grid(L=[6], J=[2.0], bc_MPS=[F, I], conserve=['best', None])),
    ('tenpy.models.haldane', 'BosonicHaldaneModel', _grid(Lx=[1, 2], Ly=[2], t1=[-1.0], V=[0.0, 0.5], mu=[0.25], bc_MPS=[F, I], conserve=['N', None])),
    ('tenpy.models.haldane', 'FermionicHaldaneModel', _grid(Lx=[1, 2], Ly=[2], t1=[-1.0], V=[0.0, 0.5], mu=[0.25], bc_MPS=[F, I], conserve=['N', None])),
    ('tenpy.models.hofstadter', 'HofstadterFermions', _grid(Lx=[2], Ly=[2], Jx=[1.0], Jy=[0.5], mu=[0.25], v=[0.0, 0.5], phi=[(1, 2)], bc_MPS=[F, I],
                                                             gauge=['landau_x', 'landau_y'], conserve=['N'])),
    ('tenpy.models.hofstadter', 'HofstadterBosons', _grid(Lx=[2], Ly=[2], Nmax=[1], Jx=[1.0], Jy=[0.5], mu=[0.25], U=[0.0, 0.5], phi=[(1, 2)], bc_MPS=[F],
                                                           gauge=['landau_x', 'landau_y'], conserve=['N', None])),
    ('tenpy.models.toric_code', 'ToricCode', _grid(Lx=[2], Ly=[2], Jv=[1.0], Jp=[0.5], bc_MPS=[F, I], conserve=['parity', None], bc_y=['cylinder', 'ladder'])),
    ('tenpy.models.aklt', 'AKLTChain', _grid(L=[4], J=[1.0], bc_MPS=[F, I], conserve=['Sz', None])),
    ('tenpy.models.mixed_xk', 'SpinlessMixedXKSquare', _grid(Lx=[1], Ly=[2], t=[1.0], V=[0.5], bc_MPS=[I])),
]


def all_cases():
    res = []
    for module, cls, grid in ZOO:
        for params in grid:
            params = dict(params)
            if params.get('bc_MPS') == I and 'L' in params and cls not in ('PXPChain',):
                params['L'] = 2   # unit cell of an infinite chain: the check contracts 2-3 unit cells densely
            if params.get('bc_MPS') == I and params.get('Lx', 1) > 1 and cls not in ('HofstadterFermions', 'HofstadterBosons'):
                params['Lx'] = 1
            res.append({'kind': 'zoo', 'module': module, 'model': cls, 'params': params})
    return res


def cases(ctx):
    allc = all_cases()
    if ctx.quick:
        # a rotating third of the grid, every class present
        rng = ctx.sub_rng('zoo')
        by_cls = {}
        for c in allc:
            by_cls.setdefault(c['model'], []).append(c)
        res = []
        for cls, cs in by_cls.items():
            rng.shuffle(cs)
            res += cs[:max(1, (len(cs) + 3) // 4)]
        return res
    return allc


def strength_spec(x):
    a = np.asarray(x)
    if a.ndim == 0:
        return oc.gq(a.item())

    def conv(v):
        if v.ndim == 0:
            return oc.gq(v.item())
        return [conv(w) for w in v]
    return conv(a)


class CallLogger:
    """wraps the adders of CouplingModel (and the decorated copies in CouplingMPOModel) while a predefined model
    is constructed; logs every outermost call in the case format and performs it through c10_model.apply_call"""

    NAMES = ['add_onsite', 'add_coupling', 'add_multi_coupling', 'add_coupling_term', 'add_onsite_term',
             'add_multi_coupling_term', 'add_exponentially_decaying_coupling']

    def __init__(self):
        self.calls = []
        self.lean_calls = []
        self.depth = 0
        self.site_index = {}
        self.distinct = []
        self.unsupported = []

    def _sites(self, M):
        for s in M.lat.unit_cell:
            if id(s) not in self.site_index:
                self.site_index[id(s)] = len(self.distinct)
                self.distinct.append(s)

    def _wrap(self, name, orig):
        from harness import c10_model as cm
        logger = self

        def wrapper(self_, *args, **kwargs):
            if logger.depth > 0:
                return orig(self_, *args, **kwargs)
            import inspect
            ba = inspect.signature(orig).bind(self_, *args, **kwargs)
            ba.apply_defaults()
            a = ba.arguments
            call = None
            if name == 'add_onsite':
                call = {'f': 'add_onsite', 'strength': strength_spec(a['strength']), 'u': int(a['u']), 'op': a['opname'],
                        'category': a['category'], 'plus_hc': bool(a['plus_hc'])}
            elif name == 'add_coupling':
                call = {'f': 'add_coupling', 'strength': strength_spec(a['strength']), 'u1': int(a['u1']), 'op1': a['op1'],
                        'u2': int(a['u2']), 'op2': a['op2'], 'dx': [int(v) for v in np.array(a['dx']).reshape(-1)],
                        'op_string': a['op_string'], 'category': a['category'], 'plus_hc': bool(a['plus_hc'])}
            elif name == 'add_multi_coupling' and a['op_string'] is None:
                call = {'f': 'add_multi_coupling', 'strength': strength_spec(a['strength']),
                        'ops': [[o, [int(v) for v in np.array(dx).reshape(-1)], int(u)] for o, dx, u in a['ops']],
                        'category': a['category'], 'plus_hc': bool(a['plus_hc']), 'switchLR': a['switchLR']}
            elif name == 'add_coupling_term':
                call = {'f': 'add_coupling_term', 'strength': strength_spec(a['strength']), 'i': int(a['i']), 'j': int(a['j']),
                        'op_i': a['op_i'], 'op_j': a['op_j'], 'op_string': a['op_string'], 'category': a['category'],
                        'plus_hc': bool(a['plus_hc'])}
            elif name == 'add_onsite_term':
                call = {'f': 'add_onsite_term', 'strength': strength_spec(a['strength']), 'i': int(a['i']), 'op': a['op'],
                        'category': a['category'], 'plus_hc': bool(a['plus_hc'])}
            if call is None:
                logger.unsupported.append(name)
                return orig(self_, *args, **kwargs)
            logger._sites(self_)
            logger.depth += 1
            try:
                cm.apply_call(self_, call, logger.lean_calls, logger.site_index)
            finally:
                logger.depth -= 1
            logger.calls.append(call)
        return wrapper

    def __enter__(self):
        from tenpy.models import model as mm
        from harness import c10_model as cm
        cm._orig('add_onsite')  # fill the table of originals before patching
        self._saved = []
        for cls in (mm.CouplingModel, mm.CouplingMPOModel):
            for n in self.NAMES:
                if n in cls.__dict__:
                    self._saved.append((cls, n, cls.__dict__[n]))
                    setattr(cls, n, self._wrap(n, cm._orig(n)))
        return self

    def __exit__(self, *a):
        for cls, n, f in self._saved:
            setattr(cls, n, f)


def build_zoo_model(case):
    """(model, lean_calls, distinct_sites, logged calls, unsupported adders)"""
    mod = importlib.import_module(case['module'])
    cls = getattr(mod, case['model'])
    params = dict(case['params'])
    with warnings.catch_warnings():
        warnings.simplefilter('ignore')
        with CallLogger() as log:
            M = cls(params)
    log._sites(M)
    return M, log.lean_calls, log.distinct, log.calls, log.unsupported
