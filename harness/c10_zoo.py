"""C10: predefined models of tenpy.models over a small parameter grid (filled in below)."""


def cases(ctx):
    return []
