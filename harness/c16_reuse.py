"""C16: REUSE histories — `run()` is called 2-5 times on the same solver object.

The Lean model (and every other part of this harness) treats a solver as a *function* of (operator, start vector,
options[, delta, normalize]).  That is only a faithful model when nothing of an earlier call leaks into a later one:
the Krylov cache, the projected matrix, the Ritz table and the normalised start vector all live on the object.
Oracle for call number i on the reused object:

* it equals the first call on a FRESH solver object built from the same arguments (number of steps, E, vector);
* dense reference: evolution results are as close to expm(delta H) psi0 as the fresh object's, ground-state / Arnoldi
  results are Ritz pairs (Rayleigh quotient with the dense operator, normalised);
* results handed out by earlier calls are not modified by later calls, the caller's arguments are never modified.

GMRES has no "same input" re-run (x is the state): a later run() has to continue from the current iterate, so the
true residual never increases, the reported residual is the true one, a converged solution stays converged, and after
an unconverged run the next call equals a fresh GMRES started from the returned iterate.
"""
import numpy as np
import scipy.linalg

from harness import c16_lib as L
from harness import c16_lanczos as LZ
from harness import c16_other as OT

DELTAS = [[0, -0.1], [0, 0.1], [0, 1.0], [0, -0.7], [0.1, 0], [-0.5, 0], [-0.3, 0], [-0.05, -0.1], [0.2, 0.3],
          [0, 0.02], [0.1, -0.4]]


# --------------------------------------------------------------------------------------------
# generation


def gen_case(rng):
    kind = rng.choice(['lanczos_gs', 'lanczos_gs', 'lanczos_evo', 'lanczos_evo', 'lanczos_evo', 'arnoldi',
                       'arnoldi_evo', 'gmres'])
    sub = {'lanczos_gs': 'lanczos', 'lanczos_evo': 'evo'}.get(kind, kind)
    while True:
        if kind.startswith('lanczos'):
            case = LZ.gen_case(rng, False, evo=(kind == 'lanczos_evo'))
        else:
            case = OT.gen_case(rng, sub, False)
        if 2 <= case['d'] <= 12:
            break
    case['sub'] = case['part']
    case['part'] = 'reuse'
    case['kind'] = kind
    o = case['opts']
    if kind.startswith('lanczos'):
        # the quantifier of the request: reortho on/off x small / full cache x short / long runs
        o['reortho'] = rng.random() < 0.6
        r = rng.random()
        o.pop('N_cache', None)
        if r < 0.3:
            o['N_cache'] = rng.choice([2, 3])
        elif r < 0.5:
            o['N_cache'] = max(2, o.get('N_max', 20) + rng.choice([-1, 0, 2]))
        if o.get('N_max', 20) < 2:
            o['N_max'] = rng.choice([2, 3, case['d'] + 1])
            o.setdefault('N_cache', 2)
        o.pop('P_tol', None) if rng.random() < 0.5 else None
    ncalls = rng.choice([2, 2, 3, 3, 4, 5])
    if kind in ('lanczos_evo', 'arnoldi_evo'):
        calls = [[case['delta'], case['normalize']]]
        for _ in range(ncalls - 1):
            same = rng.random() < 0.3
            calls.append([calls[-1][0] if same else rng.choice(DELTAS), rng.choice([None, True, False])])
        case['calls'] = calls
    else:
        case['calls'] = min(ncalls, 3 if kind != 'lanczos_gs' else 4)
    return case


# --------------------------------------------------------------------------------------------
# helpers


def _delta(dl):
    return complex(*dl) if dl[1] else float(dl[0])


def _frozen(fails, kind, handed_out):
    """results handed out by earlier calls must not change afterwards"""
    for j, (obj, snap) in enumerate(handed_out):
        now = obj.to_ndarray()
        if now.shape != snap.shape or np.linalg.norm(now - snap) > 0:
            fails.append(('property', f'reuse.{kind}.later-call-modifies-an-earlier-result',
                          f'result of call {j + 1} changed by {np.linalg.norm(now - snap)!r}'))
            handed_out[j] = (obj, now.copy())


# --------------------------------------------------------------------------------------------
# Lanczos


def eval_lanczos(case):
    from tenpy.linalg import krylov_based as kb
    sub = dict(case, part=case['sub'])
    kind = case['kind']
    evo = kind == 'lanczos_evo'
    inp = LZ.build_inputs(sub)
    idx, d = inp['idx'], case['d']
    Hs = inp['M'][np.ix_(idx, idx)]
    opts = LZ.resolve_opts(sub, Hs)
    o = LZ.defaults(opts)
    Os = inp['O'][idx, :]
    x0 = inp['v0'][idx]
    P, B = L.ortho_complement_projector(Os)
    sh = o['E_shift'] or 0.0
    Hg = P @ (Hs + sh * np.eye(d)) @ P
    scale = max(1.0, np.linalg.norm(Hs, 2), abs(sh))
    opts = LZ.condition_opts(opts, Hg, x0, scale, False)
    o = LZ.defaults(opts)
    Q = L.complement_basis(B, d)
    fails, info = [], dict(kind=kind, calls=0, N=[])
    if np.linalg.norm(x0) < 1e-6:
        return fails, [], info
    cls = kb.LanczosEvolution if evo else kb.LanczosGroundState
    op, H = LZ.make_operator(sub, inp)
    psi = L.npc_vector(case['st'], inp['v0'])
    try:
        eng = cls(op, psi, dict(opts))
    except ValueError:
        return fails, [], info
    calls = case['calls'] if evo else [None] * case['calls']
    handed_out = []
    for i, call in enumerate(calls):
        args = (_delta(call[0]), call[1]) if evo else ()
        fresh = LZ.run_real(sub, inp, opts, delta=args[0], normalize=args[1]) if evo else LZ.run_real(sub, inp, opts)
        try:
            out = eng.run(*args)
        except Exception as e:  # noqa
            if 'raise' not in fresh:
                fails.append(('property', f'reuse.{kind}.later-call-raises' if i else f'reuse.{kind}.call-raises',
                              f'call {i + 1}: {type(e).__name__}: {str(e)[:80]} opts={opts}'))
            break
        if 'raise' in fresh:
            break
        if evo:
            v, N = out
            E = None
        else:
            E, v, N = out
        N = int(N)
        info['calls'] = i + 1
        info['N'].append(N)
        _frozen(fails, kind, handed_out)
        if v is eng.psi0 or any(v is c for c in eng._cache) or any(v is h[0] for h in handed_out):
            fails.append(('property', f'reuse.{kind}.result-aliases-solver-state', f'call {i + 1}'))
        handed_out.append((v, v.to_ndarray().copy()))
        if np.linalg.norm(psi.to_ndarray() - inp['v0']) > 0 or np.linalg.norm(H.to_ndarray() - inp['M']) > 0:
            fails.append(('property', f'reuse.{kind}.modifies-its-argument', f'call {i + 1}'))
        vr, vf = v.to_ndarray(), fresh['psi']
        tag = f'call {i + 1}/{len(calls)}' + (f' delta={args[0]} normalize={args[1]}' if evo else '')
        # --- against the fresh object (one signature, qualified by what the history went through: with reortho the
        # new run is orthogonalised against whatever is left in the cache; the cache is left filled by the rebuild
        # path of `_calc_result_full`, i.e. after a call with N > N_cache)
        qual = ('.reortho' if o['reortho'] else '') + \
            ('.after-a-call-with-N>N_cache' if any(n > o['N_cache'] for n in info['N'][:-1]) else '')
        sig = f'reuse.{kind}.later-call-differs-from-fresh-solver{qual}'
        if abs(N - fresh['N']) > 1:
            fails.append(('property', sig, f'{tag}: N={N}, fresh solver N={fresh["N"]}; history N={info["N"]} opts={opts}'))
            break
        betas = np.abs(np.array(fresh['betas'][:-1]))
        well = (not len(betas) or betas.min() > 1e-4) and N == fresh['N']
        differs = None
        if not evo:
            ritz = np.sort(np.real(fresh['Erow']))
            gap_ok = len(ritz) < 2 or ritz[1] - ritz[0] > 1e-4 * scale
            if LZ.rel(float(E), fresh['E'], scale) > (1e-9 if well else 1e-5):
                differs = f'E={float(E)!r}, fresh solver E={fresh["E"]!r}'
            elif well and gap_ok and LZ.phase_dist(vr, vf) > 1e-6:
                differs = f'result vectors differ (up to a phase) by {LZ.phase_dist(vr, vf)!r}'
        else:
            dv = np.linalg.norm(vr - vf)
            if dv > (1e-8 if well else 1e-5) * max(1.0, np.linalg.norm(vf)):
                differs = f'|reused - fresh| = {dv!r}'
        if differs:
            fails.append(('property', sig, f'{tag}: {differs}; N={N}, fresh solver N={fresh["N"]}; history N={info["N"]} opts={opts}'))
            break
        # --- dense reference
        if not evo:
            # a Ritz pair of the operator the solver was given
            x = vr[idx]
            if abs(np.linalg.norm(x) - 1) > 1e-10:
                fails.append(('property', f'reuse.{kind}.result-not-normalised', f'{tag}: {np.linalg.norm(x)!r}'))
            rq = float(np.real(np.vdot(x, Hg @ x))) - sh
            if LZ.rel(rq, float(E), scale) > (1e-8 if N <= 12 else 1e-6):
                fails.append(('property', f'reuse.{kind}.E-is-not-rayleigh-quotient-of-result',
                              f'{tag}: E={float(E)!r} <psi|PHP|psi>-shift={rq!r} N={N} opts={opts}'))
        else:
            # expm(delta P(H+s)P) psi0, as close as the fresh object gets
            delta, normalize = args
            exact = Q @ (scipy.linalg.expm(delta * (Q.conj().T @ (Hs + sh * np.eye(d)) @ Q)) @ (Q.conj().T @ x0)) \
                + B @ (B.conj().T @ x0)
            norm_expected = np.real(delta) == 0.0 if normalize is None else normalize
            target = exact / np.linalg.norm(exact) if norm_expected else exact
            if np.linalg.norm(exact) > 1e-6 * np.linalg.norm(x0):
                nt = max(np.linalg.norm(target), 1e-300)
                err_r = np.linalg.norm(vr[idx] - target) / nt
                err_f = np.linalg.norm(vf[idx] - target) / nt
                if err_r > 10 * err_f + 1e-8:
                    fails.append(('property', f'reuse.{kind}.result-differs-from-expm-more-than-fresh-solver',
                                  f'{tag}: err={err_r!r}, fresh solver err={err_f!r} N={N} opts={opts}'))
                if norm_expected and abs(np.linalg.norm(vr[idx]) - 1) > 1e-10:
                    fails.append(('property', f'reuse.{kind}.normalized-result-not-normalised',
                                  f'{tag}: {np.linalg.norm(vr[idx])!r}'))
    _frozen(fails, kind, handed_out)
    return fails, [], info


# --------------------------------------------------------------------------------------------
# Arnoldi, ArnoldiEvolution


def eval_arnoldi(case):
    from tenpy.linalg import krylov_based as kb
    sub = dict(case, part=case['sub'])
    kind = case['kind']
    evo = kind == 'arnoldi_evo'
    inp = OT.build(sub)
    st, idx, d = case['st'], inp['idx'], case['d']
    opts = dict(case['opts'])
    Hs = inp['M'][np.ix_(idx, idx)]
    x0 = inp['v0'][idx]
    scale = max(1.0, np.linalg.norm(Hs, 2))
    if 'cutoff' not in opts and opts['N_max'] >= d:
        opts['cutoff'] = 1e-9
    fails, info = [], dict(kind=kind, calls=0, N=[])
    cls = kb.ArnoldiEvolution if evo else kb.Arnoldi
    H = L.npc_matrix(st, inp['M'])
    psi = L.npc_vector(st, inp['v0'])
    eng = cls(H, psi, dict(opts))
    calls = case['calls'] if evo else [None] * case['calls']
    handed_out = []
    for i, call in enumerate(calls):
        args = (_delta(call[0]), call[1]) if evo else ()
        try:
            feng = cls(L.npc_matrix(st, inp['M']), L.npc_vector(st, inp['v0']), dict(opts))
            fr = feng.run(*args)
        except Exception:  # noqa: first calls on fresh objects are judged by the parts `arnoldi` / `arnoldi_evo`
            break
        try:
            out = eng.run(*args)
        except Exception as e:  # noqa
            sig = f'reuse.{kind}.later-call-raises.{type(e).__name__}' if i else f'reuse.{kind}.call-raises'
            fails.append(('property', sig, f'call {i + 1}: {type(e).__name__}: {str(e)[:80]} opts={opts}'))
            break
        N, Nf = int(out[-1]), int(fr[-1])
        info['calls'] = i + 1
        info['N'].append(N)
        _frozen(fails, kind, handed_out)
        vecs = [out[0]] if evo else list(out[1])
        for v in vecs:
            if v is eng.psi0 or any(v is c for c in eng._cache) or any(v is h[0] for h in handed_out):
                fails.append(('property', f'reuse.{kind}.result-aliases-solver-state', f'call {i + 1}'))
            handed_out.append((v, v.to_ndarray().copy()))
        if np.linalg.norm(psi.to_ndarray() - inp['v0']) > 0 or np.linalg.norm(H.to_ndarray() - inp['M']) > 0:
            fails.append(('property', f'reuse.{kind}.modifies-its-argument', f'call {i + 1}'))
        tag = f'call {i + 1}/{len(calls)}' + (f' delta={args[0]} normalize={args[1]}' if evo else '')
        if abs(N - Nf) > 1:
            fails.append(('property', f'reuse.{kind}.later-call-differs-from-fresh-solver',
                          f'{tag}: N={N}, fresh solver N={Nf}; history N={info["N"]} opts={opts}'))
            break
        # float Gram-Schmidt of Arnoldi may lose orthogonality (see c16_other.eval_arnoldi): compare where an
        # independent replica keeps the basis orthonormal
        defect = OT.arnoldi_reference_defect(Hs + (opts.get('E_shift') or 0.0) * np.eye(d), x0, max(N, Nf))
        if defect > 1e-9 or N != Nf:
            continue
        if evo:
            vr, vf = out[0].to_ndarray(), fr[0].to_ndarray()
            if np.linalg.norm(vr - vf) > 1e-8 * max(1.0, np.linalg.norm(vf)):
                fails.append(('property', f'reuse.{kind}.later-call-differs-from-fresh-solver',
                              f'{tag}: |reused - fresh| = {np.linalg.norm(vr - vf)!r} N={N} opts={opts}'))
            delta, normalize = args
            exact = scipy.linalg.expm(delta * Hs) @ x0
            target = exact / np.linalg.norm(exact) if normalize else exact
            nt = max(np.linalg.norm(target), 1e-300)
            err_r, err_f = np.linalg.norm(vr[idx] - target) / nt, np.linalg.norm(vf[idx] - target) / nt
            if err_r > 10 * err_f + 1e-8:
                fails.append(('property', f'reuse.{kind}.result-differs-from-expm-more-than-fresh-solver',
                              f'{tag}: err={err_r!r}, fresh solver err={err_f!r} N={N} opts={opts}'))
        else:
            Er, Ef = np.array(out[0]), np.array(fr[0])
            if Er.shape != Ef.shape or len(out[1]) != len(fr[1]):
                fails.append(('property', f'reuse.{kind}.later-call-differs-from-fresh-solver',
                              f'{tag}: {len(Er)} values / {len(out[1])} vectors, fresh solver {len(Ef)} / {len(fr[1])}'))
                continue
            cond = np.linalg.cond(np.linalg.eig(Hs)[1])
            if cond > 1e4:
                continue
            # every returned value is a Ritz value of the fresh run (values that tie in the `which` order, e.g.
            # complex-conjugate pairs for 'LM', may swap or be cut differently by num_ev) and the first one agrees
            allf = np.array(feng.Es[N - 1, :N]) - (opts.get('E_shift') or 0.0)
            dist = np.abs(Er[:, None] - allf[None, :])
            key = {'LM': lambda z: -abs(z + (opts.get('E_shift') or 0.0)), 'LR': lambda z: -np.real(z),
                   'SR': lambda z: np.real(z)}[opts['which']]
            if dist.min(axis=1).max() > 1e-7 * scale or abs(key(Er[0]) - key(Ef[0])) > 1e-7 * scale:
                fails.append(('property', f'reuse.{kind}.later-call-differs-from-fresh-solver',
                              f'{tag}: E={Er.tolist()}, fresh solver E={Ef.tolist()} N={N} opts={opts}'))
                continue
            for j, (p, q) in enumerate(zip(out[1], fr[1])):
                a, b = p.to_ndarray()[idx], q.to_ndarray()[idx]
                res_r, res_f = np.linalg.norm(Hs @ a - Er[j] * a), np.linalg.norm(Hs @ b - Ef[j] * b)
                if abs(np.linalg.norm(a) - 1) > 1e-10 or res_r > 10 * res_f + 1e-6 * scale:
                    fails.append(('property', f'reuse.{kind}.later-call-differs-from-fresh-solver',
                                  f'{tag}: pair {j}: |psi|={np.linalg.norm(a)!r} residual {res_r!r}, fresh solver {res_f!r}'))
                    break
    _frozen(fails, kind, handed_out)
    return fails, [], info


# --------------------------------------------------------------------------------------------
# GMRES


def eval_gmres(case):
    from tenpy.linalg import krylov_based as kb
    sub = dict(case, part='gmres')
    inp = OT.build(sub)
    st, idx, d = case['st'], inp['idx'], case['d']
    opts = dict(case['opts'])
    As = inp['M'][np.ix_(idx, idx)]
    b = inp['v0'][idx]
    nb = np.linalg.norm(b)
    fails, info = [], dict(kind='gmres', calls=0, N=[])
    if case['x0'] == 'zero':
        x0 = np.zeros_like(inp['v0'])
    elif case['x0'] == 'b':
        x0 = inp['v0'].copy()
    else:
        x0 = L.embed(st, idx, inp['nrng'].normal(size=d), dtype=inp['v0'].dtype)

    def vec(x):
        return L.npc_vector(st, x + 0 * inp['v0']) if np.any(x) else L.npc_vector(st, inp['v0']) * 0.0

    A, bn, xn = L.npc_matrix(st, inp['M']), L.npc_vector(st, inp['v0']), vec(x0)
    try:
        g = kb.GMRES(A, xn, bn, dict(opts))
    except Exception:  # noqa
        return fails, [], info
    prev_true, prev_x, prev_nit = None, x0, 0
    for i in range(case['calls']):
        try:
            x, res, terr, its = g.run()
        except Exception as e:  # noqa
            if i:
                fails.append(('property', 'reuse.gmres.later-call-raises', f'call {i + 1}: {type(e).__name__}: {str(e)[:80]}'))
            break
        xf = x.to_ndarray().copy()
        xs = xf[idx]
        true = float(np.linalg.norm(As @ xs - b) / nb)
        res = float(np.real(res))
        ests = [float(t) for cyc in terr for t in cyc]
        if not np.isfinite(true) or not np.all(np.isfinite(ests)):
            break    # exact breakdown inside a cycle: judged by the part `gmres`
        info['calls'] = i + 1
        info['N'].append(len(its))
        tag = f'call {i + 1}/{case["calls"]}'
        if np.linalg.norm(bn.to_ndarray() - inp['v0']) > 0 or np.linalg.norm(A.to_ndarray() - inp['M']) > 0 \
                or np.linalg.norm(xn.to_ndarray() - x0) > 0:
            fails.append(('property', 'reuse.gmres.modifies-its-argument', tag))
        if abs(res - true) > 1e-10 * max(1.0, true):
            fails.append(('property', 'reuse.gmres.reported-residual-differs-from-true-residual',
                          f'{tag}: reported {res!r} true {true!r}'))
        if prev_true is not None:
            # GMRES minimises the residual over x + Krylov space: continuing from the current iterate never
            # makes it worse, and a solution that met `res` stays one
            if true > prev_true * (1 + 1e-7) + 1e-12:
                fails.append(('property', 'reuse.gmres.later-call-increases-the-residual',
                              f'{tag}: residual {prev_true!r} -> {true!r} iterations {list(its)} opts={opts} d={d}'))
                break
            elif prev_true >= opts['res'] * 10 and len(its) > prev_nit:
                # the previous call ended unconverged (after its last restart): this call has to be what a fresh
                # solver started from the returned iterate does
                try:
                    xf2, _, _, its2 = kb.GMRES(L.npc_matrix(st, inp['M']), vec(prev_x), L.npc_vector(st, inp['v0']),
                                                dict(opts)).run()
                    dx = np.linalg.norm(xf2.to_ndarray() - xf)
                    cond = np.linalg.cond(As)
                    if list(its2) == list(its[prev_nit:]) and dx > 1e-8 * cond * max(1.0, np.linalg.norm(xf)):
                        fails.append(('property', 'reuse.gmres.later-call-differs-from-fresh-solver-started-at-the-iterate',
                                      f'{tag}: |x - x_fresh| = {dx!r} iterations {list(its)} opts={opts}'))
                except Exception:  # noqa
                    pass
        prev_true, prev_x, prev_nit = true, xf, len(its)
    return fails, [], info


def eval_reuse(case):
    kind = case['kind']
    if kind.startswith('lanczos'):
        fails, lines, info = eval_lanczos(case)
    elif kind.startswith('arnoldi'):
        fails, lines, info = eval_arnoldi(case)
    else:
        fails, lines, info = eval_gmres(case)
    info['Ns'] = info.pop('N')
    info['N'] = max(info['Ns']) if info['Ns'] else 0     # (GMRES: number of cycles so far)
    return fails, lines, info
