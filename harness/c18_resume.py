"""C18 part 2: resume equivalence.  GroundStateSearch (DMRG engines) and RealTimeEvolution (TEBD, TDVP,
ExpMPO) on 4-6 sites are run plainly with a save at every checkpoint (each save is copied aside = the disk
state had the process been interrupted there), then resumed from every checkpoint; the results dictionaries
are diffed against the plain run (independent oracle) and the measurement bookkeeping is compared with the
Lean loop machine (`TenpyModel.C18.Loop`).

Two comparison classes, fixed in advance:
  'det'   deterministic loops (time evolution; DMRG with min_sweeps = max_sweeps, no Lanczos-tolerance
          adaptation, mixer off or with constant amplitude): same measurement keys, lists equal in length and
          order, values and final state equal at 1e-9
  'conv'  convergence-controlled DMRG (max_E_err stopping; sweep_stats and the mixer state are not part of
          resume_data by design): same keys, loop-counter tags 0,1,2,... without gap or repetition, final
          energy within 100*max_E_err of the plain run
"""
import copy
import os
import shutil
import signal
import tempfile
import traceback

import numpy as np

from vlib import core

TOL = 1.0e-9
# components of the engine state that later iterations read (cf. Loop.takeSnap); `trunc_err` is reflected
# separately (model flag carry_err) because today's code lacks it
NEEDED_RESUME_KEYS = {'te': ['psi', 'evolved_time'], 'gs': ['psi', 'sweeps', 'init_env_data']}
MAX_E_ERR = 1.0e-8


# ------------------------------------------------------------------------------------------------
# configurations


START_TIMES = [0.0, 1.0, -0.5, 2.75, -1.0, 0.375, -0.1875]   # dyadic: start_time + k*dt*N_steps is exact


def te_params(rng, engine, fmt, start_time=None):
    """`start_time` (option of TimeEvolutionAlgorithm): None = drawn from START_TIMES (non-zero 6 times of 7, also
    negative, also crossing zero during the run) - `evolved_time` of a resumed run must continue from the checkpoint,
    not from `start_time`; `final_time` is absolute."""
    t0 = rng.choice(START_TIMES) if start_time is None else start_time
    L = rng.choice([4, 5, 6])
    n = rng.choice([2, 3, 3, 4])
    N_steps = rng.choice([1, 2])
    dt = rng.choice([0.0625, 0.125])
    Jz = rng.randrange(1, 9) / 4.0
    hz = rng.randrange(0, 5) / 8.0
    alg = dict(dt=dt, N_steps=N_steps, max_trunc_err=None,
               trunc_params=dict(chi_max=rng.choice([2, 3, 4]), svd_min=1.0e-12))
    if engine == 'TEBDEngine':
        alg['order'] = rng.choice([1, 2, 4])
    elif engine == 'ExpMPOEvolution':
        alg['order'] = rng.choice([1, 2])
        alg['approximation'] = rng.choice(['I', 'II'])
        alg['compression_method'] = 'SVD'
    if t0 != 0.0:
        alg['start_time'] = t0
    p = dict(
        simulation_class='RealTimeEvolution',
        model_class='XXZChain',
        model_params=dict(L=L, bc_MPS='finite', Jxx=1.0, Jz=Jz, hz=hz, sort_charge=True),
        initial_state_params=dict(method='lat_product_state', product_state=[['up'], ['down']],
                                  allow_incommensurate=True),
        algorithm_class=engine,
        algorithm_params=alg,
        final_time=t0 + dt * N_steps * n,
        save_every_x_seconds=0.0,
        connect_measurements=[['harness.c18_meas', 'm_steps', {'offset': t0}],
                              ['tenpy.simulations.measurement', 'm_onsite_expectation_value', {'opname': 'Sz'}]],
        log_params=dict(to_stdout=None, to_file=None),
    )
    return dict(kind='te', cls='det', engine=engine, fmt=fmt, n=n, unit=dt * N_steps, params=p)


def gs_params(rng, engine, cls, fmt, schedule=None):
    """`schedule`: option schedules that evolve during the run (their current value is part of what a checkpoint
    must carry): None | 'chi_int' (chi_list with integers) | 'chi_none' (chi_list whose LAST entry is None =
    "the chi_max given at initialisation", reached only after earlier ramp steps) | 'nsc' (N_sweeps_check = 2,
    optionally with a chi_list whose first entry is None)."""
    L = rng.choice([4, 6])
    Jz = rng.randrange(2, 9) / 4.0
    nsc = 1
    if cls == 'det':
        m = rng.choice([2, 3, 4])
        mixer = rng.choice([None, True])
        alg = dict(trunc_params=dict(chi_max=rng.choice([3, 4, 8]), svd_min=1.0e-12), max_sweeps=m, min_sweeps=m,
                   P_tol_to_trunc=None, mixer=mixer, max_trunc_err=None)
        if schedule is not None:
            # ramps need room: 8 sites (exact chi 16), mixer off, fixed Lanczos tolerances
            L = 8
            alg['mixer'] = mixer = None
            alg['E_tol_to_trunc'] = None
            if schedule == 'chi_int':
                m = rng.choice([4, 5])
                k1 = rng.choice([1, 2])
                alg['chi_list'] = {0: rng.choice([2, 3]), k1: rng.choice([4, 6]), k1 + rng.choice([1, 2]): rng.choice([9, 12, 16])}
                alg['trunc_params']['chi_max'] = 16
            elif schedule == 'chi_none':
                m = rng.choice([5, 6])
                k1 = rng.choice([1, 2])
                k2 = k1 + rng.choice([1, 2])
                alg['chi_list'] = {0: rng.choice([2, 4]), k1: rng.choice([5, 8]), k2: None}
                alg['trunc_params']['chi_max'] = rng.choice([12, 16])
            else:
                nsc = 2
                m = rng.choice([4, 6])
                alg['N_sweeps_check'] = 2
                if rng.random() < 0.5:
                    alg['chi_list'] = {0: None, 2: rng.choice([4, 6]), 4: rng.choice([10, 16])}
                alg['trunc_params']['chi_max'] = rng.choice([3, 5])
            alg['max_sweeps'] = alg['min_sweeps'] = m
        if mixer:
            alg['mixer_params'] = dict(amplitude=1.0e-5, decay=None, disable_after=None)
    else:
        m = 12
        alg = dict(trunc_params=dict(chi_max=8, svd_min=1.0e-12), max_sweeps=m, max_E_err=MAX_E_ERR,
                   max_S_err=1.0e-4, max_trunc_err=None)
        if schedule == 'mixer':
            # a decaying mixer that switches itself off during the run (its state is not in resume_data by
            # design: only the weak class applies)
            alg['mixer'] = True
            alg['mixer_params'] = dict(amplitude=rng.choice([1.0e-5, 1.0e-4]), decay=rng.choice([1.5, 2.0]),
                                       disable_after=rng.choice([2, 3, 4]))
    p = dict(
        simulation_class='GroundStateSearch',
        model_class='XXZChain',
        model_params=dict(L=L, bc_MPS='finite', Jxx=1.0, Jz=Jz, hz=0.0, sort_charge=True),
        initial_state_params=dict(method='lat_product_state', product_state=[['up'], ['down']]),
        algorithm_class=engine,
        algorithm_params=alg,
        measure_at_algorithm_checkpoints=True,
        # with a mixer the state is not in canonical form at the checkpoints (non-diagonal S)
        canonicalize_before_measurement=True,
        save_every_x_seconds=0.0,
        connect_measurements=[['harness.c18_meas', 'm_steps'],
                              ['tenpy.simulations.measurement', 'm_energy_MPO']],
        log_params=dict(to_stdout=None, to_file=None),
    )
    return dict(kind='gs', cls=cls, engine=engine, fmt=fmt, n=m // nsc, unit=float(nsc), params=p,
                schedule=schedule)


def fix_int_keys(params):
    """JSON turns the integer keys of `chi_list` into strings (corpus / replay files)."""
    cl = params.get('algorithm_params', {}).get('chi_list')
    if isinstance(cl, dict):
        params['algorithm_params']['chi_list'] = {int(k): v for k, v in cl.items()}
    return params


# ------------------------------------------------------------------------------------------------
# worker


def _jsonable_meas(m):
    out = {}
    for k, v in m.items():
        try:
            a = np.asarray(v, dtype=float)
            out[k] = a.tolist()
        except Exception:
            out[k] = ['<%s>' % type(x).__name__ for x in v]
    return out


def _summary(res, psi_ref=None):
    s = dict(keys=sorted(map(str, res.keys())), finished=bool(res.get('finished_run')),
             meas=_jsonable_meas(res.get('measurements', {})))
    if 'energy' in res:
        s['energy'] = float(np.real(res['energy']))
    try:
        s['last_sweep'] = int(res['sweep_stats']['sweep'][-1])
    except Exception:
        pass
    s['scalars'] = {k: float(v) for k, v in res.items() if str(k).startswith('c18_') and isinstance(v, (int, float))}
    psi = res.get('psi')
    if psi is not None:
        s['chi'] = [int(c) for c in psi.chi]
        s['norm'] = float(psi.norm)
        if psi_ref is not None:
            try:
                s['overlap'] = float(abs(psi_ref.overlap(psi)))
                s['self_overlap'] = float(abs(psi_ref.overlap(psi_ref)))
            except Exception as e:
                s['overlap_error'] = repr(e)
    return s


def run_job(job):
    """plain run with snapshots, then resume from every snapshot.  Everything in-process in a scratch dir."""
    import warnings
    import logging
    warnings.simplefilter('ignore')
    logging.disable(logging.CRITICAL)
    import tenpy.tools.misc
    tenpy.tools.misc.skip_logging_setup = True
    from tenpy.simulations import simulation
    from tenpy.tools import hdf5_io
    from harness import c18_models  # noqa: F401  (model classes found by name)
    d = tempfile.mkdtemp(prefix='verif-c18r-')
    cwd = os.getcwd()
    out = {'job': {k: job.get(k) for k in ('kind', 'cls', 'engine', 'fmt', 'n', 'unit', 'params', 'sigint', 'schedule')}}
    Sim = simulation.Simulation
    o_save = Sim.save_results
    counter = {'n': 0, 'on': False}
    ext = '.' + job['fmt']

    def save_results(sim, results=None):
        r = o_save(sim, results)
        if counter['on'] and sim.output_filename is not None:
            counter['n'] += 1
            shutil.copy(str(sim.output_filename), os.path.join(d, 'ck%d%s' % (counter['n'], ext)))
        return r

    try:
        os.chdir(d)
        Sim.save_results = save_results
        params = fix_int_keys(copy.deepcopy(job['params']))
        params['output_filename'] = 'plain' + ext
        counter['on'] = True
        sim = simulation.init_simulation(**params)
        with sim:
            plain = sim.run()
        counter['on'] = False
        # reflection: listeners of the checkpoint event in call order, resume_data keys, is_converged guard
        order = []
        for l in sim.engine.checkpoint.listeners:
            name = getattr(l.callback, '__name__', repr(l.callback))
            order.append(['save' if name == 'save_at_checkpoint' else
                          ('measure' if name == 'make_simulation_measurements' else name), int(l.priority)])
        out['listeners'] = order
        out['measure_initial'] = bool(sim.options.get('measure_initial', True))
        if job['kind'] == 'gs':
            try:
                eng = sim.engine
                saved = eng.sweep_stats
                eng.sweep_stats = {k: [] for k in saved}
                try:
                    out['guard_empty'] = (eng.is_converged() is False)
                finally:
                    eng.sweep_stats = saved
            except Exception as e:
                out['guard_empty'] = False
                out['guard_exc'] = type(e).__name__
        psi_plain = plain.get('psi')
        out['plain'] = _summary(plain)
        n_ck = counter['n']
        out['n_saves'] = n_ck
        out['resumed'] = {}
        out['resume_keys'] = {}
        for k in range(1, n_ck):  # the last save is the finished run
            fn = 'ck%d%s' % (k, ext)
            try:
                ck = hdf5_io.load(fn)
                out['resume_keys'][k] = sorted(ck.get('resume_data', {}).keys())
                if ck.get('finished_run'):
                    out['resumed'][k] = {'skip': 'finished'}
                    continue
                del ck
                r = simulation.resume_from_checkpoint(filename=fn,
                                                      update_sim_params={'output_filename': 'res%d%s' % (k, ext)})
                out['resumed'][k] = _summary(r, psi_plain)
            except Exception as e:
                tb = traceback.format_exc()
                out['resumed'][k] = {'exception': type(e).__name__, 'where': _where(tb), 'tb': tb[-1500:]}
        # interruption through SIGINT at checkpoint `sigint` (graceful abort path), then resume from the file
        if job.get('sigint') is not None:
            at = job['sigint'] * job['unit']
            params = fix_int_keys(copy.deepcopy(job['params']))
            params['output_filename'] = 'sig' + ext
            params['save_every_x_seconds'] = None
            t0 = float(params.get('algorithm_params', {}).get('start_time', 0.0)) if job['kind'] == 'te' else 0.0
            params['connect_algorithm_checkpoint'] = [['harness.c18_meas', 'sigint_at', {'at': at, 'offset': t0}, 50]]
            old = signal.getsignal(signal.SIGINT)
            import contextlib
            devnull = open(os.devnull, 'w')
            try:
              with contextlib.redirect_stderr(devnull):
                try:
                    sim2 = simulation.init_simulation(**params)
                    with sim2:
                        sim2.run()
                    out['sigint'] = {'error': 'run finished without KeyboardInterrupt'}
                except KeyboardInterrupt:
                    r = simulation.resume_from_checkpoint(
                        filename='sig' + ext, update_sim_params={'connect_algorithm_checkpoint': []})
                    out['sigint'] = _summary(r, psi_plain)
                except Exception as e:
                    tb = traceback.format_exc()
                    out['sigint'] = {'exception': type(e).__name__, 'where': _where(tb), 'tb': tb[-1500:]}
            finally:
                devnull.close()
                signal.signal(signal.SIGINT, old)
        return out
    except BaseException as e:
        out['fatal'] = traceback.format_exc()[-3000:]
        return out
    finally:
        Sim.save_results = o_save
        os.chdir(cwd)
        shutil.rmtree(d, ignore_errors=True)


def _where(tb):
    for name in ('is_converged', 'stopping_criterion', 'init_algorithm', 'init_env', 'from_saved_checkpoint'):
        if ('in ' + name) in tb:
            return name
    return 'other'


# ------------------------------------------------------------------------------------------------
# comparison


def _close(a, b, tol=TOL):
    try:
        a = np.asarray(a, dtype=float)
        b = np.asarray(b, dtype=float)
    except Exception:
        return a == b
    if a.shape != b.shape:
        return False
    if a.size == 0:
        return True
    return bool(np.all(np.abs(a - b) <= tol * (1.0 + np.abs(b))) or np.array_equal(a, b, equal_nan=True))


def diff_det(plain, res, kind):
    """-> list of (signature suffix, detail); empty = equal"""
    out = []
    if 'exception' in res:
        return [('exception.%s.%s' % (res['exception'], res['where']), res['tb'][-400:])]
    if not res['finished']:
        out.append(('not-finished', ''))
    if plain['keys'] != res['keys']:
        out.append(('result-keys-differ', '%r vs %r' % (plain['keys'], res['keys'])))
    if not _close(sorted(res.get('scalars', {}).items()), sorted(plain.get('scalars', {}).items())):
        out.append(('post-processing-differs', '%r vs %r' % (plain.get('scalars'), res.get('scalars'))))
    pm, rm = plain['meas'], res['meas']
    if sorted(pm) != sorted(rm):
        out.append(('measurement-keys-differ', '%r vs %r' % (sorted(pm), sorted(rm))))
        return out
    for k in sorted(pm):
        if len(pm[k]) != len(rm[k]):
            out.append(('measurement-count-differs', '%s: plain %d resumed %d (measurement_index %r)' %
                        (k, len(pm[k]), len(rm[k]), rm.get('measurement_index'))))
            return out
    for k in sorted(pm):
        if 'walltime' in k:
            continue
        if not _close(rm[k], pm[k]):
            out.append(('measurement-values-differ:' + k, 'plain %r resumed %r' % (pm[k], rm[k])))
    if 'energy' in plain and not _close(res.get('energy'), plain['energy']):
        out.append(('energy-differs', '%r vs %r' % (plain['energy'], res.get('energy'))))
    if 'overlap' in res:
        # identical states give exactly the self-overlap of the plain state (whatever its normalisation)
        if abs(res['overlap'] - res['self_overlap']) > 1.0e-8 * max(1.0, res['self_overlap']):
            out.append(('final-state-differs', 'overlap %r, self-overlap of the plain state %r' %
                        (res['overlap'], res['self_overlap'])))
    elif 'overlap_error' in res:
        out.append(('final-state-incomparable', res['overlap_error']))
    if res.get('chi') != plain.get('chi'):
        out.append(('final-state-differs', 'chi %r vs %r' % (plain.get('chi'), res.get('chi'))))
    if res.get('last_sweep') != plain.get('last_sweep'):
        out.append(('sweep-count-differs', '%r vs %r' % (plain.get('last_sweep'), res.get('last_sweep'))))
    return out


def diff_conv(plain, res, unit=1.0):
    out = []
    if 'exception' in res:
        return [('exception.%s.%s' % (res['exception'], res['where']), res['tb'][-400:])]
    if not res['finished']:
        out.append(('not-finished', ''))
    pm, rm = plain['meas'], res['meas']
    if sorted(pm) != sorted(rm):
        out.append(('measurement-keys-differ', '%r vs %r' % (sorted(pm), sorted(rm))))
        return out
    tags = rm.get('c18_steps', [])
    idx = rm.get('measurement_index', [])
    if [int(round(x)) for x in idx] != list(range(len(idx))):
        out.append(('measurement-index-not-contiguous', repr(idx)))
    if [int(round(x / unit)) for x in tags] != list(range(len(tags))) or any(abs(x / unit - round(x / unit)) > 1e-9 for x in tags):
        out.append(('checkpoint-measured-twice-or-skipped', 'sweep tags %r' % (tags,)))
    if any(len(v) != len(idx) for v in rm.values()):
        out.append(('measurement-count-differs', repr({k: len(v) for k, v in rm.items()})))
    E0, E1 = plain.get('energy'), res.get('energy')
    if E0 is None or E1 is None or abs(E0 - E1) > 100 * MAX_E_ERR * max(1.0, abs(E0)):
        out.append(('energy-differs', '%r vs %r' % (E0, E1)))
    return out


def signature(kind, cls, suffix):
    if suffix.startswith('exception.IndexError.is_converged'):
        return 'resume.dmrg.is_converged-without-sweep_stats.IndexError'
    if kind == 'te' and suffix in ('measurement-values-differ:eps_error', 'measurement-values-differ:ov_error'):
        return 'resume.time-evolution.trunc_err-restarts'
    return 'resume.%s.%s.%s' % (kind, cls, suffix)


def model_line(r, k):
    job = r['job']
    lst = dict((n, p) for n, p in r['listeners'])
    plain = r['plain']
    if job['kind'] == 'te':
        eps = plain['meas'].get('eps_error', [])
        # per-step errors as distinct powers of two: the model's eps is then the set of steps accounted for
        errs = [2 ** i for i in range(job['n'])]
        carry = 'trunc_err' in (r['resume_keys'].get(k) or r['resume_keys'].get(str(k)) or [])
        return dict(k='loop', kind='te', n=job['n'], ck=k, errs=errs, measure_initial=r['measure_initial'],
                    measure_at_checkpoints='measure' in lst, prio_measure=lst.get('measure', 0),
                    prio_save=lst.get('save', -100), carry_err=carry)
    alg = job['params']['algorithm_params']
    nsc = int(alg.get('N_sweeps_check', 1))   # one iteration = nsc sweeps; the machine counts iterations
    return dict(k='loop', kind='gs', max_sweeps=alg['max_sweeps'] // nsc, min_sweeps=alg.get('min_sweeps', 1) // nsc, ck=k,
                errs=[], conv_at=[], measure_initial=r['measure_initial'],
                measure_at_checkpoints='measure' in lst, prio_measure=lst.get('measure', 0),
                prio_save=lst.get('save', -100), carry_err=True, guard_empty=bool(r.get('guard_empty')))


def compare_model(res, case, r, k, real, mo):
    """measurement bookkeeping of the real resumed run vs the loop machine"""
    job = r['job']
    if 'error' in mo or '_raw' in mo:
        res.fail('correspondence', 'resume.model-error', repr(mo)[:300], case)
        return
    order = [n for n, _ in r['listeners'] if n in ('save', 'measure')]
    if mo['order'] != order:
        res.fail('correspondence', 'resume.listener-order', 'real %r model %r' % (r['listeners'], mo['order']), case)
        return
    plain = r['plain']
    unit = job['unit']

    def tags(summary):
        return [int(round(x / unit)) for x in summary['meas'].get('c18_steps', [])]

    def idxs(summary):
        return [int(round(x)) for x in summary['meas'].get('measurement_index', [])]

    mp = mo['plain']
    if mp is None or [m[0] for m in mp['meas']] != idxs(plain) or [m[1] for m in mp['meas']] != tags(plain):
        res.fail('correspondence', 'resume.plain-bookkeeping',
                 'real idx %r tags %r model %r' % (idxs(plain), tags(plain), mp), case)
        return
    mr = mo['resumed']
    if 'exception' in real:
        if mr is not None:
            res.fail('correspondence', 'resume.exception-not-in-model', real['exception'] + ' ' + real['where'], case)
        return
    if mr is None:
        res.fail('correspondence', 'resume.model-predicts-exception', 'real run resumed fine', case)
        return
    if [m[0] for m in mr['meas']] != idxs(real) or [m[1] for m in mr['meas']] != tags(real):
        res.fail('correspondence', 'resume.resumed-bookkeeping',
                 'real idx %r tags %r model %r' % (idxs(real), tags(real), mr['meas']), case)
        return
    if job['kind'] == 'te' and 'eps_error' in plain['meas']:
        eps = plain['meas']['eps_error']
        # accumulated error after t steps = eps of any plain measurement with tag t (0 before the first step)
        E = {0: 0.0}
        for t, x in zip(tags(plain), eps):
            E[t] = x
        e = [E.get(i + 1, 0.0) - E.get(i, 0.0) for i in range(job['n'])]
        want = [sum(e[i] for i in range(job['n']) if (m[3] >> i) & 1) for m in mr['meas']]
        got = real['meas'].get('eps_error', [])
        if not _close(got, want):
            res.fail('correspondence', 'resume.eps-accounting', 'real %r model predicts %r' % (got, want), case)


def evaluate(ctx, res, results, use_model=True):
    model_in, model_meta = [], []
    for r in results:
        job = r['job']
        base_case = dict(part='resume', kind=job['kind'], cls=job['cls'], engine=job['engine'], fmt=job['fmt'],
                         schedule=job.get('schedule'), params=job['params'])
        if 'fatal' in r:
            res.fail('correspondence', 'resume.worker-failed', r['fatal'][-600:], base_case)
            continue
        plain = r['plain']
        eps = plain['meas'].get('eps_error', [0.0])
        # resume_data must hold every state component the loop machine's proof needs
        need = NEEDED_RESUME_KEYS[job['kind']]
        for k, keys in sorted(r['resume_keys'].items(), key=lambda kv: int(kv[0])):
            res.extra.setdefault('resume_data_keys', {})[job['engine']] = keys
            missing = sorted(set(need) - set(keys))
            if missing:
                res.fail('correspondence', 'resume.resume_data-lacks:' + ','.join(missing),
                         '%s checkpoint %s: resume_data keys %r' % (job['engine'], k, keys), dict(base_case, checkpoint=int(k)))
                break
        for k, real in sorted(r['resumed'].items(), key=lambda kv: int(kv[0])):
            k = int(k)
            case = dict(base_case, checkpoint=k)
            if 'skip' in real:
                continue
            nontriv = (job['kind'] == 'gs') or (len(eps) > k and eps[k] > 1.0e-14)
            res.note_case(dict(case, params=None, sig=repr(job['params'])), nontrivial=bool(nontriv))
            res.count('resume.engine=' + job['engine'])
            res.count('resume.class=' + job['cls'])
            res.count('resume.schedule=%s' % job.get('schedule'))
            res.count('resume.fmt=' + job['fmt'])
            res.count('resume.checkpoint=%d' % k)
            diffs = diff_det(plain, real, job['kind']) if job['cls'] == 'det' else diff_conv(plain, real, job['unit'])
            for suffix, detail in diffs:
                res.fail('property', signature(job['kind'], job['cls'], suffix),
                         '%s %s resumed from checkpoint %d of %d: %s' % (job['engine'], job['cls'], k, r['n_saves'] - 1, detail),
                         case)
            if use_model and job['cls'] == 'det':
                model_in.append(model_line(r, k))
                model_meta.append((case, r, k, real))
        if r.get('sigint') is not None and 'sigint' in r:
            real = r['sigint']
            case = dict(base_case, checkpoint=job['sigint'], via='SIGINT')
            res.note_case(dict(case, params=None, sig=repr(job['params'])), nontrivial=True)
            res.count('resume.via=SIGINT')
            if 'error' in real:
                res.fail('correspondence', 'resume.sigint-not-delivered', real['error'], case)
            else:
                diffs = diff_det(plain, real, job['kind']) if job['cls'] == 'det' else diff_conv(plain, real, job['unit'])
                for suffix, detail in diffs:
                    res.fail('property', signature(job['kind'], job['cls'], suffix),
                             '%s %s SIGINT at checkpoint %d, resumed: %s' % (job['engine'], job['cls'], job['sigint'], detail),
                             case)
    if use_model and model_in:
        outs = core.run_driver('C18', model_in)
        for (case, r, k, real), mo in zip(model_meta, outs):
            res.traces_validated += 1
            compare_model(res, case, r, k, real, mo)


TE_ENGINES = ['TEBDEngine', 'TwoSiteTDVPEngine', 'SingleSiteTDVPEngine', 'ExpMPOEvolution']
GS_ENGINES = ['TwoSiteDMRGEngine', 'SingleSiteDMRGEngine']


def make_jobs(ctx, rng):
    jobs = []
    reps = 1 if ctx.quick else 6
    for rep in range(reps):
        for e in TE_ENGINES:
            j = te_params(rng, e, rng.choice(['pkl', 'pkl', 'h5']))
            j['sigint'] = rng.randrange(1, j['n']) if (rep == 0 and e in ('TEBDEngine', 'TwoSiteTDVPEngine')) else None
            jobs.append(j)
        for e in GS_ENGINES:
            j = gs_params(rng, e, 'det', rng.choice(['pkl', 'pkl', 'h5']))
            j['sigint'] = rng.randrange(1, j['n']) if rep == 0 and e == 'TwoSiteDMRGEngine' else None
            jobs.append(j)
            j = gs_params(rng, e, 'conv', 'pkl', schedule=('mixer' if rep % 2 == 0 and e == 'TwoSiteDMRGEngine' else None))
            j['sigint'] = None
            jobs.append(j)
        # option schedules that evolve during the run (deterministic class): every run has a chi_list with a late
        # `None`, one with integers, one with N_sweeps_check = 2
        for sched in ('chi_none', 'chi_int', 'nsc'):
            j = gs_params(rng, 'TwoSiteDMRGEngine', 'det', rng.choice(['pkl', 'pkl', 'h5']), schedule=sched)
            j['sigint'] = None
            jobs.append(j)
    return jobs


def extra_jobs(ctx, rng):
    """Option variants of the save/resume machinery (coverage round): each is a deterministic-class job, resumed
    from every checkpoint and diffed against the plain run and the loop machine."""
    jobs = []

    def te(engine='TEBDEngine', fmt='pkl', variant=None, start_time=0.0):
        j = te_params(rng, engine, fmt, start_time=start_time)
        j['sigint'] = None
        j['schedule'] = variant
        return j

    # non-zero start_time with every engine family (the clock of a resumed run continues from the checkpoint)
    for eng in ('TEBDEngine', rng.choice(['TwoSiteTDVPEngine', 'SingleSiteTDVPEngine']), 'ExpMPOEvolution'):
        j = te(engine=eng, fmt=rng.choice(['pkl', 'h5']), variant='te:start_time',
               start_time=rng.choice([t for t in START_TIMES if t != 0.0]))
        jobs.append(j)
    # measure_initial = False
    j = te(variant='te:measure_initial=False')
    j['params']['measure_initial'] = False
    jobs.append(j)
    # measurements also through the checkpoint listener (two per step)
    j = te(variant='te:measure_at_algorithm_checkpoints')
    j['params']['measure_at_algorithm_checkpoints'] = True
    jobs.append(j)
    # final_time is not a multiple of dt*N_steps: the run goes beyond it by part of a step
    j = te(engine=rng.choice(['TEBDEngine', 'ExpMPOEvolution']), variant='te:final_time-not-multiple')
    j['params']['final_time'] = j['unit'] * (j['n'] - rng.choice([0.25, 0.5, 0.75]))
    jobs.append(j)
    # grouped sites (TEBD on a coarse-grained chain), the checkpoint holds the grouped state
    j = te(variant='te:group_sites')
    j['params']['model_params']['L'] = rng.choice([4, 6])
    j['params']['group_sites'] = 2
    j['params']['group_to_NearestNeighborModel'] = True
    j['params']['algorithm_params']['trunc_params']['chi_max'] = rng.choice([3, 4, 6])
    jobs.append(j)
    # time-dependent Hamiltonian: the model is re-initialised at the evolved time (also after a resume)
    eng = rng.choice(['TimeDependentTEBD', 'TimeDependentExpMPOEvolution', 'TimeDependentTwoSiteTDVP'])
    j = te(engine='ExpMPOEvolution' if eng == 'TimeDependentExpMPOEvolution' else 'TEBDEngine',
           fmt=rng.choice(['pkl', 'h5']), variant='te:time-dependent-H')
    j['engine'] = eng
    j['params']['algorithm_class'] = eng
    if eng == 'TimeDependentTwoSiteTDVP':
        j['params']['algorithm_params'].pop('order', None)
    j['params']['model_class'] = 'C18DrivenXXZ'
    mp = j['params']['model_params']
    mp.pop('hz', None)
    mp.update(hz0=rng.randrange(1, 5) / 4.0, omega=rng.choice([1.0, 2.0, 4.0]))
    jobs.append(j)
    # QR based TEBD
    j = te(engine='TEBDEngine', variant='te:QRBasedTEBDEngine')
    j['engine'] = 'QRBasedTEBDEngine'
    j['params']['algorithm_class'] = 'QRBasedTEBDEngine'
    jobs.append(j)
    # no default measurements; custom functions of every kind with priorities; gzip pickle
    j = te(fmt='pklz', variant='te:custom-measurements')
    j['params']['use_default_measurements'] = False
    j['params']['connect_measurements'] = [
        ['tenpy.simulations.measurement', 'm_measurement_index', {}, 1],
        ['harness.c18_meas', 'm_steps', {}, -5],
        ['tenpy.simulations.measurement', 'm_evolved_time', {}, 3],
        ['psi_method', 'wrap entanglement_entropy', {'results_key': 'c18_S'}],
        ['tenpy.simulations.measurement', 'm_bond_dimension', {'results_key': 'c18_chi'}],
        ['simulation_method', 'wrap walltime'],
        ['simulation_method', 'wrap eps_error', {'results_key': 'eps_error'}, -1],
        ['harness.c18_meas', 'm_flaky_key', {'every': 2}, -10],
        ['harness.c18_meas', 'm_flaky_key', {'every': 3, 'offset': 1, 'results_key': 'c18_late'}, -11],
        ['harness.c18_meas', 'm_returns'],
    ]
    j['params']['random_seed'] = rng.randrange(1, 1000)
    jobs.append(j)

    def gs(variant, **kw):
        j = gs_params(rng, 'TwoSiteDMRGEngine', 'det', rng.choice(['pkl', 'pkl', 'h5']))
        j['sigint'] = None
        j['schedule'] = variant
        j['params'].update(kw)
        return j

    jobs.append(gs('gs:no-checkpoint-measurements', measure_at_algorithm_checkpoints=False))
    # neither an initial nor a checkpoint measurement: the checkpoint file has no 'measurements' entry at all
    jobs.append(gs('gs:no-measurements-key-in-checkpoint', measure_at_algorithm_checkpoints=False, measure_initial=False))
    # environments cached on disk (cache_threshold_chi below chi_max)
    jobs.append(gs('gs:disk-cache', cache_threshold_chi=1, cache_params=dict(storage_class='PickleStorage', delete=True)))
    jobs.append(gs('gs:measure_initial=False', measure_initial=False))
    jobs.append(gs('gs:save_stats=False,save_psi=False,save_resume_data=True,post_processing',
                   save_stats=False, save_psi=False, save_resume_data=True,
                   post_processing=[['harness.c18_meas', 'pp_energy_span', {'key': 'energy_MPO', 'results_key': 'c18_span'}]]))
    return jobs


def run(ctx, res, pool, use_model=True, corpus=()):
    rng = ctx.sub_rng('resume')
    jobs = list(corpus) + make_jobs(ctx, rng) + extra_jobs(ctx, ctx.sub_rng('resume-extra'))
    results = pool.map(run_job, jobs, chunksize=1)
    evaluate(ctx, res, results, use_model=use_model)
    return res
