"""C16 helpers: generators of block-sparse operators / vectors, runners of the real Krylov code, dense oracles.

Everything a case needs is stored in a JSON-able dict (`case`), so that (seed, index) and the replay file
reproduce it.  Exact cases carry their integer data, float cases carry the numpy seed they are drawn from.
"""
import logging
import warnings
from fractions import Fraction

import numpy as np

CH_MODS = {'none': [], 'Z2': [2], 'U1': [1], 'Z3': [3], 'U1Z2': [1, 2]}


def quiet():
    logging.getLogger('tenpy').setLevel(logging.CRITICAL)
    warnings.simplefilter('ignore')


def npc_mod():
    import tenpy.linalg.np_conserved as npc
    return npc


# --------------------------------------------------------------------------------------------
# structure: a leg with charges, one chosen sector of dimension d


def gen_structure(rng, d, ch=None):
    """Leg of length n >= d whose sector `q` has exactly d indices; other sectors get 0-4 indices each.

    Returns dict(ch, qflat, q, qconj, blocking)."""
    ch = ch or rng.choice(['none', 'Z2', 'U1', 'U1', 'Z3', 'U1Z2'])
    mods = CH_MODS[ch]

    def rnd_charge():
        return [rng.randint(-2, 2) if m == 1 else rng.randrange(m) for m in mods]

    q = rnd_charge()
    qflat = [list(q) for _ in range(d)]
    if mods:
        others = []
        for _ in range(rng.randint(0, 3)):
            c = rnd_charge()
            if c != q and c not in others:
                others.append(c)
        for c in others:
            qflat += [list(c) for _ in range(rng.randint(1, 4))]
    blocking = rng.choice(['sorted', 'shuffled', 'shuffled-bunched']) if mods else 'sorted'
    if blocking == 'sorted':
        qflat.sort(key=lambda c: tuple(reversed(c)))     # tenpy's lexsort order (last charge is the primary key)
    else:
        rng.shuffle(qflat)
    return dict(ch=ch, qflat=qflat, q=q, qconj=rng.choice([1, -1]), blocking=blocking)


def sector_indices(st):
    return [i for i, c in enumerate(st['qflat']) if c == st['q']]


def make_leg(st):
    npc = npc_mod()
    chinfo = npc.ChargeInfo(CH_MODS[st['ch']])
    n = len(st['qflat'])
    qflat = np.array(st['qflat'], dtype=int).reshape(n, len(CH_MODS[st['ch']]))
    leg = npc.LegCharge.from_qflat(chinfo, qflat, st['qconj'])
    if st['blocking'] in ('sorted', 'shuffled-bunched'):
        leg = leg.bunch()[1]
    return leg


def charge_mask(st):
    """n x n boolean: entries allowed for an operator with qtotal = 0."""
    qf = st['qflat']
    n = len(qf)
    return np.array([[qf[i] == qf[j] for j in range(n)] for i in range(n)], dtype=bool).reshape(n, n)


def npc_matrix(st, M):
    npc = npc_mod()
    leg = make_leg(st)
    return npc.Array.from_ndarray(np.asarray(M), [leg, leg.conj()], labels=['p', 'p*'])


def npc_vector(st, v, dtype=None):
    npc = npc_mod()
    leg = make_leg(st)
    chinfo = leg.chinfo
    qtotal = chinfo.make_valid(np.array(st['q'], dtype=int) * st['qconj']) if CH_MODS[st['ch']] else None
    return npc.Array.from_ndarray(np.asarray(v), [leg], labels=['p'], qtotal=qtotal, dtype=dtype)


def embed(st, idx, x, dtype=float):
    v = np.zeros(len(st['qflat']), dtype=dtype)
    v[idx] = x
    return v


# --------------------------------------------------------------------------------------------
# operator families (float): Hermitian with controlled spectrum


def rand_unitary(nrng, d, cplx):
    a = nrng.normal(size=(d, d))
    if cplx:
        a = a + 1j * nrng.normal(size=(d, d))
    q, r = np.linalg.qr(a)
    return q * (np.diag(r) / np.abs(np.diag(r)))


def gen_spectrum(nrng, d, family):
    """eigenvalues with gaps >= 0.05 between distinct values; family selects degeneracies"""
    gaps = nrng.uniform(0.05, 1.0, size=d)
    lam = np.cumsum(gaps) - nrng.uniform(0, 3)
    if family == 'deg-min' and d >= 3:
        k = int(nrng.integers(2, min(4, d) + 1))
        lam[:k] = lam[0]
    elif family == 'deg-max' and d >= 3:
        k = int(nrng.integers(2, min(4, d) + 1))
        lam[-k:] = lam[-1]
    elif family == 'clustered' and d >= 4:
        lam[1] = lam[0] + 0.05
    return lam


def gen_hermitian(nrng, d, family, cplx):
    lam = gen_spectrum(nrng, d, family)
    U = rand_unitary(nrng, d, cplx)
    Hs = (U * lam) @ U.conj().T
    Hs = (Hs + Hs.conj().T) / 2
    return Hs, lam


def gen_general(nrng, d, cplx):
    a = nrng.normal(size=(d, d))
    if cplx:
        a = a + 1j * nrng.normal(size=(d, d))
    return a / max(1.0, np.sqrt(d) / 2)


def fill_other_sectors(nrng, st, idx, Hs, cplx, hermitian=True):
    """Full n x n operator: `Hs` on the chosen sector, random charge-conserving entries elsewhere."""
    n = len(st['qflat'])
    mask = charge_mask(st)
    M = nrng.normal(size=(n, n))
    if cplx:
        M = M + 1j * nrng.normal(size=(n, n))
    if hermitian:
        M = (M + M.conj().T) / 2
    M = np.where(mask, M, 0)
    M[np.ix_(idx, idx)] = Hs
    return M


# --------------------------------------------------------------------------------------------
# integer families (exact model path)


def gen_int_symmetric(rng, d, family):
    if family == 'complete-graph':
        return [[0 if i == j else 1 for j in range(d)] for i in range(d)]
    if family == 'path-graph':
        return [[1 if abs(i - j) == 1 else 0 for j in range(d)] for i in range(d)]
    if family == 'kron-deg' and d >= 4 and d % 2 == 0:
        m = d // 2
        A = gen_int_symmetric(rng, m, 'random')
        Z = [[0] * d for _ in range(d)]
        for i in range(m):
            for j in range(m):
                Z[i][j] = A[i][j]
                Z[m + i][m + j] = A[i][j]
        return Z
    if family == 'diag':
        return [[rng.randint(-3, 3) if i == j else 0 for j in range(d)] for i in range(d)]
    if family == 'sparse':
        A = [[0] * d for _ in range(d)]
        for i in range(d):
            A[i][i] = rng.randint(-2, 2)
            for j in range(i):
                if rng.random() < 0.35:
                    A[i][j] = A[j][i] = rng.randint(-3, 3)
        return A
    A = [[0] * d for _ in range(d)]
    for i in range(d):
        for j in range(i + 1):
            A[i][j] = A[j][i] = rng.randint(-3, 3)
    return A


def gen_int_general(rng, d):
    return [[rng.randint(-3, 3) for _ in range(d)] for _ in range(d)]


def gen_int_vector(rng, d, sparse=False):
    while True:
        v = [rng.randint(-3, 3) if (not sparse or rng.random() < 0.4) else 0 for _ in range(d)]
        if any(v):
            return v


def embed_int(st, idx, Hs, rng, symmetric=True):
    """integer n x n matrix with Hs on the sector and small charge-conserving integers elsewhere"""
    n = len(st['qflat'])
    qf = st['qflat']
    M = [[0] * n for _ in range(n)]
    for i in range(n):
        for j in range(i + 1):
            if qf[i] == qf[j]:
                M[i][j] = rng.randint(-2, 2)
                M[j][i] = M[i][j] if symmetric else rng.randint(-2, 2)
    for a, i in enumerate(idx):
        for b, j in enumerate(idx):
            M[i][j] = Hs[a][b]
    return M


# --------------------------------------------------------------------------------------------
# rationals <-> floats


def frac_str(x):
    f = Fraction(x)
    return int(f.numerator) if f.denominator == 1 else f'{f.numerator}/{f.denominator}'


def to_float(x):
    if isinstance(x, str):
        return float(Fraction(x))
    return float(x)


def floats(xs):
    return np.array([to_float(x) for x in xs], dtype=float)


# --------------------------------------------------------------------------------------------
# dense reference (independent of tenpy's Krylov code)


def ortho_complement_projector(O):
    """P = 1 - sum |o><o| for the span of the columns of O (orthonormalised by numpy's QR/SVD)."""
    d = O.shape[0]
    if O.shape[1] == 0:
        return np.eye(d), np.zeros((d, 0))
    u, s, _ = np.linalg.svd(O, full_matrices=False)
    B = u[:, s > 1e-10 * max(1.0, s.max())]
    return np.eye(d) - B @ B.conj().T, B


def complement_basis(B, d):
    if B.shape[1] == 0:
        return np.eye(d)
    u, _, _ = np.linalg.svd(B, full_matrices=True)
    return u[:, B.shape[1]:]
