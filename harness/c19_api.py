"""C19 coverage round: API scenarios of tenpy/models/lattice.py (and its use in model.py) that the lattice-case family
does not reach, each with an independent oracle (geometry from the description, brute force over sites, documented
contract, same error class).  No Lean model involved; failures are 'property' failures with a replayable scenario.

A scenario case is {'part': 'api', 'scenario': name, 'seed': s}: everything is drawn from random.Random(f'C19-api:{name}:{s}').
"""
import itertools
import random
import warnings
from collections import Counter

import numpy as np

from vlib import core
from harness import c19_gen as G
from harness import c19_real as R

TOL = 1e-10


class Fail(Exception):
    def __init__(self, sig, detail):
        super().__init__(detail)
        self.sig, self.detail = sig, detail


def need(cond, sig, detail=''):
    if not cond:
        raise Fail(sig, detail if isinstance(detail, str) else repr(detail))


def expect_raises(exc, sig, f, *a, **kw):
    try:
        f(*a, **kw)
    except exc:
        return
    except Exception as e:  # noqa: BLE001
        raise Fail(sig, f'raised {type(e).__name__} instead of {exc}: {e}'[:300])
    raise Fail(sig, f'did not raise {exc}')


def la():
    from tenpy.models import lattice
    return lattice


def sites(n):
    """n distinguishable Site objects (different local dimensions would break charges; use copies)"""
    import copy
    s = R._site()
    return [copy.copy(s) for _ in range(n)]


def geometric_lattice(rng, with_sites=False):
    """a predefined lattice class (incl. NLegLadder) or a generic Lattice with random integer/dyadic basis+positions"""
    L = la()
    kind = rng.choice(['Chain', 'Ladder', 'NLegLadder', 'Square', 'Triangular', 'Honeycomb', 'Kagome', 'generic'])
    bcx = rng.choice(['open', 'periodic'])
    s = R._site() if with_sites else None
    if kind in ('Chain', 'Ladder'):
        return kind, getattr(L, kind)(rng.randint(1, 5), s, bc=bcx)
    if kind == 'NLegLadder':
        return kind, L.NLegLadder(rng.randint(1, 4), rng.randint(2, 4), s, bc=bcx)
    if kind == 'generic':
        D, Lu = rng.randint(1, 3), rng.randint(1, 3)
        Dim = rng.randint(D, D + 1)
        Ls = [rng.randint(1, 3) for _ in range(D)]
        basis = [[rng.randint(-4, 4) / 2 for _ in range(Dim)] for _ in range(D)]
        pos = [[rng.randint(-4, 4) / 4 for _ in range(Dim)] for _ in range(Lu)]
        bc = [bcx] + [rng.choice(['open', 'periodic', 1, -2]) for _ in range(D - 1)]
        return kind, L.Lattice(Ls, [s] * Lu, bc=bc, basis=basis, positions=pos)
    bc = [bcx, rng.choice(['open', 'periodic', 1, -1])]
    return kind, getattr(L, kind)(rng.randint(1, 3), rng.randint(1, 3), s, bc=bc)


def ref_position(lat, idx):
    pos = np.asarray(lat.unit_cell_positions, dtype=float)
    basis = np.asarray(lat.basis, dtype=float)
    idx = np.asarray(idx)
    out = pos[idx[..., -1]].copy()
    for a in range(lat.dim):
        out = out + idx[..., a, None] * basis[a]
    return out


# ---------------------------------------------------------------------------------------------
# scenarios


def sc_position_distance(rng):
    kind, lat = geometric_lattice(rng)
    D, Lu = lat.dim, len(lat.unit_cell)
    for shape in [(), (5,), (2, 3)]:
        idx = np.array([[rng.randint(-3, 6) for _ in range(D)] + [rng.randrange(Lu)]
                        for _ in range(int(np.prod(shape)) or 1)]).reshape(shape + (D + 1,))
        got = lat.position(idx)
        need(np.allclose(got, ref_position(lat, idx), atol=TOL), 'position.wrong', f'{kind} idx {idx.tolist()}')
    for _ in range(6):
        u1, u2 = rng.randrange(Lu), rng.randrange(Lu)
        dx = np.array([rng.randint(-3, 3) for _ in range(D)])
        want = np.linalg.norm(ref_position(lat, np.array(list(dx) + [u2])) - ref_position(lat, np.array([0] * D + [u1])))
        need(abs(float(lat.distance(u1, u2, dx)) - want) < TOL, 'distance.wrong', f'{kind} {u1} {u2} {dx.tolist()}')
    # positional disorder: position() adds disorder[idx mod shape]; distance() returns one value per coupling
    dis = np.array([rng.randint(-8, 8) / 16 for _ in range(int(np.prod(lat.shape)) * lat.basis.shape[1])],
                   dtype=float).reshape(lat.shape + (lat.basis.shape[1],))
    lat.position_disorder = dis
    lat.test_sanity()
    idx = np.array([[rng.randint(-3, 6) for _ in range(D)] + [rng.randrange(Lu)] for _ in range(6)])
    if lat.bc_shift is not None:
        expect_raises(NotImplementedError, 'position.disorder+bc_shift-not-rejected', lat.position, idx)
        expect_raises(NotImplementedError, 'distance.disorder+bc_shift-not-rejected', lat.distance, 0, 0,
                      np.zeros(D, dtype=int))
        return
    want = ref_position(lat, idx) + np.array([dis[tuple(np.mod(r, lat.shape))] for r in idx])
    need(np.allclose(lat.position(idx), want, atol=TOL), 'position.disorder-wrong', f'{kind}')
    u1, u2 = rng.randrange(Lu), rng.randrange(Lu)
    dx = np.array([rng.randint(-2, 2) for _ in range(D)])
    shape, shift = lat.coupling_shape(dx)
    if all(s > 0 for s in shape):
        got = lat.distance(u1, u2, dx)
        need(tuple(got.shape) == tuple(shape), 'distance.disorder-shape', f'{got.shape} vs {shape}')
        reg = ref_position(lat, np.array(list(dx) + [u2])) - ref_position(lat, np.array([0] * D + [u1]))
        for c in itertools.product(*[range(s) for s in shape]):
            x = [c[a] - int(shift[a]) for a in range(D)]  # c is the lower-left corner of the box spanned by x, x+dx
            i = tuple(np.mod(x, lat.Ls)) + (u1,)
            j = tuple(np.mod(np.array(x) + dx, lat.Ls)) + (u2,)
            want = np.linalg.norm(reg + dis[j] - dis[i])
            need(abs(float(got[c]) - want) < TOL, 'distance.disorder-wrong', f'{kind} u={u1},{u2} dx={dx.tolist()} c={c}')


def sc_count_neighbors(rng):
    """count_neighbors(u, key) = number of sites at the distance of that shell around site u (bulk)"""
    L = la()
    cls = rng.choice(['Chain', 'Ladder', 'Square', 'Triangular', 'Honeycomb', 'Kagome'])
    lat = getattr(L, cls)(4, None) if cls in ('Chain', 'Ladder') else getattr(L, cls)(4, 4, None)
    Lu, D = len(lat.unit_cell), lat.dim
    for key, lst in lat.pairs.items():
        if key in ('rung_NN', 'leg_NN'):
            continue
        d = float(lat.distance(*[lst[0][0], lst[0][1], np.asarray(lst[0][2])]))
        for u in range(Lu):
            n = 0
            for u2 in range(Lu):
                for dx in itertools.product(range(-4, 5), repeat=D):
                    if u2 == u and not any(dx):
                        continue
                    v = ref_position(lat, np.array(list(dx) + [u2])) - ref_position(lat, np.array([0] * D + [u]))
                    n += abs(np.linalg.norm(v) - d) < 1e-9
            need(lat.count_neighbors(u, key) == n, 'count_neighbors.wrong',
                 f'{cls} u={u} {key}: {lat.count_neighbors(u, key)} vs {n} sites at distance {d:.4f}')
    # find_coupling_pairs with the default cutoff: keys ascending, first key = nearest-neighbour distance
    found = lat.find_coupling_pairs(max_dx=2)
    ks = list(found.keys())
    need(ks == sorted(ks) and abs(ks[0] - float(lat.distance(*lat.pairs['nearest_neighbors'][0][:2],
                                                            np.asarray(lat.pairs['nearest_neighbors'][0][2])))) < 1e-9,
         'find_coupling_pairs.keys', f'{cls} {ks[:3]}')
    got = {R_canon(u1, u2, dx) for u1, u2, dx in found[ks[0]]}
    want = {R_canon(u1, u2, dx) for u1, u2, dx in lat.pairs['nearest_neighbors']}
    need(got == want, 'find_coupling_pairs.first-shell', f'{cls}: {sorted(got)} vs {sorted(want)}')


def R_canon(u1, u2, dx):
    a = (int(u1), int(u2), tuple(int(d) for d in dx))
    b = (int(u2), int(u1), tuple(-int(d) for d in dx))
    return min(a, b)


def sc_nleg_multispecies_pairs(rng):
    """NLegLadder pairs and MultiSpeciesLattice derived pairs: consistent with the geometry"""
    L = la()
    N = rng.randint(2, 4)
    lad = L.NLegLadder(rng.randint(2, 4), N, None)
    pos = np.asarray(lad.unit_cell_positions)
    for key, kind in (('rung_NN', 'rung'), ('leg_NN', 'leg'), ('diagonal', 'diag')):
        lst = [R_canon(*p) for p in lad.pairs[key]]
        need(len(set(lst)) == len(lst), 'pairs.NLegLadder.double-counted', key)
        want = set()
        for u1 in range(N):
            for u2 in range(N):
                for dx in (-1, 0, 1):
                    if kind == 'rung' and dx == 0 and abs(u1 - u2) == 1:
                        want.add(R_canon(u1, u2, [dx]))
                    if kind == 'leg' and abs(dx) == 1 and u1 == u2:
                        want.add(R_canon(u1, u2, [dx]))
                    if kind == 'diag' and abs(dx) == 1 and abs(u1 - u2) == 1:
                        want.add(R_canon(u1, u2, [dx]))
        need(set(lst) == want, f'pairs.NLegLadder.{key}', f'N={N}: {sorted(set(lst) ^ want)}')
    need({R_canon(*p) for p in lad.pairs['nearest_neighbors']} ==
         {R_canon(*p) for p in lad.pairs['rung_NN'] + lad.pairs['leg_NN']}, 'pairs.NLegLadder.nearest_neighbors', '')
    need(np.allclose(pos[:, 1], np.linspace(0, 1, N)) and np.allclose(pos[:, 0], 0), 'NLegLadder.positions', '')
    # MultiSpecies
    cls = rng.choice(['Chain', 'Square', 'Honeycomb', 'Kagome', 'Ladder'])
    simple = getattr(L, cls)(3, None) if cls in ('Chain', 'Ladder') else getattr(L, cls)(2, 3, None)
    nsp = rng.randint(2, 3)
    names = rng.choice([None, [f's{k}' for k in range(nsp)]])
    ms = L.MultiSpeciesLattice(simple, [None] * nsp, names)
    nm = names or [str(k) for k in range(nsp)]
    Lu0 = len(simple.unit_cell)
    need(len(ms.unit_cell) == Lu0 * nsp, 'MultiSpecies.unit_cell', '')
    need(np.allclose(ms.unit_cell_positions, np.repeat(simple.unit_cell_positions, nsp, axis=0)), 'MultiSpecies.positions', '')
    for u in range(Lu0 * nsp):
        need(ms.self_u_to_simple_u(u) == u // nsp and ms.self_u_to_species_idx(u) == u % nsp and
             ms.simple_u_to_species_u(u // nsp, u % nsp) == u, 'MultiSpecies.u-maps', str(u))
    for key, lst in simple.pairs.items():
        base = Counter((u1, u2, tuple(int(d) for d in dx)) for u1, u2, dx in lst)
        allall, diag = Counter(), Counter()
        for a in range(nsp):
            for b in range(nsp):
                got = ms.pairs[f'{key}_{nm[a]}-{nm[b]}']
                need(all(u1 % nsp == a and u2 % nsp == b for u1, u2, _ in got), 'MultiSpecies.pairs.species', key)
                c = Counter((u1 // nsp, u2 // nsp, tuple(int(d) for d in dx)) for u1, u2, dx in got)
                need(c == base, 'MultiSpecies.pairs.not-the-simple-pairs', f'{key} {a}-{b}')
                for u1, u2, dx in got:
                    need(abs(float(ms.distance(u1, u2, np.asarray(dx))) -
                             float(simple.distance(u1 // nsp, u2 // nsp, np.asarray(dx)))) < TOL, 'MultiSpecies.distance', key)
                allall.update((u1, u2, tuple(int(d) for d in dx)) for u1, u2, dx in got)
                if a == b:
                    diag.update((u1, u2, tuple(int(d) for d in dx)) for u1, u2, dx in got)
        need(Counter((u1, u2, tuple(int(d) for d in dx)) for u1, u2, dx in ms.pairs[f'{key}_all-all']) == allall,
             'MultiSpecies.pairs.all-all', key)
        need(Counter((u1, u2, tuple(int(d) for d in dx)) for u1, u2, dx in ms.pairs[f'{key}_diag']) == diag,
             'MultiSpecies.pairs.diag', key)
    for a in range(nsp):
        for b in range(a + 1, nsp):
            got = ms.pairs[f'onsite_{nm[a]}-{nm[b]}']
            need(sorted((u1, u2) for u1, u2, _ in got) == [(u * nsp + a, u * nsp + b) for u in range(Lu0)] and
                 all(not any(dx) for _, _, dx in got), 'MultiSpecies.pairs.onsite', f'{a}-{b}')
    expect_raises(ValueError, 'MultiSpecies.species_names-length-not-rejected', L.MultiSpeciesLattice, simple,
                  [None] * nsp, ['x'] * (nsp + 1))
    expect_raises(ValueError, 'MultiSpecies.duplicate-species-names-not-rejected', L.MultiSpeciesLattice, simple,
                  [None] * nsp, ['x'] * nsp)


def sc_sites(rng):
    """site(i) / mps_sites(): the Site object of unit-cell index order[i][-1]; unit_cell setter resets the cache"""
    L = la()
    Lu = rng.randint(1, 3)
    uc = sites(Lu)
    Ls = [rng.randint(1, 3), rng.randint(1, 3)]
    lat = L.Lattice(Ls, uc, order=rng.choice(['default', 'snake', 'Fstyle']), bc='periodic', bc_MPS='infinite')
    ms = lat.mps_sites()
    need(len(ms) == lat.N_sites, 'mps_sites.length', '')
    for i in range(lat.N_sites):
        need(ms[i] is uc[lat.order[i, -1]] and lat.site(i) is ms[i], 'site.wrong-object', str(i))
    new_uc = sites(Lu)
    lat.unit_cell = new_uc
    need(all(lat.site(i) is new_uc[lat.order[i, -1]] for i in range(lat.N_sites)), 'unit_cell-setter.stale-cache', '')
    triv = L.TrivialLattice(uc, bc_MPS='infinite', bc='periodic')
    need(triv.N_sites == Lu and triv.mps_sites() == uc, 'TrivialLattice.sites', '')
    g = lat.with_grouped_sites(uc)
    need(g.N_sites == Lu and g.bc_MPS == lat.bc_MPS and g.mps_unit_cell_width == lat.mps_unit_cell_width and
         g.mps_sites() == uc, 'with_grouped_sites', '')
    expect_raises(ValueError, '_parse_sites.wrong-number-not-rejected', L.Honeycomb, 2, 2, sites(3))
    lad = L.Ladder(2, uc[:1] * 2)
    need(len(lad.unit_cell) == 2, 'Ladder.sites', '')


def sc_values_axes(rng):
    """mps2lat_values with several axes / nd arrays / u; mps2lat_values_masked with axes lists and include_u=False"""
    L = la()
    Lu = rng.randint(1, 2)
    Ls = [rng.randint(1, 3), rng.randint(1, 2)]
    shape = tuple(Ls) + (Lu,)
    N = int(np.prod(shape))
    rows = [list(r) for r in itertools.product(*[range(s) for s in shape])]
    rng.shuffle(rows)
    simple = Lu == 1 and rng.random() < 0.5
    if simple:
        lat = L.SimpleLattice(Ls, None, bc='periodic', bc_MPS='infinite')
    else:
        lat = L.Lattice(Ls, [None] * Lu, bc='periodic', bc_MPS='infinite')
    lat.order = np.array(rows, dtype=np.intp)
    order = [tuple(r) for r in rows]
    A = np.array([rng.randint(-99, 99) for _ in range(N * 3 * N)]).reshape(N, 3, N)
    res = lat.mps2lat_values(A, axes=[0, -1])
    lsh = tuple(Ls) if simple else shape
    need(res.shape == lsh + (3,) + lsh, 'mps2lat_values.axes.shape', f'{res.shape}')
    for i in range(N):
        for j in range(N):
            xi = order[i][:-1] if simple else order[i]
            xj = order[j][:-1] if simple else order[j]
            need(np.array_equal(res[xi + (slice(None),) + xj], A[i, :, j]), 'mps2lat_values.axes.misplaced', f'{i},{j}')
    if not simple:
        u = rng.randrange(Lu)
        sel = [i for i in range(N) if order[i][-1] == u]
        need(list(lat.mps_idx_fix_u(u)) == sel, 'mps_idx_fix_u.wrong', '')
        mi, li = lat.mps_lat_idx_fix_u(u)
        need(list(mi) == sel and [tuple(r) for r in li] == [order[i][:-1] for i in sel], 'mps_lat_idx_fix_u.wrong', '')
        mi, li = lat.mps_lat_idx_fix_u(None)
        need([order[i][:-1] for i in mi] == [tuple(r) for r in li] and sorted(mi) == list(range(N)),
             'mps_lat_idx_fix_u(None).wrong', '')
        B = np.array([rng.randint(-99, 99) for _ in range(2 * len(sel))]).reshape(2, len(sel))
        r2 = lat.mps2lat_values(B, axes=1, u=u)
        need(r2.shape == (2,) + tuple(Ls), 'mps2lat_values.u.shape', '')
        for k, i in enumerate(sel):
            need(np.array_equal(r2[(slice(None),) + order[i][:-1]], B[:, k]), 'mps2lat_values.u.misplaced', f'{k}')
    # masked: two axes, explicit index sets, include_u False for indices of a single u
    u = rng.randrange(Lu)
    sel = [i for i in range(N) if order[i][-1] == u]
    inds0 = np.array(sorted(rng.sample(range(-N, 2 * N), min(4, 3 * N))))
    inds1 = np.array([i + rng.choice([0, N]) for i in sel])
    C = np.array([rng.randint(-99, 99) for _ in range(len(inds0) * 2 * len(inds1))]).reshape(len(inds0), 2, len(inds1))
    rm = lat.mps2lat_values_masked(C, axes=[0, 2], mps_inds=[inds0, inds1], include_u=[True, False])
    data, mask = np.ma.getdata(rm), np.ma.getmaskarray(rm)

    def coords(i, incl):
        q, r = divmod(int(i), N)
        x = list(order[r])
        x[0] += q * Ls[0]
        return tuple(x if incl else x[:-1])
    n_unmasked = 0
    for a, i in enumerate(inds0):
        for b, j in enumerate(inds1):
            p = coords(i, True) + (slice(None),) + coords(j, False)
            need(not mask[p].any() and np.array_equal(data[p], C[a, :, b]), 'mps2lat_values_masked.axes.misplaced',
                 f'{int(i)},{int(j)}')
            n_unmasked += 2
    need(int((~mask).sum()) == n_unmasked, 'mps2lat_values_masked.axes.extra-unmasked', '')
    D1 = np.array([rng.randint(-99, 99) for _ in range(N)])
    rd = lat.mps2lat_values_masked(D1)  # defaults: axes=-1, all sites, include_u = (Lu > 1)
    need(rd.shape == (shape if Lu > 1 else tuple(Ls)) and not np.ma.getmaskarray(rd).any(), 'mps2lat_values_masked.default.shape', '')
    for i in range(N):
        need(int(rd[order[i] if Lu > 1 else order[i][:-1]]) == D1[i], 'mps2lat_values_masked.default.misplaced', str(i))
    E2 = np.array([rng.randint(-99, 99) for _ in range(N * N)]).reshape(N, N)
    re2 = lat.mps2lat_values_masked(E2, axes=[0, 1])  # iterable axes, default index sets and include_u
    sh1 = shape if Lu > 1 else tuple(Ls)
    need(re2.shape == sh1 + sh1, 'mps2lat_values_masked.axes-defaults.shape', '')
    for i in range(N):
        for j in range(N):
            ci = order[i] if Lu > 1 else order[i][:-1]
            cj = order[j] if Lu > 1 else order[j][:-1]
            need(int(re2[ci + cj]) == E2[i, j], 'mps2lat_values_masked.axes-defaults.misplaced', f'{i},{j}')
    expect_raises(ValueError, 'mps2lat_values_masked.2D-mps_inds-not-rejected', lat.mps2lat_values_masked, D1, 0,
                  np.zeros((2, 2), dtype=int))
    expect_raises(ValueError, 'mps2lat_values_masked.length-mismatch-not-rejected', lat.mps2lat_values_masked, C,
                  [0, 2], [inds0], [True, False])
    expect_raises(ValueError, 'lat2mps_idx.wrong-length-not-rejected', lat.lat2mps_idx, [0] * (len(shape) + 1))


def _random_regular_case(rng, allow_shift_open=False, real_sites=False):
    for _ in range(50):
        c = G.random_case(rng, maxL=3)
        if len(c['Ls']) > 2:
            continue
        if not allow_shift_open and c['bc'][0] == 'open' and any(isinstance(b, int) for b in c['bc']):
            continue
        return c
    raise RuntimeError('no case')


def _bases(geo, u):
    """(mps index, cell x) of the existing sites with unit-cell index u"""
    return [(i, r[:-1]) for i, r in enumerate(geo.order) if r[-1] == u]


def _corner(x, mins, shape):
    return tuple((x[a] + mins[a]) % shape[a] for a in range(len(shape)))


def sc_strength(rng):
    """possible_couplings / possible_multi_couplings with a strength array: every coupling gets the entry at the
    lower-left corner of its box; zeros are dropped; scalars and smaller arrays are tiled"""
    case = _random_regular_case(rng)
    if rng.random() < 0.4:
        v = G.random_variant(rng, case)
        if v is not None and 'enlarge' not in (v.get('variant') or {}):
            case = v
    case['q'] = []
    with warnings.catch_warnings():
        warnings.simplefilter('ignore')
        lat = R.build_real(case)
    geo = R.Geometry(case, lat)
    Ls, Lu, D = geo.Ls, geo.Lu, geo.D
    for _ in range(4):
        u1, u2 = rng.randrange(Lu), rng.randrange(Lu)
        dx = [rng.randint(-L, L) for L in Ls]
        shape, shift = lat.coupling_shape(np.array(dx))
        shape = [int(s) for s in shape]
        if any(s <= 0 for s in shape):
            continue
        full = np.array([rng.choice([0, 0, 1, 2, -3, 5]) for _ in range(int(np.prod(shape)))]).reshape(shape)
        forms = [full]
        if rng.random() < 0.5:
            forms.append(rng.choice([2, -1.5]))
        if shape[0] % 2 == 0 and rng.random() < 0.7:  # an array that is tiled along x
            half = full[:shape[0] // 2]
            forms.append(half)
        for st in forms:
            tiled = np.tile(st, [s // t for s, t in zip(shape, np.shape(st))]) if np.ndim(st) else np.full(shape, st)
            want = []
            for i, x in _bases(geo, u1):
                im = geo.image([x[a] + dx[a] for a in range(D)])
                if im is None or im[0] + (u2,) not in geo.mps:
                    continue
                s = tiled[_corner(x, [min(0, d) for d in dx], shape)]
                if s != 0:
                    pair = geo.normalize((i, geo.mps[im[0] + (u2,)] + (0 if geo.finite else im[1] * geo.N)))
                    want.append(pair + (float(s),))
            mi, mj, sv = lat.possible_couplings(u1, u2, np.array(dx), st)
            got = sorted(zip(R._ints(mi), R._ints(mj), [float(x) for x in np.asarray(sv).reshape(-1)]))
            need(got == sorted(want), 'possible_couplings.strength-wrong',
                 f'{_light(case)} u={u1},{u2} dx={dx} strength shape {np.shape(st)}: got {got[:4]} want {sorted(want)[:4]}')
    # shapes with a zero / negative entry: nothing is listed (open direction, box as large as / larger than the lattice)
    if any(geo.open) and not geo.helical:
        a = geo.open.index(True)
        far = [0] * D
        far[a] = Ls[a]
        tops = [('X', [0] * D, 0), ('X', far, 0)]
        ij, sv = lat.possible_multi_couplings(tops, 1.0)
        need(len(ij) == 0 and len(sv) == 0, 'possible_multi_couplings.zero-shape-not-empty', f'{_light(case)}')
        mi, mj, sv = lat.possible_couplings(0, 0, np.array(far), 1.0)
        need(len(mi) == 0 and len(mj) == 0 and len(sv) == 0, 'possible_couplings.zero-shape-not-empty', f'{_light(case)}')
        far[a] = Ls[a] + 1
        mi, mj, _, _ = lat.possible_couplings(0, 0, np.array(far))
        need(len(mi) == 0, 'possible_couplings.negative-shape-not-empty', '')
    # multi couplings
    for _ in range(3):
        nops = rng.randint(2, 3)
        ops = [([rng.randint(-min(L, 2), min(L, 2)) for L in Ls], rng.randrange(Lu)) for _ in range(nops)]
        if all(o == ops[0] for o in ops):
            continue
        tops = [('X', dxk, uk) for dxk, uk in ops]
        try:
            _, _, shape = lat.possible_multi_couplings(tops)
        except ValueError:
            continue
        shape = [int(s) for s in shape]
        if any(s <= 0 for s in shape):
            continue
        mins = [min(o[0][a] for o in ops) for a in range(D)]
        full = np.array([rng.choice([0, 1, 2, -3]) for _ in range(int(np.prod(shape)))]).reshape(shape)
        want = []
        ranges = [range(-mins[a], Ls[a] - max(o[0][a] for o in ops)) if geo.open[a] else range(-mins[a], Ls[a] - mins[a])
                  for a in range(D)]
        for x in itertools.product(*ranges):
            idx = []
            for dxk, uk in ops:
                im = geo.image([x[a] + dxk[a] for a in range(D)])
                if im is None or im[0] + (uk,) not in geo.mps:
                    idx = None
                    break
                idx.append(geo.mps[im[0] + (uk,)] + (0 if geo.finite else im[1] * geo.N))
            if idx is None:
                continue
            s = full[_corner(x, mins, shape)]
            if s != 0:
                want.append(geo.normalize(idx) + (float(s),))
        ijkl, sv = lat.possible_multi_couplings(tops, full)
        got = sorted(tuple(int(v) for v in r) + (float(s),) for r, s in zip(np.asarray(ijkl).reshape(-1, nops), sv))
        if geo.helical:
            want = [w for w in want if min(w[:-1]) < geo.N_hel]
        need(got == sorted(want), 'possible_multi_couplings.strength-wrong',
             f'{_light(case)} ops={ops}: got {got[:3]} want {sorted(want)[:3]}')


def _light(case):
    return {k: v for k, v in case.items() if k != 'q'}


def sc_helical_strength(rng):
    """HelicalLattice with strengths: uniform strengths pass the translation-invariance check, a strength that
    distinguishes the helical unit cells is rejected; mps2lat_values is not implemented"""
    L = la()
    cls, Lu = rng.choice([('Square', 1), ('Honeycomb', 2), ('Kagome', 3)])
    Lx, Ly = rng.randint(2, 3), rng.randint(1, 3)
    reg = getattr(L, cls)(Lx, Ly, R._site(), bc=['periodic', -1], bc_MPS='infinite', order='Cstyle')
    cells = Lx * Ly
    n = rng.choice([k for k in range(1, cells) if cells % k == 0])
    hel = L.HelicalLattice(reg, n)
    u1, u2 = rng.randrange(Lu), rng.randrange(Lu)
    dx = [rng.randint(-1, 1), rng.randint(-1, 1)]
    if u1 == u2 and not any(dx):
        dx = [1, 0]
    mi, mj, sv = hel.possible_couplings(u1, u2, np.array(dx), 2.5)
    mi0, mj0, _, _ = hel.possible_couplings(u1, u2, np.array(dx))
    need(sorted(zip(R._ints(mi), R._ints(mj))) == sorted(zip(R._ints(mi0), R._ints(mj0))) and
         np.allclose(sv, 2.5), 'Helical.possible_couplings.strength', f'{cls} n={n} {u1},{u2},{dx}')
    ops = [('X', [0, 0], u1), ('X', dx, u2), ('X', [1, 1], 0)]
    ijkl, sv = hel.possible_multi_couplings(ops, 1.5)
    ijkl0, _, _ = hel.possible_multi_couplings(ops)
    need(sorted(map(tuple, np.asarray(ijkl).tolist())) == sorted(map(tuple, np.asarray(ijkl0).tolist())) and
         np.allclose(sv, 1.5), 'Helical.possible_multi_couplings.strength', f'{cls} n={n}')
    shape, _ = reg.coupling_shape(np.array(dx))
    if shape[0] >= 2 and len(mi0):
        nonuni = np.ones(shape)
        nonuni[0] = 7.0
        expect_raises(ValueError, 'Helical.non-invariant-strength-not-rejected', hel.possible_couplings, u1, u2,
                      np.array(dx), nonuni)
    expect_raises(NotImplementedError, 'Helical.mps2lat_values-not-rejected', hel.mps2lat_values, np.arange(hel.N_sites))
    need(hel.N_sites == n * Lu and hel.N_cells == n, 'Helical.sizes', '')
    # constructor checks
    expect_raises(ValueError, 'Helical.init.finite-not-rejected', L.HelicalLattice,
                  getattr(L, cls)(Lx, Ly, R._site(), bc=['periodic', -1], bc_MPS='finite'), 1)
    expect_raises(ValueError, 'Helical.init.wrong-shift-not-rejected', L.HelicalLattice,
                  getattr(L, cls)(Lx, Ly, R._site(), bc=['periodic', 1], bc_MPS='infinite'), 1)
    expect_raises(ValueError, 'Helical.init.1D-not-rejected', L.HelicalLattice,
                  L.Chain(4, R._site(), bc='periodic', bc_MPS='infinite'), 1)
    expect_raises(ValueError, 'Helical.init.too-many-cells-not-rejected', L.HelicalLattice, reg, cells + 1)
    if cells >= 3:
        bad = next((k for k in range(2, cells) if cells % k), None)
        if bad:
            expect_raises(ValueError, 'Helical.init.incommensurate-not-rejected', L.HelicalLattice, reg, bad)


def sc_segment(rng):
    """extract_segment(first, last) / (enlarge=k): the sites first..last of the (repeated) MPS, as a 'segment' lattice"""
    case = _random_regular_case(rng)
    case['variant'] = None
    case['bc'][0] = 'periodic'
    case['bc_MPS'] = rng.choice(['infinite', 'infinite', 'finite'])
    with warnings.catch_warnings():
        warnings.simplefilter('ignore')
        lat = R.build_real(case)
    N, R0 = int(lat.N_sites), int(lat.Ls[0])
    order0 = [tuple(int(v) for v in r) for r in lat.order]

    def site_of(i):
        q, r = divmod(i, N)
        x = list(order0[r])
        x[0] += q * R0
        return tuple(x)
    if case['bc_MPS'] == 'infinite':
        first = rng.randint(0, N - 1)
        last = rng.randint(first, 3 * N - 1)
    else:
        first = rng.randint(0, N - 1)
        last = rng.randint(first, N - 1)
    seg = lat.extract_segment(first, last)
    need(seg.bc_MPS == 'segment' and tuple(seg.segment_first_last) == (first, last), 'extract_segment.attributes', '')
    need(int(seg.N_sites) == last - first + 1, 'extract_segment.N_sites', f'{seg.N_sites} for {first}..{last}')
    got = [tuple(int(v) for v in r) for r in seg.order]
    need(got == [site_of(i) for i in range(first, last + 1)], 'extract_segment.wrong-sites',
         f'{_light(case)} first={first} last={last}: {got[:4]}')
    need(not seg.bc[0], 'extract_segment.bc_x-not-periodic', '')
    for k in range(len(got)):
        need(tuple(int(v) for v in seg.mps2lat_idx(k)) == got[k] and int(seg.lat2mps_idx(got[k])) == k,
             'extract_segment.index-maps', str(k))
    need(int(lat.N_sites) == N and [tuple(int(v) for v in r) for r in lat.order] == order0, 'extract_segment.mutated-self', '')
    seg0 = lat.extract_segment()
    need([tuple(int(v) for v in r) for r in seg0.order] == order0 and tuple(seg0.segment_first_last) == (0, N - 1) and
         seg0.bc_MPS == 'segment', 'extract_segment.default', '')
    if case['bc_MPS'] == 'infinite':
        k = rng.randint(1, 3)
        seg2 = lat.extract_segment(enlarge=k)
        need([tuple(int(v) for v in r) for r in seg2.order] == [site_of(i) for i in range(k * N)] and
             tuple(seg2.segment_first_last) == (0, k * N - 1), 'extract_segment.enlarge', str(k))
        expect_raises(ValueError, 'extract_segment.enlarge+first-not-rejected', lat.extract_segment, 1, None, 2)
    else:
        expect_raises(ValueError, 'extract_segment.enlarge-finite-not-rejected', lat.extract_segment, 0, None, 2)
        expect_raises(ValueError, 'enlarge_mps_unit_cell.finite-not-rejected', lat.enlarge_mps_unit_cell, 2)


def sc_model_params(rng):
    """get_lattice(name), cls.from_model_params(params, sites): the lattice described by the parameters"""
    from tenpy.tools.params import Config
    L = la()
    name = rng.choice(['Chain', 'Ladder', 'NLegLadder', 'Square', 'Triangular', 'Honeycomb', 'Kagome'])
    cls = L.get_lattice(name)
    need(cls is getattr(L, name) and L.get_lattice(cls) is cls, 'get_lattice.wrong-class', name)
    bc_MPS = rng.choice(['finite', 'infinite', 'segment'])
    p = {'bc_MPS': bc_MPS}
    order = rng.choice(['default', 'snake', 'Fstyle', 'folded' if name in ('Chain', 'Ladder', 'NLegLadder') else 'Cstyle'])
    p['order'] = order
    bc_x = 'open' if bc_MPS == 'finite' else 'periodic'
    if rng.random() < 0.5:
        bc_x = rng.choice(['open', 'periodic'])
        p['bc_x'] = bc_x
    s = R._site()
    if cls.dim == 1:
        Lx = rng.randint(1, 4)
        p['L'] = Lx
        Nl = rng.randint(2, 4)
        if name == 'NLegLadder':
            p['N_ladder_legs'] = Nl
        args = dict(Ls=(Lx,), bc=[bc_x])
    else:
        Lx, Ly = rng.randint(1, 3), rng.randint(1, 3)
        bc_y = rng.choice(['cylinder', 'ladder', 'open', 'periodic'])
        p.update(Lx=Lx, Ly=Ly, bc_y=bc_y)
        args = dict(Ls=(Lx, Ly), bc=[bc_x, {'cylinder': 'periodic', 'ladder': 'open'}.get(bc_y, bc_y)])
    cfg = Config(dict(p), 'test')
    with warnings.catch_warnings():
        warnings.simplefilter('ignore')
        if bc_MPS != 'finite' and bc_x == 'open':
            expect_raises(ValueError, 'from_model_params.open-x-infinite-not-rejected', cls.from_model_params, cfg, s)
            return
        lat = cls.from_model_params(cfg, s)
    need(tuple(lat.Ls) == args['Ls'] and lat.boundary_conditions == args['bc'] and lat.bc_MPS == bc_MPS,
         'from_model_params.wrong-lattice', f'{name} {p}: Ls={lat.Ls} bc={lat.boundary_conditions}')
    if name == 'NLegLadder':
        need(len(lat.unit_cell) == Nl, 'from_model_params.N_ladder_legs', '')
        ref = cls(Lx, Nl, s, order=order, bc=bc_x, bc_MPS=bc_MPS)
    elif cls.dim == 1:
        ref = cls(Lx, s, order=order, bc=bc_x, bc_MPS=bc_MPS)
    else:
        ref = cls(Lx, Ly, s, order=order, bc=args['bc'], bc_MPS=bc_MPS)
    need(np.array_equal(lat.order, ref.order), 'from_model_params.order', f'{name} {order}')
    expect_raises(ValueError, 'NLegLadder.from_model_params.open-x-infinite-not-rejected', L.NLegLadder.from_model_params,
                  Config(dict(bc_MPS='infinite', bc_x='open'), 'test'), s)
    expect_raises((NotImplementedError, TypeError), 'Lattice.from_model_params.generic-not-rejected',
                  L.Lattice.from_model_params, Config({}, 'test'), [s])


def sc_bc_forms(rng):
    """boundary_conditions: single string, list of strings, ints (also negative) as shifts; getter/setter round trip"""
    L = la()
    D = rng.randint(1, 3)
    Ls = [rng.randint(1, 3) for _ in range(D)]
    single = rng.choice(['open', 'periodic'])
    lat = L.Lattice(Ls, [None], bc=single)
    need(lat.bc.tolist() == [single == 'open'] * D and lat.bc_shift is None and lat.boundary_conditions == [single] * D,
         'boundary_conditions.single-string', single)
    bc = [rng.choice(['open', 'periodic'])] + [rng.choice(['open', 'periodic', 0, 1, -1, -2, 3]) for _ in range(D - 1)]
    lat = L.Lattice(Ls, [None], bc=tuple(bc))
    want_open = [b == 'open' for b in bc]
    shifts = [int(b) if isinstance(b, int) else 0 for b in bc[1:]]
    need(lat.bc.tolist() == want_open and lat.bc.dtype == bool, 'boundary_conditions.bc-array', f'{bc}: {lat.bc.tolist()}')
    if any(shifts):
        need(lat.bc_shift is not None and lat.bc_shift.tolist() == shifts, 'boundary_conditions.bc_shift', f'{bc}')
    else:
        need(lat.bc_shift is None, 'boundary_conditions.bc_shift-not-None', f'{bc}')
    human = lat.boundary_conditions
    want_human = [('periodic' if (isinstance(b, int) and b == 0) else b) for b in bc]
    need(human == want_human, 'boundary_conditions.getter', f'{bc} -> {human}')
    lat2 = L.Lattice(Ls, [None], bc=human)
    need(lat2.bc.tolist() == lat.bc.tolist() and
         (lat2.bc_shift is None) == (lat.bc_shift is None) and
         (lat.bc_shift is None or lat2.bc_shift.tolist() == lat.bc_shift.tolist()), 'boundary_conditions.roundtrip', f'{bc}')
    expect_raises(ValueError, 'boundary_conditions.shift-in-x-not-rejected', L.Lattice, Ls, [None], bc=[1] + ['open'] * (D - 1))
    expect_raises(ValueError, 'test_sanity.wrong-len-bc-not-rejected', L.Lattice, Ls, [None], bc=['open'] * (D + 1))
    expect_raises(ValueError, 'test_sanity.open-x-infinite-not-rejected', L.Lattice, Ls, [None], bc='open', bc_MPS='infinite')
    expect_raises(ValueError, 'test_sanity.invalid-bc_MPS-not-rejected', L.Lattice, Ls, [None], bc='periodic', bc_MPS='foo')
    expect_raises(ValueError, 'ordering.unknown-string-not-rejected', L.Lattice, Ls, [None], order='nonsense')
    expect_raises(ValueError, 'ordering.unknown-tuple-not-rejected', L.Lattice, Ls, [None], order=('what', 1, 2))
    expect_raises(ValueError, 'test_sanity.basis-shape-not-rejected', L.Lattice, Ls, [None], basis=np.eye(D + 1))
    expect_raises(ValueError, 'test_sanity.positions-shape-not-rejected', L.Lattice, Ls, [None], positions=np.zeros((2, D)))
    # cylinder axis: perpendicular to the periodicity vector Ly*basis[1] + shift*basis[0] (2D), else along basis[0]
    Lx, Ly = rng.randint(1, 3), rng.randint(1, 3)
    by = rng.choice(['open', 'periodic', 1, -1, 2])
    for cls in (L.Square, L.Triangular, L.Honeycomb):
        lt = cls(Lx, Ly, None, bc=['periodic', by], bc_MPS='infinite')
        ax = lt.cylinder_axis
        need(abs(np.linalg.norm(ax) - 1) < TOL, 'cylinder_axis.not-normalized', '')
        if by == 'open':
            need(np.allclose(ax, lt.basis[0] / np.linalg.norm(lt.basis[0])), 'cylinder_axis.open-y', '')
        else:
            per = Ly * lt.basis[1] + (by if isinstance(by, int) else 0) * lt.basis[0]
            need(abs(float(np.dot(ax, per))) < TOL, 'cylinder_axis.not-perpendicular-to-periodicity', f'{cls.__name__} {by}')
    ch = L.Chain(3, None)
    need(np.allclose(ch.cylinder_axis, [1.0]), 'cylinder_axis.1D', '')
    # order given directly as an array (setter) on a SimpleLattice with positions as a single vector
    sl = L.SimpleLattice(Ls, None, positions=[0.25] * D, order=('standard', [False] * D, list(range(D))[::-1]))
    need(sl.unit_cell_positions.shape == (1, D), 'SimpleLattice.positions', '')
    rows = [list(r) + [0] for r in itertools.product(*[range(x) for x in Ls])]
    rng.shuffle(rows)
    sl.order = np.array(rows)
    sl.test_sanity()
    for i, r in enumerate(rows):
        need(int(sl.lat2mps_idx(r)) == i and sl.mps2lat_idx(i).tolist() == r, 'order-setter.array', str(i))


def sc_irregular_api(rng):
    """IrregularLattice: ordering(name) re-applies remove/add to another order of the regular lattice; add with
    explicit MPS positions; add_positions; error for mismatching add_positions"""
    L = la()
    Lx, Lu = rng.randint(2, 4), rng.randint(1, 2)
    reg = L.Lattice([Lx, 2], [None] * Lu, bc=['periodic', 'open'], bc_MPS=rng.choice(['finite', 'infinite']))
    grid = [list(r) for r in itertools.product(range(Lx), range(2), range(Lu))]
    remove = rng.sample(grid, rng.randint(1, 2))
    cells = [list(r) for r in itertools.product(range(Lx), range(2))]
    addrows = [c + [Lu] for c in rng.sample(cells, rng.randint(1, 2))]
    mps_add = [rng.choice([None, k + 0.5, float(k)]) for k in rng.sample(range(-1, len(grid)), len(addrows))]
    addpos = [[0.5, 0.25]]
    irr = L.IrregularLattice(reg, remove=remove, add=(addrows, mps_add), add_unit_cell=[None], add_positions=addpos)
    need(np.allclose(irr.unit_cell_positions[-1], addpos[0]) and len(irr.unit_cell) == Lu + 1, 'Irregular.add_positions', '')
    cur = [tuple(int(v) for v in r) for r in reg.order]
    for name in ['default', 'snake', 'Fstyle']:
        regorder = [tuple(int(v) for v in r) for r in reg.ordering(name)]

        def expected(resolve_in):
            keys = [(float(i), 0, r) for i, r in enumerate(regorder) if list(r) not in remove]
            for r, m in zip(addrows, mps_add):
                if m is None:  # documented: right after the last regular site of the same unit cell
                    m = float(resolve_in.index(tuple(r[:-1]) + (Lu - 1,)))
                keys.append((float(m), 1, tuple(r)))
            return [k[2] for k in sorted(keys, key=lambda t: t[0])]  # stable: regular sites first on ties
        got = [tuple(int(v) for v in r) for r in irr.ordering(name)]
        if got != expected(regorder):
            sig = 'Irregular.ordering'
            if got == expected(cur):
                sig += '.add-None-placed-by-the-current-order-of-the-regular-lattice'
            need(False, sig, f'{name}: remove {remove} add {addrows} at {mps_add}: {got} vs {expected(regorder)}')
    irr.order = irr.ordering('snake')
    want_sites = {tuple(r) for r in grid if r not in remove} | {tuple(r) for r in addrows}
    need({tuple(int(v) for v in r) for r in irr.order} == want_sites and int(irr.N_sites) == len(want_sites), 'Irregular.sites', '')
    for i, r in enumerate(irr.order):
        need(int(irr.lat2mps_idx(r)) == i, 'Irregular.lat2mps-after-reorder', str(i))
    need(sorted(R._ints(irr.mps_idx_fix_u(None))) == list(range(len(want_sites))), 'Irregular.mps_idx_fix_u(None)', '')
    expect_raises(ValueError, 'Irregular.add_positions-length-not-rejected', L.IrregularLattice, reg, remove, None, [None],
                  [[0.0, 0.0], [1.0, 1.0]])


def sc_model_consumers(rng):
    """model.py: add_onsite / add_coupling (array strength, plus_hc, explicit_plus_hc) / add_multi_coupling /
    coupling_strength_add_ext_flux create exactly the brute-force terms"""
    from tenpy.models.model import CouplingModel
    case = _random_regular_case(rng)
    case['variant'] = None
    if case['cls'] in ('Lattice', 'SimpleLattice') and 'grouped' in case['order']:
        case['order'] = {'name': 'default'}
    with warnings.catch_warnings():
        warnings.simplefilter('ignore')
        lat = R.build_real(case, real_sites=True)
    geo = R.Geometry(case, lat)
    Ls, Lu, D = geo.Ls, geo.Lu, geo.D
    ephc = rng.random() < 0.4
    M = CouplingModel(lat, explicit_plus_hc=ephc)
    # onsite
    u = rng.randrange(Lu)
    st = np.array([rng.choice([0, 1, 2, -3]) for _ in range(int(np.prod(Ls)))], dtype=float).reshape(Ls)
    M.add_onsite(st.copy(), u, 'Sz')
    got = {}
    if 'Sz' in M.onsite_terms:
        for i, d in enumerate(M.onsite_terms['Sz'].onsite_terms):
            for op, v in d.items():
                if v != 0:
                    got[i] = (op, float(np.real(v)))
    want = {i: ('Sz', float(st[x]) / (2 if ephc else 1)) for i, x in _bases(geo, u) if st[x] != 0}
    need(got == want, 'add_onsite.terms', f'{_light(case)} u={u}: {sorted(got.items())[:4]} vs {sorted(want.items())[:4]}')
    # coupling with array strength (+ flux) and plus_hc
    u1, u2 = rng.randrange(Lu), rng.randrange(Lu)
    dx = [rng.randint(-min(L, 2), min(L, 2)) for L in Ls]
    if u1 == u2 and not any(dx):
        dx[0] = 1
    shape, _ = lat.coupling_shape(np.array(dx))
    shape = [int(s) for s in shape]
    if all(s > 0 for s in shape):
        base = np.array([rng.choice([0, 1, 2, 4]) for _ in range(int(np.prod(shape)))], dtype=float).reshape(shape)
        phase = [0.0 if geo.open[a] else rng.choice([0.0, 0.5, -1.25]) for a in range(D)]
        if any(geo.shift):
            phase[0] = 0.0  # a flux along x together with bc_shift is outside the documented use
        flux = M.coupling_strength_add_ext_flux(base, dx, phase)
        need(tuple(flux.shape) == tuple(shape) and np.iscomplexobj(flux), 'coupling_strength_add_ext_flux.shape', '')
        want = Counter()
        selfpair = False
        for i, x in _bases(geo, u1):
            X = [x[a] + dx[a] for a in range(D)]
            im = geo.image(X)
            if im is None or im[0] + (u2,) not in geo.mps:
                continue
            ks = [(X[a] // Ls[a]) for a in range(D)]
            c = _corner(x, [min(0, d) for d in dx], shape)
            val = base[c] * np.exp(-1j * sum(phase[a] * ks[a] for a in range(1 if any(geo.shift) else 0, D)))
            need(abs(flux[c] - val) < 1e-12, 'coupling_strength_add_ext_flux.wrong-phase',
                 f'{_light(case)} dx={dx} phase={phase} corner {c}: {flux[c]} vs {val} (windings {ks})')
            j = geo.mps[im[0] + (u2,)] + (0 if geo.finite else im[1] * geo.N)
            a_, b_ = geo.normalize((i, j))
            selfpair |= a_ == b_
            if base[c] != 0:
                want[(min(a_, b_), max(a_, b_))] += base[c]
        if any(ph != 0 for ph in phase):
            expect_raises(ValueError, 'coupling_strength_add_ext_flux.phase-length-not-rejected',
                          M.coupling_strength_add_ext_flux, base, dx, phase + [0.0])
        if not selfpair and not geo.helical:
            M2 = CouplingModel(lat, explicit_plus_hc=ephc)
            plus_hc = rng.random() < 0.5
            M2.add_coupling(base, u1, 'Sp', u2, 'Sm', np.array(dx), plus_hc=plus_hc)
            got = Counter()
            gothc = Counter()
            for cat, ct in M2.coupling_terms.items():
                tl = ct.to_TermList()
                for term, s in zip(tl.terms, tl.strength):
                    (o1, i), (o2, j) = term
                    key = (int(i), int(j))
                    # the term as added is Sp on site(i0) and Sm on site(j0); its h.c. has the operators swapped
                    if (o1, o2) == ('Sp', 'Sm'):
                        got[(key, 'ij')] += float(np.real(s))
                    else:
                        got[(key, 'ji')] += float(np.real(s))
            tot = Counter()
            for (key, _), v in got.items():
                tot[key] += v
            fac = 1.0 if (plus_hc and ephc) or (not ephc and not plus_hc) else (2.0 if plus_hc else 0.5)
            want_tot = Counter({k: v * fac for k, v in want.items()})
            need({k: round(v, 9) for k, v in tot.items() if abs(v) > 1e-12} ==
                 {k: round(v, 9) for k, v in want_tot.items() if abs(v) > 1e-12},
                 'add_coupling.array-strength-terms' + ('[bc_shift,plus_hc,non-uniform-strength]' if (
                     any(geo.shift) and plus_hc and not ephc and len(set(base.reshape(-1).tolist())) > 1) else ''),
                 f'{_light(case)} u={u1},{u2} dx={dx} plus_hc={plus_hc} explicit={ephc}: '
                 f'{sorted(tot.items())[:4]} vs {sorted(want_tot.items())[:4]}')
    # multi coupling
    nops = 3
    ops = [([rng.randint(-1, 1) for _ in Ls], rng.randrange(Lu)) for _ in range(nops)]
    ops[0] = ([0] * D, ops[0][1])
    if len({(tuple(o[0]), o[1]) for o in ops}) == nops and not geo.helical and not case_tagged(case):
        want = Counter()
        ok = True
        mins = [min(o[0][a] for o in ops) for a in range(D)]
        ranges = [range(-mins[a], Ls[a] - max(o[0][a] for o in ops)) if geo.open[a] else range(-mins[a], Ls[a] - mins[a])
                  for a in range(D)]
        for x in itertools.product(*ranges):
            idx = []
            for dxk, uk in ops:
                im = geo.image([x[a] + dxk[a] for a in range(D)])
                if im is None or im[0] + (uk,) not in geo.mps:
                    idx = None
                    break
                idx.append(geo.mps[im[0] + (uk,)] + (0 if geo.finite else im[1] * geo.N))
            if idx is None:
                continue
            idx = geo.normalize(idx)
            if len(set(idx)) < nops:
                ok = False
            want[tuple(sorted(idx))] += 1
        if ok and want:
            M3 = CouplingModel(lat)
            M3.add_multi_coupling(1.0, [('Sz', dxk, uk) for dxk, uk in ops])
            got = Counter()
            for ct in M3.coupling_terms.values():
                tl = ct.to_TermList()
                for term, s in zip(tl.terms, tl.strength):
                    got[tuple(sorted(int(i) for _, i in term))] += int(round(float(np.real(s))))
            # terms of an infinite system are stored with their left-most site in the unit cell
            need(got == want, 'add_multi_coupling.terms', f'{_light(case)} ops={ops}: {sorted(got.items())[:3]} vs {sorted(want.items())[:3]}')


def sc_model_options(rng):
    """model.py option branches of the lattice consumers: Jordan-Wigner strings, plus_hc, categories, error classes"""
    from tenpy.models.model import CouplingModel
    from tenpy.networks.site import FermionSite
    L = la()
    f = FermionSite(conserve=None)
    D = rng.randint(1, 2)
    Lu = rng.randint(1, 2)
    Ls = [rng.randint(2, 3) for _ in range(D)]
    bc_MPS = rng.choice(['finite', 'infinite'])
    bc = ['periodic' if bc_MPS == 'infinite' else rng.choice(['open', 'periodic'])] + \
        [rng.choice(['open', 'periodic', -1]) for _ in range(D - 1)]
    if bc[0] == 'open':
        bc = [b if not isinstance(b, int) else 'periodic' for b in bc]
    lat = L.Lattice(Ls, [f] * Lu, bc=bc, bc_MPS=bc_MPS, order=rng.choice(['default', 'snake']))
    case = {'cls': 'Lattice', 'Ls': Ls, 'Lu': Lu, 'order': {'name': 'default'}, 'bc': bc, 'bc_MPS': bc_MPS, 'variant': None, 'q': []}
    geo = R.Geometry(case, lat)
    u1, u2 = rng.randrange(Lu), rng.randrange(Lu)
    dx = [rng.randint(-1, 1) for _ in Ls]
    if u1 == u2 and not any(dx):
        dx[0] = 1
    pairs = geo.pairs_bruteforce(u1, u2, dx)
    ephc = rng.random() < 0.5
    plus_hc = rng.random() < 0.5
    if not any(a == b for a, b in pairs):
        M = CouplingModel(lat, explicit_plus_hc=ephc)
        M.add_coupling(1.0, u1, 'Cd', u2, 'C', dx, plus_hc=plus_hc, category='hop')
        need(list(M.coupling_terms.keys()) in (['hop'], []), 'add_coupling.category', str(list(M.coupling_terms)))
        got = Counter()
        if 'hop' in M.coupling_terms:
            tl = M.coupling_terms['hop'].to_TermList()
            for term, st in zip(tl.terms, tl.strength):
                got[(int(term[0][1]), int(term[1][1]))] += abs(complex(st))
        per = (1.0 if ephc else 2.0) if plus_hc else (0.5 if ephc else 1.0)
        want = Counter()
        for a, b in pairs:
            want[(min(a, b), max(a, b))] += per
        need({k: round(v, 9) for k, v in got.items()} == {k: round(v, 9) for k, v in want.items()},
             'add_coupling.JW-plus_hc-terms', f'{Ls} {bc} {bc_MPS} u={u1},{u2} dx={dx} plus_hc={plus_hc} explicit={ephc}: '
             f'{sorted(got.items())[:4]} vs {sorted(want.items())[:4]}')
        # every hopping term carries a Jordan-Wigner string between its sites
        if 'hop' in M.coupling_terms:
            for i, d1 in M.coupling_terms['hop'].coupling_terms.items():
                for (op_i, op_str), d2 in d1.items():
                    need(op_str == 'JW', 'add_coupling.JW-string-missing', f'{op_i} {op_str}')
    M = CouplingModel(lat)
    expect_raises(ValueError, 'add_coupling.onsite-not-rejected', M.add_coupling, 1.0, 0, 'Cd', 0, 'C', [0] * D)
    expect_raises(ValueError, 'add_coupling.unknown-op-not-rejected', M.add_coupling, 1.0, 0, 'Foo', 0, 'C', [1] + [0] * (D - 1))
    expect_raises(ValueError, 'add_coupling.single-JW-not-rejected', M.add_coupling, 1.0, 0, 'Cd', 0, 'N', [1] + [0] * (D - 1))
    expect_raises(ValueError, 'add_onsite.JW-op-not-rejected', M.add_onsite, 1.0, 0, 'Cd')
    expect_raises(ValueError, 'add_onsite.unknown-op-not-rejected', M.add_onsite, 1.0, 0, 'Foo')
    expect_raises(ValueError, 'add_multi_coupling.onsite-not-rejected', M.add_multi_coupling, 1.0,
                  [('N', [0] * D, 0), ('N', [0] * D, 0)])
    expect_raises(ValueError, 'add_multi_coupling.odd-JW-not-rejected', M.add_multi_coupling, 1.0,
                  [('Cd', [0] * D, 0), ('N', [1] + [0] * (D - 1), 0), ('N', [0] * D, 0)])
    M.add_coupling(0.0, 0, 'Foo', 0, 'Bar', [1] + [0] * (D - 1))  # zero strength: accepted without looking at the operators
    M.add_onsite(0.0, 0, 'Foo')
    need(not M.coupling_terms and not M.onsite_terms, 'zero-strength.created-terms', '')
    # onsite with plus_hc and category
    s_lat = L.Lattice(Ls, [R._site()] * Lu, bc=bc, bc_MPS=bc_MPS)
    M = CouplingModel(s_lat, explicit_plus_hc=ephc)
    u = rng.randrange(Lu)
    M.add_onsite(3.0, u, 'Sp', category='fld', plus_hc=True)
    got = Counter()
    for i, d in enumerate(M.onsite_terms['fld'].onsite_terms):
        for op, v in d.items():
            got[(i, op)] += float(np.real(v))
    sel = [i for i, r in enumerate(s_lat.order) if r[-1] == u]
    want = Counter({(i, 'Sp'): 3.0 for i in sel})
    if not ephc:
        want.update({(i, 'Sm'): 3.0 for i in sel})
    need(got == want, 'add_onsite.plus_hc', f'explicit={ephc}: {sorted(got.items())[:4]} vs {sorted(want.items())[:4]}')
    # multi coupling with plus_hc: twice the terms (or the same with explicit_plus_hc)
    ops = [('Sp', [0] * D, 0), ('Sm', [1] + [0] * (D - 1), Lu - 1), ('Sz', [0] * (D - 1) + [1], 0)]
    geo2 = R.Geometry(dict(case), s_lat)
    rows = geo2.multi_bruteforce([(o[1], o[2]) for o in ops])
    if rows and all(len(set(r)) == 3 for r in rows):
        M = CouplingModel(s_lat, explicit_plus_hc=ephc)
        M.add_multi_coupling(2.0, ops, plus_hc=True)
        n = 0
        tot = 0.0
        for ct in M.coupling_terms.values():
            tl = ct.to_TermList()
            n += len(tl.terms)
            tot += sum(abs(complex(x)) for x in tl.strength)
        need(abs(tot - 2.0 * len(rows) * (1 if ephc else 2)) < 1e-9, 'add_multi_coupling.plus_hc-weight',
             f'{Ls} {bc} explicit={ephc}: total |strength| {tot} for {len(rows)} placements')


def case_tagged(case):
    bc = case['bc']
    return bool(bc and bc[0] == 'open' and any(isinstance(b, int) and b != 0 for b in bc[1:]))


def sc_mpo_model_lattice(rng):
    """CouplingMPOModel.init_lattice: lattice by name from model parameters (incl. helical / irregular options);
    the nearest-neighbour terms of a SpinModel are one per brute-force nearest-neighbour pair"""
    from tenpy.models.spins import SpinModel
    L = la()
    name = rng.choice(['Chain', 'Ladder', 'Square', 'Honeycomb', 'Triangular', 'Kagome'])
    cls = getattr(L, name)
    bc_MPS = rng.choice(['finite', 'infinite'])
    p = dict(lattice=name, bc_MPS=bc_MPS, Jz=1.0, Jx=0.0, Jy=0.0, conserve=None, sort_charge=False)
    if cls.dim == 1:
        p['L'] = rng.randint(2, 4)
        Ls = [p['L']]
        bc = ['open' if bc_MPS == 'finite' else 'periodic']
    else:
        p['Lx'], p['Ly'] = rng.randint(1, 2) + (bc_MPS == 'finite'), rng.randint(2, 3)
        p['bc_y'] = rng.choice(['cylinder', 'ladder'])
        Ls = [p['Lx'], p['Ly']]
        bc = ['open' if bc_MPS == 'finite' else 'periodic', 'periodic' if p['bc_y'] == 'cylinder' else 'open']
    p['order'] = rng.choice(['default', 'snake'])
    how = rng.choice(['name', 'class', 'instance', 'irregular'])
    if how == 'irregular' and bc_MPS != 'finite':
        how = 'name'  # an infinite MPO graph with a decoupled site is not the lattice's business (MPO builder raises)
    remove = None
    if how == 'class':
        p['lattice'] = cls
    with warnings.catch_warnings():
        warnings.simplefilter('ignore')
        if how == 'instance':
            pre = SpinModel(dict(p)).lat
            M = SpinModel(dict(lattice=pre, Jz=1.0, Jx=0.0, Jy=0.0, conserve=None, sort_charge=False))
            need(M.lat is pre, 'init_lattice.instance-not-used', '')
        elif how == 'irregular':
            N0 = int(np.prod(Ls)) * cls.Lu if cls.Lu else int(np.prod(Ls))
            tmp = SpinModel(dict(p)).lat
            remove = [[int(v) for v in tmp.order[rng.randrange(tmp.N_sites)]]]
            p['irregular_remove'] = remove
            try:
                M = SpinModel(dict(p))
            except ValueError as e:
                if 'charges on the very right leg of the MPO' in str(e):
                    return  # the removal decoupled the system completely: the MPO builder (not the lattice) gives up
                raise
            need(isinstance(M.lat, L.IrregularLattice) and isinstance(M.lat.regular_lattice, cls) and
                 int(M.lat.N_sites) == int(tmp.N_sites) - 1, 'init_lattice.irregular_remove', f'{p}')
        else:
            M = SpinModel(dict(p))
        expect_raises(ValueError, 'init_lattice.invalid-type-not-rejected', SpinModel, dict(p, lattice=42))
    lat = M.lat
    if how == 'irregular':
        case = {'cls': name, 'Ls': Ls, 'Lu': len(lat.unit_cell), 'order': {'name': p['order']}, 'bc': bc, 'bc_MPS': bc_MPS,
                'variant': {'irregular': {'remove': remove, 'add': None, 'n_add_uc': 0}}, 'q': []}
        geo = R.Geometry(case, lat)
        need(geo.check_bijection() is None, 'init_lattice.irregular_remove.sites', str(geo.check_bijection()))
        want, selfpair = Counter(), False
        for u1, u2, dx in lat.pairs['nearest_neighbors']:
            for a_, b_ in geo.pairs_bruteforce(u1, u2, [int(d) for d in dx]):
                selfpair |= a_ == b_
                want[(min(a_, b_), max(a_, b_))] += 1
        if not selfpair:
            got = Counter()
            if 'Sz_i Sz_j' in M.coupling_terms:
                tl = M.coupling_terms['Sz_i Sz_j'].to_TermList()
                for term, st in zip(tl.terms, tl.strength):
                    got[(int(term[0][1]), int(term[1][1]))] += int(round(float(np.real(st))))
            need(got == want, 'SpinModel.nearest-neighbour-terms.irregular', f'{p}: {sorted(got.items())[:4]} vs {sorted(want.items())[:4]}')
        return
    need(isinstance(lat, cls) and list(lat.Ls) == Ls and lat.boundary_conditions == bc and lat.bc_MPS == bc_MPS,
         'init_lattice.wrong-lattice', f'{p}: {type(lat).__name__} {lat.Ls} {lat.boundary_conditions}')
    case = {'cls': name, 'Ls': Ls, 'Lu': len(lat.unit_cell), 'order': {'name': p['order']}, 'bc': bc, 'bc_MPS': bc_MPS,
            'variant': None, 'q': []}
    geo = R.Geometry(case, lat)
    want = Counter()
    selfpair = False
    for u1, u2, dx in lat.pairs['nearest_neighbors']:
        for a_, b_ in geo.pairs_bruteforce(u1, u2, [int(d) for d in dx]):
            selfpair |= a_ == b_
            want[(min(a_, b_), max(a_, b_))] += 1
    if selfpair:
        return
    got = Counter()
    tl = M.coupling_terms['Sz_i Sz_j'].to_TermList()
    for term, s in zip(tl.terms, tl.strength):
        got[(int(term[0][1]), int(term[1][1]))] += int(round(float(np.real(s))))
    need(got == want, 'SpinModel.nearest-neighbour-terms', f'{p}: {sorted(got.items())[:4]} vs {sorted(want.items())[:4]}')


SCENARIOS = [
    ('position_distance', sc_position_distance, 14), ('count_neighbors', sc_count_neighbors, 3),
    ('nleg_multispecies_pairs', sc_nleg_multispecies_pairs, 5), ('sites', sc_sites, 3),
    ('values_axes', sc_values_axes, 10), ('strength', sc_strength, 16), ('helical_strength', sc_helical_strength, 5),
    ('segment', sc_segment, 14), ('model_params', sc_model_params, 14), ('bc_forms', sc_bc_forms, 8),
    ('irregular_api', sc_irregular_api, 8), ('model_consumers', sc_model_consumers, 16),
    ('mpo_model_lattice', sc_mpo_model_lattice, 6), ('model_options', sc_model_options, 10),
]
BY_NAME = {n: f for n, f, _ in SCENARIOS}


def run_one(name, seed):
    """-> None or (signature, detail)"""
    rng = random.Random(f'C19-api:{name}:{seed}')
    try:
        with warnings.catch_warnings():
            warnings.simplefilter('ignore')
            BY_NAME[name](rng)
    except Fail as f:
        return f.sig, f.detail
    except Exception as e:  # noqa: BLE001
        import traceback
        tb = traceback.extract_tb(e.__traceback__)
        where = ' <- '.join(f'{t.name}:{t.lineno}' for t in tb[-3:])
        return f'api.{name}.raised-{type(e).__name__}', f'{e}'[:300] + ' @ ' + where
    return None


def run(ctx, factor=1):
    res = core.Result()
    base = ctx.seed * 100003
    for name, _, n in SCENARIOS:
        for k in range(n * factor):
            case = {'part': 'api', 'scenario': name, 'seed': base + k}
            res.note_case(case, True)
            res.count('api.' + name)
            f = run_one(name, base + k)
            if f:
                res.fail('property', f[0], f[1], case)
    return res


def replay_case(case):
    res = core.Result()
    res.note_case(case, True)
    f = run_one(case['scenario'], case['seed'])
    if f:
        res.fail('property', f[0], f[1], case)
    return res
